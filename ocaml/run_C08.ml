(* run_C08.ml — ref compare-and-swap model.
   run <r0|-> <ops> <schedule>
     ops: cas:o:n  add:n  set:n  del:o  commit:c  read      (comma separated, one per actor)
     schedule: actor indexes, dot separated
   answer: <results> | <ref> | <lock holder or -> | <history newest first> *)
let rec nat_of_int n = if n = 0 then O else S (nat_of_int (n - 1))
let rec int_of_nat = function O -> 0 | S n -> 1 + int_of_nat n
let on = function None -> "-" | Some n -> string_of_int (int_of_nat n)
let handle = function
  | ["run"; r0; ops; sched] ->
      let r0 = if r0 = "-" then None else Some (nat_of_int (int_of_string r0)) in
      let n s = nat_of_int (int_of_string s) in
      let mk o = match String.split_on_char ':' o with
        | ["cas"; a; b] -> KCas (n a, n b) | ["add"; a] -> KAdd (n a) | ["set"; a] -> KSet (n a)
        | ["del"; a] -> KDel (n a) | ["commit"; c] -> KCommit (n c) | ["read"] -> KRead | _ -> failwith "op" in
      let l = List.map mk (String.split_on_char ',' ops) in
      let steps = if sched = "_" then [] else List.map (fun x -> nat_of_int (int_of_string x)) (String.split_on_char '.' sched) in
      let s = run (init r0 l) steps in
      let res i = match (s.acts (nat_of_int i)).a_pc with
        | PDone RTrue -> "T" | PDone RFalse -> "F" | PDone RLocked -> "L" | PDone (RSeen v) -> "S" ^ on v | _ -> "@" in
      Printf.sprintf "%s | %s | %s | %s" (String.concat "," (List.init (List.length l) res)) (on s.ref) (on s.lock)
        (String.concat "," (List.map on s.hist))
  | ["prun"; l0; p0; ops; sched] ->
      (* the loose + packed-refs model: ops are tag:a:b with tag 0 pack, 1 cas a b, 2 set a, 3 del a, 4 read;
         answer: result codes (0 unfinished, 1 true, 2 false, 3 locked, 4 saw nothing, 5+v saw v) | loose | packed *)
      let o x = if x = "-" then None else Some (nat_of_int (int_of_string x)) in
      let n s = nat_of_int (int_of_string s) in
      let mk x = match String.split_on_char ':' x with [t; a; b] -> (n t, (n a, n b)) | _ -> failwith "op" in
      let steps = if sched = "_" then [] else List.map n (String.split_on_char '.' sched) in
      let (res, (lo, pa)) = pk_run (o l0) (o p0) (List.map mk (String.split_on_char ',' ops)) steps in
      Printf.sprintf "%s | %s | %s" (String.concat "," (List.map (fun r -> string_of_int (int_of_nat r)) res)) (on lo) (on pa)
  | _ -> "EXN bad request"
let () = serve handle
