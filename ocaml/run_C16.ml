(* run_C16.ml — ref names *)
let b2s b = if b then "1" else "0"
let handle = function
  | ["name"; s] -> let l = bytes_of_hex s in b2s (check_ref_format l) ^ b2s (git_check_refname_format l)
  | ["names"; s] ->
      (* many names separated by ',' in one request *)
      String.concat "" (List.map (fun x -> let l = bytes_of_hex x in b2s (check_ref_format l) ^ b2s (git_check_refname_format l))
                          (String.split_on_char ',' s))
  | ["refname"; s] -> b2s (check_refname (bytes_of_hex s))
  | _ -> "EXN bad request"
let () = serve handle
