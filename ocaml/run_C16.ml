(* run_C16.ml — ref names *)
let b2s b = if b then "1" else "0"
let handle = function
  | ["name"; s] -> let l = bytes_of_hex s in b2s (check_ref_format l) ^ b2s (git_check_refname_format l)
  | ["names"; s] ->
      (* many names separated by ',' in one request *)
      String.concat "" (List.map (fun x -> let l = bytes_of_hex x in b2s (check_ref_format l) ^ b2s (git_check_refname_format l))
                          (String.split_on_char ',' s))
  | ["refname"; s] -> b2s (check_refname (bytes_of_hex s))
  | ["refs"; ops] ->
      (* ops separated by ';', fields by ':'.  After each op: result letter and a dump of every visible ref *)
      let st = ref disk_init in
      let opt s = if s = "NONE" then None else Some (bytes_of_hex s) in
      let dump () =
        let ns = List.sort_uniq compare (List.map hex_of_bytes (names (!st).loose @ names (!st).packed)) in
        String.concat "," (List.filter_map (fun h ->
          match dread !st (bytes_of_hex h) with
          | Some (Sha v) -> Some (h ^ "=S" ^ hex_of_bytes v)
          | Some (Sym t) -> Some (h ^ "=Y" ^ hex_of_bytes t)
          | None -> None) ns) in
      String.concat "|" (List.map (fun o ->
        let op = match String.split_on_char ':' o with
          | ["set"; n; old; nw] -> OSet (bytes_of_hex n, opt old, bytes_of_hex nw)
          | ["add"; n; v] -> OAdd (bytes_of_hex n, bytes_of_hex v)
          | ["del"; n; old] -> ODel (bytes_of_hex n, opt old)
          | ["sym"; n; t] -> OSym (bytes_of_hex n, bytes_of_hex t)
          | ["pack"; a] -> OPack (a = "1")
          | _ -> failwith "op" in
        let (s', r) = rstep !st op in
        st := s';
        (match r with RTrue -> "T" | RFalse -> "F" | RExc -> "E") ^ " " ^ (let d = dump () in if d = "" then "_" else d))
        (String.split_on_char ';' ops))
  | ["pkwrite"; wp; items] ->
      (* items: name:sha:peeled ("-" = none), hex, ';' separated ("_" = none) -> the packed-refs file, hex *)
      let item x = match String.split_on_char ':' x with
        | [n; s; p] -> { p_name = bytes_of_hex n; p_sha = bytes_of_hex s; p_peeled = (if p = "-" then None else Some (bytes_of_hex p)) }
        | _ -> failwith "item" in
      let l = if items = "_" then [] else List.map item (String.split_on_char ';' items) in
      let out = write_packed (wp = "1") l in
      if out = [] then "_" else hex_of_bytes out
  | ["pkread"; content] ->
      (match read_packed (if content = "_" then [] else bytes_of_hex content) with
       | None -> "none"
       | Some l -> if l = [] then "_" else
           String.concat ";" (List.map (fun r -> Printf.sprintf "%s:%s:%s" (hex_of_bytes r.p_name) (hex_of_bytes r.p_sha)
             (match r.p_peeled with None -> "-" | Some q -> hex_of_bytes q)) l))
  | _ -> "EXN bad request"
let () = serve handle
