(* run_C05.ml — select <objects> <haves> <wants>
   objects: id:kind:parents:cdeps ';'-separated; kind c (commit) / t<target> (tag) / o (other); lists '.'-separated ("" = none)
   answer: sorted ids selected for sending ("_" = none; "fuel" = a walk ran out of fuel) *)
let rec nat_of_int n = if n = 0 then O else S (nat_of_int (n - 1))
let rec int_of_nat = function O -> 0 | S n -> 1 + int_of_nat n
let split c s = if s = "_" || s = "" then [] else String.split_on_char c s
let ints s = List.map (fun x -> nat_of_int (int_of_string x)) (split '.' s)
let handle = function
  | ["select"; objs; haves; wants] ->
      let kinds = Hashtbl.create 64 and par = Hashtbl.create 64 and cd = Hashtbl.create 64 in
      let edges = ref 0 in
      List.iter (fun x -> match String.split_on_char ':' x with
        | [i; k; p; d] ->
            let i = int_of_string i in
            Hashtbl.replace kinds i (if k = "c" then KCommit else if k = "o" then KOther else KTag (nat_of_int (int_of_string (String.sub k 1 (String.length k - 1)))));
            Hashtbl.replace par i (ints p); Hashtbl.replace cd i (ints d);
            edges := !edges + List.length (ints p) + List.length (ints d)
        | _ -> failwith "object") (split ';' objs);
      let f tbl o = try Hashtbl.find tbl (int_of_nat o) with Not_found -> [] in
      let kind_of o = try Some (Hashtbl.find kinds (int_of_nat o)) with Not_found -> None in
      let fuel = nat_of_int (4 * (Hashtbl.length kinds + !edges) + 64) in
      (match select kind_of (f par) (f cd) fuel (ints haves) (ints wants) with
       | None -> "fuel"
       | Some l -> if l = [] then "_" else String.concat "." (List.map string_of_int (List.sort_uniq compare (List.map int_of_nat l))))
  | _ -> "EXN bad request"
let () = serve handle
