(* run_C17.ml — path validators.  v <path-hex> -> "<default><ntfs>" as 0/1 for validate_path;
   e <element-hex> -> "<default><ntfs><is_ntfs_dotgit>" *)
let b x = if x then "1" else "0"
let handle = function
  | ["v"; p] -> let p = bytes_of_hex p in b (validate_path valid_default p) ^ b (validate_path valid_ntfs p)
  | ["e"; p] -> let p = bytes_of_hex p in b (valid_default p) ^ b (valid_ntfs p) ^ b (is_ntfs_dotgit p)
  | _ -> "EXN bad request"
let () = serve handle
