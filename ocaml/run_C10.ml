(* run_C10.ml — reachability / gc model.
   reach <deps> <roots>          deps: o:d.d;o:d   roots: o.o
   gc <deps> <roots> <stored> <old>   -> what remains when everything prunable is pruned
   answers: sorted object numbers joined by '.' ("_" = none; "fuel" = the walk ran out of fuel) *)
let rec nat_of_int n = if n = 0 then O else S (nat_of_int (n - 1))
let rec int_of_nat = function O -> 0 | S n -> 1 + int_of_nat n
let split c s = if s = "_" || s = "" then [] else String.split_on_char c s
let ints s = List.map int_of_string (split '.' s)
let depfun s =
  let tbl = Hashtbl.create 64 in
  List.iter (fun x -> match String.split_on_char ':' x with
    | [o; ds] -> Hashtbl.replace tbl (int_of_string o) (List.map (fun d -> nat_of_int (int_of_string d)) (split '.' ds))
    | _ -> failwith "dep") (split ';' s);
  ((fun o -> try Hashtbl.find tbl (int_of_nat o) with Not_found -> []), Hashtbl.length tbl)
let show l = if l = [] then "_" else String.concat "." (List.map string_of_int (List.sort_uniq compare (List.map int_of_nat l)))
let handle = function
  | ["reach"; d; r] ->
      let (deps, n) = depfun d in
      let roots = List.map nat_of_int (ints r) in
      (match find_reachable deps (nat_of_int (4 * n + List.length roots + 8)) roots with Some l -> show l | None -> "fuel")
  | ["gc"; d; r; stored; old] ->
      let (deps, n) = depfun d in
      let roots = List.map nat_of_int (ints r) in
      let st = List.map nat_of_int (ints stored) and oldl = ints old in
      (match find_reachable deps (nat_of_int (4 * n + List.length roots + 8)) roots with
       | Some reach -> show (after_gc st (prunable st reach (fun o -> List.mem (int_of_nat o) oldl)))
       | None -> "fuel")
  | _ -> "EXN bad request"
let () = serve handle
