(* run_C10.ml — reachability / gc model.
   reach <deps> <roots>          deps: o:d.d;o:d   roots: o.o
   gc <deps> <roots> <stored> <old>   -> what remains when everything prunable is pruned
   answers: sorted object numbers joined by '.' ("_" = none; "fuel" = the walk ran out of fuel) *)
let rec nat_of_int n = if n = 0 then O else S (nat_of_int (n - 1))
let rec int_of_nat = function O -> 0 | S n -> 1 + int_of_nat n
let split c s = if s = "_" || s = "" then [] else String.split_on_char c s
let ints s = List.map int_of_string (split '.' s)
let depfun s =
  let tbl = Hashtbl.create 64 in
  List.iter (fun x -> match String.split_on_char ':' x with
    | [o; ds] -> Hashtbl.replace tbl (int_of_string o) (List.map (fun d -> nat_of_int (int_of_string d)) (split '.' ds))
    | _ -> failwith "dep") (split ';' s);
  ((fun o -> try Hashtbl.find tbl (int_of_nat o) with Not_found -> []), Hashtbl.length tbl)
let show l = if l = [] then "_" else String.concat "." (List.map string_of_int (List.sort_uniq compare (List.map int_of_nat l)))
(* lookup <strict 0/1> <content> <disk> <reader> <script>
     content: w=o.o;w=o      (what each pack holds; the object looked up is 0)
     disk:    packs/loose/deleting        e.g. 1.2/1/0
     reader:  cache/iopen/dopen           e.g. 9/_/_
     script:  tokens joined by ',': aW (a pack appears), dW (a pack is deleted), l (the loose file is deleted),
              r (the reader's next step that touches the repository: steps that touch nothing run before it),
              r:W.W (the same where the pack directory is read: the order in which the cache then lists the packs)
   answer: <Found|Missing|Running> <bad 0/1> <trace of the reader's steps: pW probe, s directory read at the end of an attempt,
           L loose file, R second directory read> *)
let pc_kind (r : reader) = match r.ctl with
  | Scan (_, _, w :: _, _, _) -> "p" ^ string_of_int (int_of_nat w)
  | Scan (_, _, [], _, _) -> "s"
  | Loose -> "L" | Rescan2 -> "R" | Found -> "F" | Missing -> "M"
let lookup strict content disk reader script =
  let tbl = Hashtbl.create 16 in
  List.iter (fun x -> match String.split_on_char '=' x with
    | [w; os] -> Hashtbl.replace tbl (int_of_string w) (List.map (fun d -> nat_of_int (int_of_string d)) (split '.' os))
    | _ -> failwith "content") (split ';' content);
  let cont w = try Hashtbl.find tbl (int_of_nat w) with Not_found -> [] in
  let nats s = List.map nat_of_int (ints s) in
  let d = match String.split_on_char '/' disk with
    | [p; l; dl] -> { packs = nats p; loose = (l = "1"); deleting = (dl = "1") } | _ -> failwith "disk" in
  let r = match String.split_on_char '/' reader with
    | [c; io; dop] -> start (nats c) (nats io) (nats dop) | _ -> failwith "reader" in
  let st = ref ((d, r), false) and trace = ref [] in
  let step ev = st := sys_step cont O strict !st ev in
  let rec silents () = let ((_, r), _) = !st in if silent r then (step (EvRead []); silents ()) in
  List.iter (fun tok ->
    if tok = "l" then step (EvEnv EDelLoose)
    else if tok.[0] = 'a' then step (EvEnv (EAdd (nat_of_int (int_of_string (String.sub tok 1 (String.length tok - 1))))))
    else if tok.[0] = 'd' then step (EvEnv (EDelPack (nat_of_int (int_of_string (String.sub tok 1 (String.length tok - 1))))))
    else begin
      silents ();
      let ((_, r), _) = !st in
      if not (finished r) then begin
        trace := pc_kind r :: !trace;
        let order = if String.length tok > 2 then nats (String.sub tok 2 (String.length tok - 2)) else [] in
        step (EvRead order)
      end else trace := "-" :: !trace
    end) (split ',' script);
  silents ();
  let ((_, r), bad) = !st in
  Printf.sprintf "%s %s %s" (match r.ctl with Found -> "Found" | Missing -> "Missing" | _ -> "Running")
    (if bad then "1" else "0") (if !trace = [] then "_" else String.concat "," (List.rev !trace))

let handle = function
  | ["lookup"; strict; content; disk; reader; script] -> lookup (strict = "1") content disk reader script
  | ["reach"; d; r] ->
      let (deps, n) = depfun d in
      let roots = List.map nat_of_int (ints r) in
      (match find_reachable deps (nat_of_int (4 * n + List.length roots + 8)) roots with Some l -> show l | None -> "fuel")
  | ["gc"; d; r; stored; old] ->
      let (deps, n) = depfun d in
      let roots = List.map nat_of_int (ints r) in
      let st = List.map nat_of_int (ints stored) and oldl = ints old in
      (match find_reachable deps (nat_of_int (4 * n + List.length roots + 8)) roots with
       | Some reach -> show (after_gc st (prunable st reach (fun o -> List.mem (int_of_nat o) oldl)))
       | None -> "fuel")
  | _ -> "EXN bad request"
let () = serve handle
