(* run_C19.ml — line protocol for the pkt-line model *)
let list_of (s : string) : z list list =
  if s = "_" then [] else List.map bytes_of_hex (String.split_on_char ',' s)
let show_list (l : z list list) : string =
  if l = [] then "_" else String.concat "," (List.map hex_of_bytes l)
let show_w = function WOk f -> "ok " ^ hex_of_bytes f | WValueError -> "valueerror"
let show_r = function
  | RFrame p -> "frame:" ^ hex_of_bytes p | RNone -> "none" | RHangup -> "hangup" | RProtoErr -> "err"
let ints_of (s : string) : z list =
  if s = "_" then [] else List.map (fun x -> z_of_int (int_of_string x)) (String.split_on_char ',' s)

let handle = function
  | ["pkt_line"; "NONE"] -> show_w (pkt_line None)
  | ["pkt_line"; p] -> show_w (pkt_line (Some (bytes_of_hex p)))
  | ["pkt_seq"; l] -> show_w (pkt_seq (list_of l))
  | ["parse_len"; s] -> (match parse_len (bytes_of_hex s) with Some n -> "some " ^ string_of_int (int_of_z n) | None -> "none")
  | ["read_pkt_line"; s] -> let (r, rest) = read_pkt_line (bytes_of_hex s) in show_r r ^ " " ^ hex_of_bytes rest
  | ["read_pkt_seq"; s] ->
      let b = bytes_of_hex s in
      let ((ps, e), rest) = read_pkt_seq (seq_fuel b) b in
      show_list ps ^ " " ^ (match e with SEnd -> "end" | SHangup -> "hangup" | SProtoErr -> "err" | SFuel -> "fuel")
      ^ " " ^ hex_of_bytes rest
  | ["rp"; s; sc; maxn] ->
      (* read pkt-lines through ReceivableProtocol until hangup/error or maxn lines *)
      let st = ref { rbuf = []; wire = bytes_of_hex s; sched = ints_of sc } in
      let out = ref [] in
      let n = ref (int_of_string maxn) in
      let stop = ref false in
      while not !stop && !n > 0 do
        let (r, st') = rp_read_pkt_line !st in
        st := st'; out := show_r r :: !out; decr n;
        (match r with RHangup | RProtoErr -> stop := true | _ -> ())
      done;
      String.concat ";" (List.rev !out) ^ " " ^ hex_of_bytes ((!st).rbuf @ (!st).wire)
  | ["pp_feed"; l] ->
      let ((ev, tail), err) = pp_feed [] (list_of l) in
      (if ev = [] then "_" else String.concat "," (List.map (function PFrame p -> "f" ^ hex_of_bytes p | PFlush -> "flush") ev))
      ^ " " ^ hex_of_bytes tail ^ " " ^ (if err then "err" else "ok")
  | ["sideband"; ch; blob] ->
      let b = bytes_of_hex blob in show_list (write_sideband (sb_fuel b) (z_of_int (int_of_string ch)) b)
  | ["demux"; l] ->
      (match sb_demux (list_of l) with
       | None -> "err"
       | Some l -> if l = [] then "_" else String.concat "," (List.map (fun (c, d) -> string_of_int (int_of_z c) ^ ":" ^ hex_of_bytes d) l))
  | ["bw"; bufsize; l] ->
      (match bw_run (z_of_int (int_of_string bufsize)) ([], Z0) (list_of l) with
       | None -> "valueerror"
       | Some ((wbuf, _), outs) -> show_list outs ^ " " ^ hex_of_bytes wbuf)
  | ["refline"; r; sh; caps] ->
      (* caps: "NONE", "_" (empty list) or hex tokens separated by ',' -> the line, hex *)
      let cs = if caps = "NONE" then None else Some (if caps = "_" then [] else List.map bytes_of_hex (String.split_on_char ',' caps)) in
      hex_of_bytes (format_ref_line (bytes_of_hex r) (bytes_of_hex sh) cs)
  | ["extract"; line] ->
      (match extract_capabilities (if line = "_" then [] else bytes_of_hex line) with
       | None -> "valueerror"
       | Some (t, cs) -> (if t = [] then "_" else hex_of_bytes t) ^ " " ^ (if cs = [] then "_" else String.concat "," (List.map (fun c -> if c = [] then "-" else hex_of_bytes c) cs)))
  | ["wantline"; sh; caps] ->
      hex_of_bytes (format_want_line (bytes_of_hex sh) (if caps = "_" then [] else List.map bytes_of_hex (String.split_on_char ',' caps)))
  | ["extractwant"; line] ->
      let (t, cs) = extract_want_line_capabilities (if line = "_" then [] else bytes_of_hex line) in
      (if t = [] then "_" else hex_of_bytes t) ^ " " ^ (if cs = [] then "_" else String.concat "," (List.map (fun c -> if c = [] then "-" else hex_of_bytes c) cs))
  | _ -> "EXN bad request"

let () = serve handle
