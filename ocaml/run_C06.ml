(* run_C06.ml — receive-pack ref update model *)
let pairs s = if s = "_" then [] else List.map (fun kv -> match String.split_on_char '=' kv with
  | [k; v] -> (bytes_of_hex k, bytes_of_hex v) | _ -> failwith "pair") (String.split_on_char ',' s)
(* rsfmt <unpack> <ref:msg,ref:-,...>   -> the packets _report_status writes, then what the client's parser makes of them
   rsparse <packet>                     -> entry <ref> <msg|->  |  skip  |  bad  |  crash *)
let hexb b = let h = hex_of_bytes b in if h = "" then "-" else h
let rs_refs s = if s = "_" then [] else List.map (fun it -> match String.split_on_char ':' it with
  | [r; m] -> (bytes_of_hex r, (if m = "-" then None else Some (bytes_of_hex m))) | _ -> failwith "ref") (String.split_on_char ',' s)
let rs_entries l = if l = [] then "_" else String.concat "," (List.map (fun (r, m) -> hexb r ^ ":" ^ (match m with None -> "-" | Some x -> hexb x)) l)
let handle = function
  | ["rsfmt"; u; refs] ->
      let pk = report (bytes_of_hex u) (rs_refs refs) in
      String.concat "," (List.map hexb pk) ^ " " ^
      (match parse_report pk with None -> "exc" | Some (up, l) -> hexb up ^ "|" ^ rs_entries l)
  | ["rsparse"; p] ->
      (match parse_status (bytes_of_hex p) with
       | PEntry (r, m) -> "entry " ^ hexb r ^ " " ^ (match m with None -> "-" | Some x -> hexb x)
       | PSkip -> "skip" | PBad -> "bad" | PCrash -> "crash")
  | ["push"; atomic; objs; refs; cmds] ->
      let o = if objs = "_" then [] else List.map bytes_of_hex (String.split_on_char ',' objs) in
      let cs = if cmds = "_" then [] else List.map (fun c -> match String.split_on_char ':' c with
        | [a; b; r] -> { c_old = bytes_of_hex a; c_new = bytes_of_hex b; c_ref = bytes_of_hex r } | _ -> failwith "cmd")
        (String.split_on_char ',' cmds) in
      let (m, ss) = apply_pack (atomic = "1") o (pairs refs) cs in
      let st = function SOk -> "ok" | SMissing -> "missing" | SStale -> "stale" | SAtomicFailed -> "atomic" in
      let refs' = List.sort compare (List.map (fun (k, v) -> hex_of_bytes k ^ "=" ^ hex_of_bytes v) m) in
      (if ss = [] then "_" else String.concat "," (List.map st ss)) ^ " " ^ (if refs' = [] then "_" else String.concat "," refs')
  | _ -> "EXN bad request"
let () = serve handle
