(* run_C06.ml — receive-pack ref update model *)
let pairs s = if s = "_" then [] else List.map (fun kv -> match String.split_on_char '=' kv with
  | [k; v] -> (bytes_of_hex k, bytes_of_hex v) | _ -> failwith "pair") (String.split_on_char ',' s)
let handle = function
  | ["push"; atomic; objs; refs; cmds] ->
      let o = if objs = "_" then [] else List.map bytes_of_hex (String.split_on_char ',' objs) in
      let cs = if cmds = "_" then [] else List.map (fun c -> match String.split_on_char ':' c with
        | [a; b; r] -> { c_old = bytes_of_hex a; c_new = bytes_of_hex b; c_ref = bytes_of_hex r } | _ -> failwith "cmd")
        (String.split_on_char ',' cmds) in
      let (m, ss) = apply_pack (atomic = "1") o (pairs refs) cs in
      let st = function SOk -> "ok" | SMissing -> "missing" | SStale -> "stale" | SAtomicFailed -> "atomic" in
      let refs' = List.sort compare (List.map (fun (k, v) -> hex_of_bytes k ^ "=" ^ hex_of_bytes v) m) in
      (if ss = [] then "_" else String.concat "," (List.map st ss)) ^ " " ^ (if refs' = [] then "_" else String.concat "," refs')
  | _ -> "EXN bad request"
let () = serve handle
