(* run_C11.ml — index file model *)
let parse_entry (s : string) : ientry =
  match String.split_on_char ':' s with
  | [name; cs; cns; ms; mns; dev; ino; mode; uid; gid; size; sha; flags; xflags] ->
    { e_name = bytes_of_hex name; e_cs = z_of_hexint cs; e_cns = z_of_hexint cns; e_ms = z_of_hexint ms;
      e_mns = z_of_hexint mns; e_dev = z_of_hexint dev; e_ino = z_of_hexint ino; e_mode = z_of_hexint mode;
      e_uid = z_of_hexint uid; e_gid = z_of_hexint gid; e_size = z_of_hexint size; e_sha = bytes_of_hex sha;
      e_flags = z_of_hexint flags; e_xflags = z_of_hexint xflags }
  | _ -> failwith "entry"
let show_entry (e : ientry) : string =
  String.concat ":" [hex_of_bytes e.e_name; hexint_of_z e.e_cs; hexint_of_z e.e_cns; hexint_of_z e.e_ms; hexint_of_z e.e_mns;
                     hexint_of_z e.e_dev; hexint_of_z e.e_ino; hexint_of_z e.e_mode; hexint_of_z e.e_uid; hexint_of_z e.e_gid;
                     hexint_of_z e.e_size; hex_of_bytes e.e_sha; hexint_of_z e.e_flags; hexint_of_z e.e_xflags]
let entries (s : string) = if s = "_" then [] else List.map parse_entry (String.split_on_char ',' s)
let handle = function
  | ["gv_enc"; n] -> hex_of_bytes (gv_enc (z_of_hexint n))
  | ["gv_dec"; s] -> (match gv_dec (bytes_of_hex s) with Some (v, r) -> hexint_of_z v ^ " " ^ hex_of_bytes r | None -> "none")
  | ["compress"; p; prev] -> hex_of_bytes (compress_path (bytes_of_hex p) (bytes_of_hex prev))
  | ["decompress"; s; prev] ->
      (match decompress_path (bytes_of_hex s) (bytes_of_hex prev) with Some (p, r) -> hex_of_bytes p ^ " " ^ hex_of_bytes r | None -> "none")
  | ["entry"; v; prev; e] ->
      (* write, then read back what was written followed by two sentinel bytes *)
      let v = z_of_hexint v and prev = bytes_of_hex prev in
      (match write_entry v prev (parse_entry e) with
       | None -> "assert"
       | Some b -> hex_of_bytes b ^ " " ^
           (match read_entry v prev (b @ [byte_tab.(170); byte_tab.(187)]) with
            | Some (e', r) -> show_entry e' ^ " " ^ hex_of_bytes r
            | None -> "none"))
  | ["read_entry"; v; prev; s] ->
      (match read_entry (z_of_hexint v) (bytes_of_hex prev) (bytes_of_hex s) with
       | Some (e', r) -> show_entry e' ^ " " ^ hex_of_bytes r | None -> "none")
  | ["index"; v; es] ->
      (match write_index (z_of_hexint v) (entries es) with
       | None -> "assert"
       | Some b -> hex_of_bytes b ^ " " ^ (if sorted_entries (entries es) then "sorted" else "unsorted"))
  | ["read_index"; s] ->
      (match read_index (bytes_of_hex s) with
       | Some ((v, es), r) -> hexint_of_z v ^ " " ^ (if es = [] then "_" else String.concat "," (List.map show_entry es)) ^ " " ^ hex_of_bytes r
       | None -> "none")
  | _ -> "EXN bad request"
let () = serve handle
