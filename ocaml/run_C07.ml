(* run_C07.ml — lock-file protocol model.
   run <t0|-> <actors> <schedule>
     actors:   w<d> (writer of data d, commits), a<d> (writer whose caller aborts), r (reader), comma separated
     schedule: <actor>[x] dot separated; x = the call raises
   answer: <trace of actor:call> | <outcomes> | <target> | <lock holder or -> *)
let rec nat_of_int n = if n = 0 then O else S (nat_of_int (n - 1))
let rec int_of_nat = function O -> 0 | S n -> 1 + int_of_nat n
let zs = function None -> "-" | Some z -> string_of_int (int_of_z z)
let handle = function
  | ["run"; t0; actors; sched] ->
      let t0 = if t0 = "-" then None else Some (z_of_int (int_of_string t0)) in
      let mk a = match a.[0] with
        | 'w' -> writer (z_of_int (int_of_string (String.sub a 1 (String.length a - 1)))) false
        | 'a' -> writer (z_of_int (int_of_string (String.sub a 1 (String.length a - 1)))) true
        | 'r' -> reader
        | _ -> failwith "actor" in
      let l = List.map mk (String.split_on_char ',' actors) in
      let steps = if sched = "_" then [] else List.map (fun x ->
        let f = x.[String.length x - 1] = 'x' in
        let n = int_of_string (if f then String.sub x 0 (String.length x - 1) else x) in (n, f)) (String.split_on_char '.' sched) in
      let s = ref (init t0 l) in
      let tr = Buffer.create 64 in
      List.iter (fun (n, f) ->
        let c = int_of_nat (next_call ((!s).acts (nat_of_int n)).a_pc) in
        Buffer.add_string tr (Printf.sprintf "%d:%d%s," n c (if f then "x" else ""));
        s := run !s [(nat_of_int n, f)]) steps;
      let n = List.length l in
      let oc i = let a = (!s).acts (nat_of_int i) in
        match a.a_pc with
        | PDone Committed -> "C" | PDone Aborted -> "A" | PDone Locked -> "L" | PDone Failed -> "F"
        | PDone Seen -> "S" ^ String.concat "" (List.map zs a.a_seen)
        | p -> "@" ^ string_of_int (int_of_nat (next_call p)) in
      let holders = List.filter (fun i -> critical ((!s).acts (nat_of_int i)).a_pc) (List.init n (fun i -> i)) in
      Printf.sprintf "%s | %s | %s | %s | %s" (Buffer.contents tr) (String.concat "," (List.init n oc)) (zs (!s).target)
        (match (!s).lockf with Some (o, _) -> string_of_int (int_of_nat o) | None -> "-")
        (String.concat "," (List.map string_of_int holders))
  | _ -> "EXN bad request"
let () = serve handle
