(* run_C20.ml — line protocol for the config model *)
let opt = function Some b -> "some " ^ hex_of_bytes b | None -> "none"
let handle = function
  | ["format"; v] -> hex_of_bytes (format_string (bytes_of_hex v))
  | ["parse"; s] -> opt (parse_string (bytes_of_hex s))
  | ["gitparse"; s] -> opt (git_parse_value (bytes_of_hex s))
  | ["escsub"; s] -> opt (escape_subsection (bytes_of_hex s))
  | ["unescsub"; s] -> hex_of_bytes (unescape_subsection (bytes_of_hex s))
  | ["roundtrip"; v] ->
      let b = bytes_of_hex v in
      opt (parse_string (value_part b)) ^ " " ^ opt (git_parse_value (value_part b))
  | ["md"; ops; probes] ->
      (* ops: a:k:v;s:k:v;d:k   probes: k,k,...  -> after all ops: items | keyerrors | per probe get/get_all | len *)
      let st = ref md_init and errs = ref [] in
      List.iter (fun o ->
        if o <> "_" then begin
          let op = match String.split_on_char ':' o with
            | ["a"; k; v] -> MAdd (bytes_of_hex k, bytes_of_hex v)
            | ["s"; k; v] -> MSet (bytes_of_hex k, bytes_of_hex v)
            | ["d"; k] -> MDel (bytes_of_hex k)
            | _ -> failwith "op" in
          let (s', e) = md_step !st op in st := s'; errs := (if e then "1" else "0") :: !errs end)
        (String.split_on_char ';' ops);
      let items = String.concat "," (List.map (fun (k, v) -> hex_of_bytes k ^ "=" ^ hex_of_bytes v) (!st).md_real) in
      let pr = String.concat "," (List.map (fun k ->
                 let k = bytes_of_hex k in
                 (match md_getitem !st k with Some v -> hex_of_bytes v | None -> "none") ^ "/" ^
                 String.concat "+" (List.map hex_of_bytes (md_get_all !st k))) (String.split_on_char ',' probes)) in
      items ^ " " ^ String.concat "" (List.rev !errs) ^ " " ^ pr ^ " " ^ string_of_int (int_of_z (md_len !st))
  | _ -> "EXN bad request"
let () = serve handle
