(* run_C20.ml — line protocol for the config model *)
let opt = function Some b -> "some " ^ hex_of_bytes b | None -> "none"
let handle = function
  | ["format"; v] -> hex_of_bytes (format_string (bytes_of_hex v))
  | ["parse"; s] -> opt (parse_string (bytes_of_hex s))
  | ["gitparse"; s] -> opt (git_parse_value (bytes_of_hex s))
  | ["escsub"; s] -> opt (escape_subsection (bytes_of_hex s))
  | ["unescsub"; s] -> hex_of_bytes (unescape_subsection (bytes_of_hex s))
  | ["roundtrip"; v] ->
      let b = bytes_of_hex v in
      opt (parse_string (value_part b)) ^ " " ^ opt (git_parse_value (value_part b))
  | _ -> "EXN bad request"
let () = serve handle
