(* run_C18.ml — check <fm> <imode> <iid> <isig> <wmode|-> <wid> <wsig> <isdir>  ->  1 (reported unstaged) / 0 *)
let handle = function
  | ["check"; fm; im; ii; isg; wm; wi; ws; wd] ->
      let z s = z_of_int (int_of_string s) in
      let i = { i_entry = { e_mode = z im; e_id = z ii }; i_sig = z isg } in
      let w = if wm = "-" then None else Some { w_entry = { e_mode = z wm; e_id = z wi }; w_sig = z ws; w_isdir = (wd = "1") } in
      if check_entry (fm = "1") i w then "1" else "0"
  | _ -> "EXN bad request"
let () = serve handle
