(* run_C18.ml —
   check <fm> <imode> <iid> <isig> <wmode|-> <wid> <wsig> <isdir>  ->  1 (reported unstaged) / 0
   status <fm> <head> <index> <worktree> <paths>  ->  p:admuU ... (five 0/1 flags per path)
   step <fm> <head> <index> <worktree> <paths> <op>  ->  index after the operation at the paths: p:mode:id:same | p:-
   listings: head p:mode:id,...  index p:mode:id:sig,...  worktree p:mode:id:sig:isdir,...   ("-" = empty)
   op: stage:p | stageall:p.p.p | rmcached:p | unstage:p:sig | write:p:mode:id:sig | mkdir:p | delete:p *)
let z s = z_of_int (int_of_string s)
let rec nat_of_int n = if n <= 0 then O else S (nat_of_int (n - 1))
let rec int_of_nat = function O -> 0 | S n -> 1 + int_of_nat n
let items s = if s = "-" then [] else String.split_on_char ',' s
let fields s = String.split_on_char ':' s
let head s = List.map (fun it -> match fields it with
  | [p; m; i] -> (nat_of_int (int_of_string p), { e_mode = z m; e_id = z i }) | _ -> failwith "head") (items s)
let index s = List.map (fun it -> match fields it with
  | [p; m; i; g] -> (nat_of_int (int_of_string p), { i_entry = { e_mode = z m; e_id = z i }; i_sig = z g }) | _ -> failwith "index") (items s)
let worktree s = List.map (fun it -> match fields it with
  | [p; m; i; g; d] -> (nat_of_int (int_of_string p), { w_entry = { e_mode = z m; e_id = z i }; w_sig = z g; w_isdir = (d = "1") }) | _ -> failwith "wt") (items s)
let paths s = if s = "-" then [] else List.map (fun p -> nat_of_int (int_of_string p)) (String.split_on_char '.' s)
let b x = if x then "1" else "0"
let parse_op s = match fields s with
  | ["stage"; p] -> OStage (nat_of_int (int_of_string p))
  | ["stageall"; ps] -> OStageAll (paths ps)
  | ["rmcached"; p] -> ORmCached (nat_of_int (int_of_string p))
  | ["unstage"; p; g] -> OUnstage (nat_of_int (int_of_string p), z g)
  | ["write"; p; m; i; g] -> OWrite (nat_of_int (int_of_string p), { e_mode = z m; e_id = z i }, z g)
  | ["mkdir"; p] -> OMkdir (nat_of_int (int_of_string p))
  | ["delete"; p] -> ODelete (nat_of_int (int_of_string p))
  | _ -> failwith "op"
let handle = function
  | ["check"; fm; im; ii; isg; wm; wi; ws; wd] ->
      let i = { i_entry = { e_mode = z im; e_id = z ii }; i_sig = z isg } in
      let w = if wm = "-" then None else Some { w_entry = { e_mode = z wm; e_id = z wi }; w_sig = z ws; w_isdir = (wd = "1") } in
      if check_entry (fm = "1") i w then "1" else "0"
  | ["status"; fm; h; i; w; ps] ->
      let s = mk_state (head h) (index i) (worktree w) in
      String.concat " " (List.map (fun (p, ((((a, d), m), u), t)) ->
        Printf.sprintf "%d:%s%s%s%s%s" (int_of_nat p) (b a) (b d) (b m) (b u) (b t)) (status_at (fm = "1") s (paths ps)))
  | ["step"; fm; h; i; w; ps; op] ->
      let s = step (fm = "1") (mk_state (head h) (index i) (worktree w)) (parse_op op) in
      String.concat " " (List.map (fun (p, e) -> match e with
        | None -> Printf.sprintf "%d:-" (int_of_nat p)
        | Some (en, same) -> Printf.sprintf "%d:%s:%s:%s" (int_of_nat p) (string_of_int (int_of_z en.e_mode)) (string_of_int (int_of_z en.e_id)) (b same)) (index_at s (paths ps)))
  | _ -> "EXN bad request"
let () = serve handle
