(* run_C04.ml — resolve <entries>   entries: f (full) or d<base> comma separated  -> ok:<n resolved> | unresolved | fuel *)
let rec nat_of_int n = if n = 0 then O else S (nat_of_int (n - 1))
let handle = function
  | ["resolve"; es] ->
      let l = List.map (fun x -> if x = "f" then EFull else EDelta (nat_of_int (int_of_string (String.sub x 1 (String.length x - 1))))) (String.split_on_char ',' es) in
      (match resolve l with
       | None -> "fuel"
       | Some None -> "unresolved"
       | Some (Some r) -> "ok:" ^ string_of_int (List.length r))
  | _ -> "EXN bad request"
let () = serve handle
