(* run_C04.ml — resolve <entries>   entries: f (full) or d<base> comma separated  -> ok:<n resolved> | unresolved | fuel ;  read <entries> <i> -> ok | error | fuel *)
let rec nat_of_int n = if n = 0 then O else S (nat_of_int (n - 1))
let entries es = List.map (fun x -> if x = "f" then EFull else EDelta (nat_of_int (int_of_string (String.sub x 1 (String.length x - 1))))) (String.split_on_char ',' es)
(* thin <entries name:f | name:dBASE, joined by ','> <names the store has, '.'-joined>
   -> resolved|unresolved <names of the completed pack: the entries, then what is appended> *)
let rec int_of_nat = function O -> 0 | S k -> 1 + int_of_nat k
let thin es store =
  let ents = List.map (fun it -> match String.split_on_char ':' it with
    | [n; "f"] -> (nat_of_int (int_of_string n), KFull)
    | [n; k] -> (nat_of_int (int_of_string n), KDelta (nat_of_int (int_of_string (String.sub k 1 (String.length k - 1)))))
    | _ -> failwith "entry") (String.split_on_char ',' es) in
  let have = if store = "_" then [] else List.map int_of_string (String.split_on_char '.' store) in
  let st = fun n -> List.mem (int_of_nat n) have in
  (* the pending bases, in the order of their ids *)
  let bases = List.sort_uniq compare (List.concat_map (fun (_, k) -> match k with KDelta b -> [int_of_nat b] | KFull -> []) ents) in
  let s = complete true st (List.map nat_of_int bases) ents in
  let all_done = List.for_all (fun (n, _) -> List.mem (int_of_nat n) (List.map int_of_nat s.prod0)) ents in
  (if all_done then "resolved " else "unresolved ") ^
  String.concat "." (List.map (fun n -> string_of_int (int_of_nat n)) (completed_names ents s))

let handle = function
  | ["thin"; es; store] -> thin es store
  | ["resolve"; es] ->
      (match resolve (entries es) with
       | None -> "fuel"
       | Some None -> "unresolved"
       | Some (Some r) -> "ok:" ^ string_of_int (List.length r))
  | ["read"; es; i] ->
      (match read_entry (entries es) (nat_of_int (int_of_string i)) with
       | None -> "fuel"
       | Some None -> "error"
       | Some (Some _) -> "ok")
  | _ -> "EXN bad request"
let () = serve handle
