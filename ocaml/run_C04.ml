(* run_C04.ml — resolve <entries>   entries: f (full) or d<base> comma separated  -> ok:<n resolved> | unresolved | fuel ;  read <entries> <i> -> ok | error | fuel *)
let rec nat_of_int n = if n = 0 then O else S (nat_of_int (n - 1))
let entries es = List.map (fun x -> if x = "f" then EFull else EDelta (nat_of_int (int_of_string (String.sub x 1 (String.length x - 1))))) (String.split_on_char ',' es)
let handle = function
  | ["resolve"; es] ->
      (match resolve (entries es) with
       | None -> "fuel"
       | Some None -> "unresolved"
       | Some (Some r) -> "ok:" ^ string_of_int (List.length r))
  | ["read"; es; i] ->
      (match read_entry (entries es) (nat_of_int (int_of_string i)) with
       | None -> "fuel"
       | Some None -> "error"
       | Some (Some _) -> "ok")
  | _ -> "EXN bad request"
let () = serve handle
