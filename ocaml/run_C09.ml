(* run_C09.ml — crash model: the visible states along an operation's steps.
   states <conts> <loose> <packed> <op...>
     conts: c:o.o;c:o   refs: r=o,r=o   ("_" = none)
     op: update <conts> <r> <v> | delete <r> | packrefs <r=v,...> | repack <c> <o.o.o> <d.d>
   answer: the visible state after every prefix, consecutive duplicates removed, joined by " > ";
     a state is  <sorted visible objects> / <ref=value of every ref of the universe> *)
let rec nat_of_int n = if n = 0 then O else S (nat_of_int (n - 1))
let rec int_of_nat = function O -> 0 | S n -> 1 + int_of_nat n
let n s = nat_of_int (int_of_string s)
let split c s = if s = "_" || s = "" then [] else String.split_on_char c s
let conts s = List.map (fun x -> match String.split_on_char ':' x with
  | [c; os] -> (n c, List.map n (split '.' os)) | _ -> failwith "cont") (split ';' s)
let refs s = List.map (fun x -> match String.split_on_char '=' x with [r; v] -> (n r, n v) | _ -> failwith "ref") (split ',' s)
let rec firstn k l = if k = 0 then [] else match l with [] -> [] | x :: r -> x :: firstn (k - 1) r
let show universe_refs universe_objs s =
  let os = List.filter (fun o -> has s (nat_of_int o)) universe_objs in
  let rs = List.map (fun r -> Printf.sprintf "%d=%s" r (match resolve s (nat_of_int r) with Some v -> string_of_int (int_of_nat v) | None -> "-")) universe_refs in
  String.concat "." (List.map string_of_int os) ^ "/" ^ String.concat "," rs
let handle = function
  | "states" :: c :: l :: p :: uo :: ur :: op ->
      let s0 = { conts = conts c; loose = refs l; packed = refs p } in
      let prog = match op with
        | ["update"; cs; r; v] -> p_update (conts cs) (n r) (n v)
        | ["delete"; r] -> p_delete (n r)
        | ["packrefs"; rs] -> p_pack_refs (refs rs)
        | ["repack"; c; keep; old] -> p_repack (n c) (List.map n (split '.' keep)) (List.map n (split '.' old))
        | _ -> failwith "op" in
      let uo = List.map int_of_string (split '.' uo) and ur = List.map int_of_string (split '.' ur) in
      let states = List.init (List.length prog + 1) (fun k -> show ur uo (run s0 (firstn k prog))) in
      let rec dedup = function a :: (b :: _ as r) -> if a = b then dedup r else a :: dedup r | l -> l in
      String.concat " > " (dedup states)
  | _ -> "EXN bad request"
let () = serve handle
