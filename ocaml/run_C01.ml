(* run_C01.ml — objects model *)
let rec nat_of_int n = if n <= 0 then O else S (nat_of_int (n - 1))
let rec int_of_nat = function O -> 0 | S k -> 1 + int_of_nat k
let headers s = if s = "_" then [] else
  List.map (fun kv -> match String.split_on_char '=' kv with [k; v] -> (bytes_of_hex k, bytes_of_hex v) | _ -> failwith "hdr")
    (String.split_on_char ',' s)
let entries s = if s = "_" then [] else
  List.map (fun e -> match String.split_on_char ':' e with
    | [n; m; h] -> ((bytes_of_hex n, z_of_hexint m), bytes_of_hex h) | _ -> failwith "entry") (String.split_on_char ',' s)
let handle = function
  | ["cache"; ops] ->
      let op = function 's' -> CSet | 'r' -> CAsRaw | 'i' -> CId | 'o' -> CIdOther | 'w' -> CSetRaw | 'c' -> CBlobChunked | _ -> failwith "op" in
      let l = List.init (String.length ops) (fun i -> op ops.[i]) in
      String.concat "," (List.map (fun (a, b) -> string_of_int (int_of_nat a) ^ ":" ^ string_of_int (int_of_nat b)) (crun cache_init l))
  | ["fmt"; hs; body] ->
      hex_of_bytes (format_message (headers hs) (if body = "NONE" then None else Some (bytes_of_hex body)))
  | ["parse"; text] ->
      String.concat "," (List.map (function
        | PHeader (k, v) -> "h" ^ hex_of_bytes k ^ "=" ^ hex_of_bytes v
        | PBody None -> "bNONE" | PBody (Some b) -> "b" ^ hex_of_bytes b | PError -> "error") (parse_message (bytes_of_hex text)))
  | ["tree"; es] -> let e = entries es in hex_of_bytes (serialize_tree e) ^ " " ^ (if tree_sorted e then "sorted" else "unsorted")
  | ["dec"; n] -> hex_of_bytes (dec (z_of_hexint n))
  | ["tzfmt"; off; neg] ->
      (* offset ([-]hex) and the "-0000" flag -> the text, hex; "valueerror" for offsets that are no whole minutes *)
      (match format_timezone (z_of_hexint off) (neg = "1") with Some t -> hex_of_bytes t | None -> "valueerror")
  | ["tzparse"; t] ->
      (match parse_timezone (if t = "_" then [] else bytes_of_hex t) with
       | Some (o, n) -> hexint_of_z o ^ " " ^ (if n then "1" else "0") | None -> "valueerror")
  | ["tefmt"; person; time; off; neg] ->
      (match format_time_entry (bytes_of_hex person) (z_of_hexint time) (z_of_hexint off) (neg = "1") with
       | Some v -> hex_of_bytes v | None -> "valueerror")
  | ["teparse"; v] ->
      (match parse_time_entry (if v = "_" then [] else bytes_of_hex v) with
       | TNoDate x -> "nodate " ^ (if x = [] then "_" else hex_of_bytes x)
       | TOk (p, t, o, n) -> Printf.sprintf "ok %s %s %s %s" (hex_of_bytes p) (hexint_of_z t) (hexint_of_z o) (if n then "1" else "0")
       | TError -> "error")
  | _ -> "EXN bad request"
let () = serve handle
