(* run_C02.ml — pack headers and index lookup *)
let names s = if s = "_" then [] else List.map bytes_of_hex (String.split_on_char ',' s)
let handle = function
  | ["objhdr"; t; size] -> hex_of_bytes (obj_header (z_of_hexint t) (z_of_hexint size))
  | ["dechdr"; s] -> (match dec_obj_header (bytes_of_hex s) with
      | Some ((t, n), r) -> hexint_of_z t ^ " " ^ hexint_of_z n ^ " " ^ hex_of_bytes r | None -> "none")
  | ["ofs"; n] -> hex_of_bytes (gv_enc (z_of_hexint n))
  | ["decofs"; s] -> (match dec_ofs (bytes_of_hex s) with
      | Some (Some v, r) -> hexint_of_z v ^ " " ^ hex_of_bytes r | Some (None, _) -> "zero" | None -> "none")
  | ["lookup"; ns; probes] ->
      let n = names ns in
      String.concat "," (List.map (fun p -> match idx_lookup n p with Some i -> string_of_int (int_of_z i) | None -> "none") (names probes))
  | _ -> "EXN bad request"
let () = serve handle
