(* run_C03.ml — line protocol for the delta model *)
let show_dres = function
  | DOk out -> "ok " ^ hex_of_bytes out
  | DErr -> "err"
  | DPanic -> "panic"

let parse_tag = function
  | "equal" -> TEqual | "replace" -> TReplace | "insert" -> TInsert | "delete" -> TDelete
  | _ -> failwith "tag"

let parse_ops (s : string) : opc list =
  if s = "-" then [] else
  List.map (fun item ->
    match String.split_on_char ':' item with
    | [t; a; b; c; d] -> { tg = parse_tag t; i1 = z_of_hexint a; i2 = z_of_hexint b;
                           j1 = z_of_hexint c; j2 = z_of_hexint d }
    | _ -> failwith "op") (String.split_on_char ',' s)

let handle = function
  | ["apply_py"; src; d] -> show_dres (apply_py (bytes_of_hex src) (bytes_of_hex d))
  | ["apply_rs"; src; d] -> show_dres (apply_rs (bytes_of_hex src) (bytes_of_hex d))
  | ["enc_size"; n] -> hex_of_bytes (enc_size (z_of_hexint n))
  | ["enc_copy"; a; b] -> hex_of_bytes (enc_copy (z_of_hexint a) (z_of_hexint b))
  | ["create"; base; target; ops] ->
      let b = bytes_of_hex base and t = bytes_of_hex target and o = parse_ops ops in
      (if valid_opcodesb b t o then "valid " else "invalid ") ^ hex_of_bytes (create_py b t o)
  | ["mat_py"; srclen; d] -> hexint_of_z (mat_py_top (z_of_hexint srclen) (bytes_of_hex d))
  | ["alloc_rs"; srclen; d] -> hexint_of_z (alloc_rs_top (z_of_hexint srclen) (bytes_of_hex d))
  | _ -> "EXN bad request"

let () = serve handle
