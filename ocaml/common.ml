(* common.ml — glue between the line protocol and the extracted datatypes.
   Prepended (after `open Model`) to every run_Cxx.ml.  Z/positive stay the
   extracted inductives; conversions go through hex strings so that values
   beyond OCaml's int range are exact. *)

let rec pos_of_int (n : int) : positive =
  if n = 1 then XH
  else if n land 1 = 0 then XO (pos_of_int (n lsr 1))
  else XI (pos_of_int (n lsr 1))

let z_of_int (n : int) : z =
  if n = 0 then Z0 else if n > 0 then Zpos (pos_of_int n) else Zneg (pos_of_int (- n))

let rec int_of_pos = function
  | XH -> 1
  | XO p -> 2 * int_of_pos p
  | XI p -> 2 * int_of_pos p + 1

let int_of_z = function Z0 -> 0 | Zpos p -> int_of_pos p | Zneg p -> - (int_of_pos p)

let byte_tab : z array = Array.init 256 z_of_int

let hexval c =
  match c with
  | '0'..'9' -> Char.code c - 48
  | 'a'..'f' -> Char.code c - 87
  | 'A'..'F' -> Char.code c - 55
  | _ -> failwith "bad hex"

(* bytes <-> hex; the empty string is written "-" *)
let named : (string, z list) Hashtbl.t = Hashtbl.create 16

let rec bytes_of_hex (s : string) : z list =
  if s = "-" then []
  else if s.[0] = '@' then Hashtbl.find named (String.sub s 1 (String.length s - 1))
  else if s.[0] = 'r' then begin
    (* run-length form r<hh>x<count>[+<more>] *)
    match String.index_opt s '+' with
    | Some i -> bytes_of_hex (String.sub s 0 i) @ bytes_of_hex (String.sub s (i+1) (String.length s - i - 1))
    | None ->
      let b = byte_tab.(hexval s.[1] * 16 + hexval s.[2]) in
      let n = int_of_string (String.sub s 4 (String.length s - 4)) in
      List.init n (fun _ -> b)
  end
  else begin
    let n = String.length s / 2 in
    let rec go i acc =
      if i < 0 then acc
      else go (i - 1) (byte_tab.(hexval s.[2*i] * 16 + hexval s.[2*i+1]) :: acc) in
    go (n - 1) []
  end

let hex_of_bytes (l : z list) : string =
  if l = [] then "-" else begin
    let b = Buffer.create 64 in
    List.iter (fun x -> Buffer.add_string b (Printf.sprintf "%02x" ((int_of_z x) land 255))) l;
    Buffer.contents b
  end

(* arbitrary-precision integers as [-]hex *)
let z_of_hexint (s : string) : z =
  let neg = String.length s > 0 && s.[0] = '-' in
  let s = if neg then String.sub s 1 (String.length s - 1) else s in
  (* bits, most significant first *)
  let bits = ref [] in
  String.iter (fun c -> let v = hexval c in
    bits := (v land 1 = 1) :: (v land 2 = 2) :: (v land 4 = 4) :: (v land 8 = 8) :: !bits) s;
  (* !bits is least significant first *)
  let rec strip = function [] -> [] | l -> l in
  let lsb = strip !bits in
  (* build positive from lsb-first list, dropping high zeros *)
  let rec trim_high l = match List.rev l with
    | false :: r -> trim_high (List.rev r)
    | _ -> l in
  let lsb = trim_high lsb in
  let rec build = function
    | [] -> None
    | [true] -> Some XH
    | b :: r -> (match build r with
                 | None -> if b then Some XH else None
                 | Some p -> Some (if b then XI p else XO p)) in
  match build lsb with
  | None -> Z0
  | Some p -> if neg then Zneg p else Zpos p

let hexint_of_z (x : z) : string =
  let rec bits p = match p with XH -> [true] | XO q -> false :: bits q | XI q -> true :: bits q in
  let tohex (l : bool list) =
    (* l is lsb first *)
    let rec chunks l acc = match l with
      | [] -> acc
      | _ ->
        let take n l = let rec go n l a = if n = 0 then (List.rev a, l) else
                         match l with [] -> go (n-1) [] (false :: a) | x :: r -> go (n-1) r (x :: a) in go n l [] in
        let (c, rest) = take 4 l in
        let v = List.fold_right (fun b a -> a * 2 + (if b then 1 else 0)) c 0 in
        chunks rest (Printf.sprintf "%x" v :: acc) in
    String.concat "" (chunks l []) in
  match x with
  | Z0 -> "0"
  | Zpos p -> tohex (bits p)
  | Zneg p -> "-" ^ tohex (bits p)

let split_ws (s : string) : string list =
  List.filter (fun x -> x <> "") (String.split_on_char ' ' s)

(* main loop: one request per line, one answer per line *)
let serve (handle : string list -> string) : unit =
  (try
    while true do
      let line = input_line stdin in
      let ans = (try (match split_ws line with
                       | ["define"; name; h] -> Hashtbl.replace named name (bytes_of_hex h); "defined"
                       | req -> handle req) with
                 | Stack_overflow -> "EXN stack_overflow"
                 | e -> "EXN " ^ Printexc.to_string e) in
      print_string ans; print_char '\n'
    done
  with End_of_file -> ());
  flush stdout
