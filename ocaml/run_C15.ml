(* run_C15.ml — twins *)
let show = function
  | None -> "fail"
  | Some es -> if es = [] then "_" else
      String.concat "," (List.map (fun ((n, m), s) -> hex_of_bytes n ^ ":" ^ hexint_of_z m ^ ":" ^ hex_of_bytes s) es)
let rec nat_of_int n = if n <= 0 then O else S (nat_of_int (n - 1))
let ord = function OLt -> "lt" | OEq -> "eq" | OGt -> "gt"
let handle = function
  | ["parse"; shalen; strict; text] ->
      let t = bytes_of_hex text in
      let fuel = nat_of_int (List.length t + 1) in
      show (py_parse_tree fuel (z_of_int (int_of_string shalen)) (strict = "1") t) ^ " " ^
      show (rs_parse_tree fuel (z_of_int (int_of_string shalen)) (strict = "1") t)
  | ["cmp"; n1; m1; n2; m2] ->
      let a = (bytes_of_hex n1, z_of_hexint m1) and b = (bytes_of_hex n2, z_of_hexint m2) in
      ord (py_tree_cmp a b) ^ " " ^ ord (rs_tree_cmp a b)
  | ["blocks"; d] -> let bs = count_blocks (bytes_of_hex d) in
      if bs = [] then "_" else String.concat "," (List.map hex_of_bytes bs)
  | _ -> "EXN bad request"
let () = serve handle
