(* run_C13.ml — merge-base model.  DAG: parents of node i separated by '.', nodes by ',' ("-" none) *)
let rec nat_of_int n = if n <= 0 then O else S (nat_of_int (n - 1))
let rec int_of_nat = function O -> 0 | S k -> 1 + int_of_nat k
let ints s = if s = "-" || s = "" then [] else List.map int_of_string (String.split_on_char '.' s)
let parse_dag s = Array.of_list (List.map ints (String.split_on_char ',' s))
let handle = function
  | ["lcas"; dag; stamps; c1; c2s] ->
      let d = parse_dag dag in
      let n = Array.length d in
      let st = Array.of_list (List.map int_of_string (String.split_on_char ',' stamps)) in
      let parents v = let i = int_of_nat v in if i < n then List.map nat_of_int d.(i) else [] in
      let stamp v = let i = int_of_nat v in nat_of_int (if i < n then st.(i) else 0) in
      let c2 = List.map nat_of_int (ints c2s) in
      (match find_lcas parents (pick_max stamp) (nat_of_int n) (lca_fuel (nat_of_int n) c2) (nat_of_int (int_of_string c1)) c2 with
       | None -> "fuel"
       | Some l -> let l = List.sort compare (List.map int_of_nat l) in
                   if l = [] then "-" else String.concat "." (List.map string_of_int l))
  | ["ff"; dag; c1; c2] ->
      let d = parse_dag dag in
      let n = Array.length d in
      let parents v = let i = int_of_nat v in if i < n then List.map nat_of_int d.(i) else [] in
      (match can_fast_forward parents (fun _ -> O) (nat_of_int n) (lca_fuel (nat_of_int n) [O]) (nat_of_int (int_of_string c1)) (nat_of_int (int_of_string c2)) with
       | None -> "fuel" | Some b -> if b then "1" else "0")
  | ["walk"; dag; stamps; inc] ->
      (* date-ordered walk without excludes; ties are broken towards the smaller commit number *)
      let d = parse_dag dag in
      let n = Array.length d in
      let st = Array.of_list (List.map int_of_string (String.split_on_char ',' stamps)) in
      let parents v = let i = int_of_nat v in if i < n then List.map nat_of_int d.(i) else [] in
      let pick l =
        let l = List.map int_of_nat l in
        let best = ref 0 in
        List.iteri (fun i v -> let b = List.nth l !best in
          if st.(v) > st.(b) || (st.(v) = st.(b) && v < b) then best := i) l;
        nat_of_int !best in
      (match walk parents pick (nat_of_int (n + 2)) (List.map nat_of_int (ints inc)) with
       | None -> "fuel"
       | Some l -> if l = [] then "-" else String.concat "." (List.map (fun v -> string_of_int (int_of_nat v)) l))
  | ["topo"; dag; entries] ->
      let d = parse_dag dag in
      let n = Array.length d in
      let parents v = let i = int_of_nat v in if i < n then List.map nat_of_int d.(i) else [] in
      (match topo parents (nat_of_int (4 * n + 8)) (List.map nat_of_int (ints entries)) with
       | None -> "fuel"
       | Some l -> if l = [] then "-" else String.concat "." (List.map (fun v -> string_of_int (int_of_nat v)) l))
  | _ -> "EXN bad request"
let () = serve handle
