(* run_C14.ml — merge bases over a parent function read from a commit-graph file.  DAG: parents of node i separated by '.', nodes by ',' ("-" none) *)
let rec nat_of_int n = if n <= 0 then O else S (nat_of_int (n - 1))
let rec int_of_nat = function O -> 0 | S k -> 1 + int_of_nat k
let ints s = if s = "-" || s = "" then [] else List.map int_of_string (String.split_on_char '.' s)
let parse_dag s = Array.of_list (List.map ints (String.split_on_char ',' s))
let handle = function
  | ["lcas"; dag; stamps; c1; c2s] ->
      let d = parse_dag dag in
      let n = Array.length d in
      let st = Array.of_list (List.map int_of_string (String.split_on_char ',' stamps)) in
      let parents v = let i = int_of_nat v in if i < n then List.map nat_of_int d.(i) else [] in
      let stamp v = let i = int_of_nat v in nat_of_int (if i < n then st.(i) else 0) in
      let c2 = List.map nat_of_int (ints c2s) in
      (match find_lcas parents (pick_max stamp) (nat_of_int n) (lca_fuel (nat_of_int n) c2) (nat_of_int (int_of_string c1)) c2 with
       | None -> "fuel"
       | Some l -> let l = List.sort compare (List.map int_of_nat l) in
                   if l = [] then "-" else String.concat "." (List.map string_of_int l))
  | _ -> "EXN bad request"
let () = serve handle
