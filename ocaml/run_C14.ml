(* run_C14.ml — merge bases over a parent function read from a commit-graph file.  DAG: parents of node i separated by '.', nodes by ',' ("-" none) *)
let rec nat_of_int n = if n <= 0 then O else S (nat_of_int (n - 1))
let rec int_of_nat = function O -> 0 | S k -> 1 + int_of_nat k
let ints s = if s = "-" || s = "" then [] else List.map int_of_string (String.split_on_char '.' s)
let parse_dag s = Array.of_list (List.map ints (String.split_on_char ',' s))
(* peel <peel table v=p,v=p> <number of refs> <ops joined by ';'>
     ops: s<r>=<v> (loose write), d<r> (delete), a<r>=<v>,<r>=<v> (add_packed_refs), p (pack_refs all), g (git pack-refs --all)
   answer, per operation: P| or N| (is the operation one the theorem allows: no tag value put into packed-refs by dulwich), then for every ref  <current|-> : <get_peeled|->   refs joined by ',', operations by ' ' *)
let peel_run table n ops =
  let tbl = Hashtbl.create 8 in
  if table <> "-" then List.iter (fun kv -> match String.split_on_char '=' kv with
    | [k; v] -> Hashtbl.replace tbl (int_of_string k) (int_of_string v) | _ -> failwith "peel") (String.split_on_char ',' table);
  let peel v = let i = int_of_z v in z_of_int (try Hashtbl.find tbl i with Not_found -> i) in
  let names = List.init n nat_of_int in
  let pair s = match String.split_on_char '=' s with [r; v] -> (nat_of_int (int_of_string r), z_of_int (int_of_string v)) | _ -> failwith "pair" in
  let parse tok =
    let rest = String.sub tok 1 (String.length tok - 1) in
    match tok.[0] with
    | 's' -> let (r, v) = pair rest in OSet (r, v)
    | 'd' -> ODelete (nat_of_int (int_of_string rest))
    | 'a' -> OAddPacked (List.map pair (String.split_on_char ',' rest))
    | 'p' -> OPackRefs names
    | 'g' -> OGitPack names
    | _ -> failwith "op" in
  let show = function None -> "-" | Some v -> string_of_int (int_of_z v) in
  let st = ref peel_empty and out = ref [] in
  List.iter (fun tok ->
    let o = parse tok in
    let plain = peel_plainb peel !st o in
    st := peel_step peel !st o;
    out := ((if plain then "P|" else "N|") ^ String.concat "," (List.map (fun r -> show (peel_current !st r) ^ ":" ^ show (peel_get !st r)) names)) :: !out)
    (String.split_on_char ';' ops);
  String.concat " " (List.rev !out)

let handle = function
  | ["peel"; table; n; ops] -> peel_run table (int_of_string n) ops
  | ["lcas"; dag; stamps; c1; c2s] ->
      let d = parse_dag dag in
      let n = Array.length d in
      let st = Array.of_list (List.map int_of_string (String.split_on_char ',' stamps)) in
      let parents v = let i = int_of_nat v in if i < n then List.map nat_of_int d.(i) else [] in
      let stamp v = let i = int_of_nat v in nat_of_int (if i < n then st.(i) else 0) in
      let c2 = List.map nat_of_int (ints c2s) in
      (match find_lcas parents (pick_max stamp) (nat_of_int n) (lca_fuel (nat_of_int n) c2) (nat_of_int (int_of_string c1)) c2 with
       | None -> "fuel"
       | Some l -> let l = List.sort compare (List.map int_of_nat l) in
                   if l = [] then "-" else String.concat "." (List.map string_of_int l))
  | ["cgenc"; spec] ->
      (* commits separated by ';', parents by '.', "_" = no parents, "x" = a parent that is not in the file;
         answer: rows p1,p2;... | extra edges e,e,... | parents read back ("!" = ValueError) *)
      let commit c = if c = "_" then [] else List.map (fun p -> if p = "x" then None else Some (z_of_int (int_of_string p))) (String.split_on_char '.' c) in
      let cs = List.map commit (String.split_on_char ';' spec) in
      let (rows, edges) = encode_graph cs in
      let zs z = string_of_int (int_of_z z) in
      let dec = decode_graph (rows, edges) in
      let one = function None -> "!" | Some [] -> "_" | Some l -> String.concat "." (List.map zs l) in
      Printf.sprintf "%s | %s | %s" (String.concat ";" (List.map (fun (a, b) -> zs a ^ "," ^ zs b) rows))
        (if edges = [] then "_" else String.concat "," (List.map zs edges)) (String.concat ";" (List.map one dec))
  | ["cgdec"; rows; edges] ->
      (* slots and extra edges as found in a file -> the parents the model reads *)
      let z s = z_of_int (int_of_string s) in
      let rs = List.map (fun r -> match String.split_on_char ',' r with [a; b] -> (z a, z b) | _ -> failwith "row") (String.split_on_char ';' rows) in
      let es = if edges = "_" then [] else List.map z (String.split_on_char ',' edges) in
      let zs x = string_of_int (int_of_z x) in
      let one = function None -> "!" | Some [] -> "_" | Some l -> String.concat "." (List.map zs l) in
      String.concat ";" (List.map one (decode_graph (rs, es)))
  | _ -> "EXN bad request"
let () = serve handle
