(* run_C12.ml — tree diff / flatten / lookup model.
   store:  id:name,mode,id;name,mode,id|id:...   ("_" = no trees; an empty tree is "id:")
   path:   hex components separated by '/' ("_" = root) *)
let split c s = if s = "" then [] else String.split_on_char c s
let ent s = match String.split_on_char ',' s with
  | [n; m; i] -> { t_name = bytes_of_hex n; t_mode = z_of_hexint m; t_id = bytes_of_hex i }
  | _ -> failwith "entry"
let store s =
  if s = "_" then [] else
  List.map (fun t -> match String.index_opt t ':' with
    | Some i -> (bytes_of_hex (String.sub t 0 i), List.map ent (split ';' (String.sub t (i+1) (String.length t - i - 1))))
    | None -> failwith "tree") (String.split_on_char '|' s)
let path_of s = if s = "_" then [] else List.map bytes_of_hex (String.split_on_char '/' s)
let hexs l = String.concat "" (List.map (fun x -> Printf.sprintf "%02x" ((int_of_z x) land 255)) l)
let path_str (p : z list list) = if p = [] then "_" else String.concat "/" (List.map hexs p)
let rec nat_of_int n = if n = 0 then O else S (nat_of_int (n - 1))
let ent_str p (e : tent) = Printf.sprintf "%s %s %s" (path_str p) (hexint_of_z e.t_mode) (hex_of_bytes e.t_id)
let opt_id s = if s = "-" then None else Some (bytes_of_hex s)
let rt = function Some i -> root i | None -> None
let handle = function
  | ["changes"; wu; it; cts; t1; t2; s] ->
      let tbl = store s in let st = st_of tbl in
      let fuel = nat_of_int (List.length tbl + 1) in
      let a = opt_id t1 and b = opt_id t2 in
      if not (wfb fuel st (rt a) && wfb fuel st (rt b)) then "ERR-wf" else
      let cs = tree_changes fuel st (wu = "1") (it = "1") (cts = "1") a b in
      let one (p, c) = match c with
        | CAdd e -> "A " ^ ent_str p e
        | CDelete e -> "D " ^ ent_str p e
        | CModify (x, y) -> "M " ^ ent_str p x ^ " " ^ ent_str p y
        | CUnchanged (x, y) -> "U " ^ ent_str p x ^ " " ^ ent_str p y in
      if cs = [] then "_" else String.concat ";" (List.map one cs)
  | ["flatten"; t; s] ->
      let tbl = store s in let st = st_of tbl in
      let fuel = nat_of_int (List.length tbl + 1) in
      let r = rt (Some (bytes_of_hex t)) in
      if not (wfb fuel st r) then "ERR-wf" else
      (match r with
       | Some e ->
         let l = flatten fuel st e in
         if l = [] then "_" else String.concat ";" (List.map (fun (p, (m, i)) -> Printf.sprintf "%s %s %s" (path_str p) (hexint_of_z m) (hex_of_bytes i)) l)
       | None -> "_")
  | ["look"; t; p; s] ->
      let st = st_of (store s) in
      (match look st (rt (Some (bytes_of_hex t))) (path_of p) with
       | Some (m, i) -> Printf.sprintf "%s %s" (hexint_of_z m) (hex_of_bytes i)
       | None -> "none")
  | ["patched"; t1; t2; s; probes] ->
      (* the model's own end-to-end statement, evaluated: patched listing = second listing on every probe *)
      let tbl = store s in let st = st_of tbl in
      let fuel = nat_of_int (List.length tbl + 1) in
      let pr = (rt (opt_id t1), rt (opt_id t2)) in
      let ok = List.for_all (fun q -> let q = path_of q in patched fuel st pr q = look st (snd pr) q) (String.split_on_char ',' probes) in
      if ok then "ok" else "differs"
  | ["build"; items] ->
      (* items: path:mode:id;...  -> the tree commit_tree builds, as nested text, and its flattening *)
      let item x = match String.split_on_char ':' x with
        | [p; m; i] -> (path_of p, (z_of_hexint m, bytes_of_hex i)) | _ -> failwith "item" in
      let l = if items = "_" then [] else List.map item (String.split_on_char ';' items) in
      if not (validb l) then "invalid" else
      let (rootid, _) = build_ser l in
      let st = build_store l in
      let rec show (e : tent) =
        if is_dir e.t_mode then "(" ^ hexs e.t_name ^ String.concat "" (List.map (fun c -> " " ^ show c) (st e.t_id)) ^ ")"
        else Printf.sprintf "%s:%s:%s" (hexs e.t_name) (hexint_of_z e.t_mode) (hex_of_bytes e.t_id) in
      let flat = build_flat l in
      show { t_name = []; t_mode = z_of_hexint "4000"; t_id = rootid } ^ " | " ^
      (if flat = [] then "_" else String.concat ";" (List.map (fun (p, (m, i)) -> Printf.sprintf "%s %s %s" (path_str p) (hexint_of_z m) (hex_of_bytes i)) flat))
  | _ -> "EXN bad request"
let () = serve handle
