#!/bin/sh
# Build everything the checks need from files on disk only (offline).
set -e
cd "$(dirname "$0")"
export CARGO_NET_OFFLINE=true
rm -rf build coq/Makefile coq/Makefile.conf coq/_CoqProject coq/.Makefile.d
find coq \( -name '*.vo' -o -name '*.vok' -o -name '*.vos' -o -name '*.glob' -o -name '.*.aux' \) -delete
/venv/bin/python harness/build.py all
