"""Implementation side of C09: each repository-changing operation runs as one actor under harness/sched.py; after
every file-system call the repository directory is copied; every copy is what a crash at that instant leaves and is
re-opened and inspected."""
import hashlib, os, shutil, tempfile, zlib
import sched
import impl_C04 as P
from dulwich.repo import Repo
from dulwich.objects import Blob, Commit, Tree
from dulwich.pack import write_pack_objects

POINTS = ("open", "replace", "rename", "remove", "unlink", "fsync", "mkdir", "rmdir", "link", "utime", "chmod")
MAIN, SIDE = b"refs/heads/main", b"refs/heads/side"


def mk(i, parent=None):
    b = Blob.from_string(b"content %d\n" % i)
    t = Tree()
    t.add(b"f%d" % i, 0o100644, b.id)
    c = Commit()
    c.tree = t.id
    c.parents = [parent] if parent else []
    c.author = c.committer = b"a <a@x>"
    c.author_time = c.commit_time = 1700000000 + i
    c.author_timezone = c.commit_timezone = 0
    c.message = b"c%d" % i
    return b, t, c


B0, T0, C0 = mk(0)
B1, T1, C1 = mk(1, C0.id)
BU = Blob.from_string(b"unreachable\n")
OBJS = [B0, T0, C0, B1, T1, C1, BU]
NUM = {o.id: i for i, o in enumerate(OBJS)}
REFS = [MAIN, SIDE]


def base_repo(d, packed_objs=False, refs_layout="loose", nonbare=False, side=True, extra_loose=(), fsync=False):
    r = (Repo.init if nonbare else Repo.init_bare)(os.path.join(d, "r"), mkdir=True)
    if fsync:
        c = r.get_config()
        c.set((b"core",), b"fsyncObjectFiles", True)
        c.write_to_path()
        path0 = r.path
        r.close()
        r = Repo(path0)
    if packed_objs:
        r.object_store.add_objects([(B0, None), (T0, None), (C0, None)])
        r.object_store.pack_loose_objects()
    else:
        for o in (B0, T0, C0):
            r.object_store.add_object(o)
    for o in extra_loose:
        r.object_store.add_object(o)
    if refs_layout == "stale-packed":
        # main first points elsewhere, is packed, then moves: loose value over an older packed one
        r.object_store.add_object(B1); r.object_store.add_object(T1); r.object_store.add_object(C1)
        r.refs[MAIN] = C1.id
        r.refs.pack_refs(all=True)
        r.refs[MAIN] = C0.id
    else:
        r.refs[MAIN] = C0.id
        if side:
            r.refs[SIDE] = C0.id
        if refs_layout == "packed":
            r.refs.pack_refs(all=True)
    path = r.path
    r.close()
    return path


def inspect(path, allowed, must_have):
    """what a re-opened repository sees, and everything that is wrong with it"""
    problems = []
    state_objs, state_refs = [], []
    try:
        r = Repo(path)
    except Exception as e:  # noqa: BLE001
        return {"state": "unopenable", "problems": ["the repository does not open: %s: %s" % (type(e).__name__, str(e)[:80])]}
    try:
        store = r.object_store
        try:
            ids = set(store)
        except Exception as e:  # noqa: BLE001
            problems.append("iterating the object store raised %s: %s" % (type(e).__name__, str(e)[:80]))
            ids = set()
        readable = {}
        for o in OBJS:
            try:
                if o.id in store:
                    got = store[o.id]
                    raw = got.as_raw_string()
                    if hashlib.sha1(got.type_name + b" %d\0" % len(raw) + raw).hexdigest().encode() != o.id:
                        problems.append("object %d reads back with different content" % NUM[o.id])
                    else:
                        readable[o.id] = got
            except Exception as e:  # noqa: BLE001
                problems.append("object %d is listed but unreadable: %s: %s" % (NUM[o.id], type(e).__name__, str(e)[:60]))
        for oid in ids:
            if oid not in NUM:
                try:
                    store[oid]
                except Exception as e:  # noqa: BLE001
                    problems.append("object %s is listed but unreadable: %s" % (oid[:8].decode(), type(e).__name__))
        state_objs = sorted(NUM[i] for i in readable)
        for m in must_have:
            if OBJS[m].id not in readable:
                problems.append("object %d was readable before the operation and is not now" % m)
        try:
            allrefs = r.refs.as_dict()
        except Exception as e:  # noqa: BLE001
            problems.append("reading the refs raised %s: %s" % (type(e).__name__, str(e)[:80]))
            allrefs = {}
        for name in REFS:
            v = allrefs.get(name)
            state_refs.append("%d=%s" % (REFS.index(name), "-" if v is None else NUM.get(v, "?")))
            if name in allowed and (None if v is None else NUM.get(v, "?")) not in allowed[name]:
                problems.append("%s holds %s, neither its old nor its new value %s" % (name.decode(), None if v is None else NUM.get(v, v[:8]), allowed[name]))
            if v is not None:
                # the ref's object and everything below it
                todo, seen = [v], set()
                while todo:
                    x = todo.pop()
                    if x in seen:
                        continue
                    seen.add(x)
                    try:
                        o = store[x]
                    except Exception as e:  # noqa: BLE001
                        problems.append("%s reaches object %s which cannot be read (%s)" % (name.decode(), NUM.get(x, x[:8]), type(e).__name__))
                        continue
                    if isinstance(o, Commit):
                        todo += [o.tree] + list(o.parents)
                    elif isinstance(o, Tree):
                        todo += [e.sha for e in o.iteritems()]
        for name in (b"HEAD",):
            try:
                r.refs.read_ref(name)
            except Exception as e:  # noqa: BLE001
                problems.append("HEAD unreadable: %s" % type(e).__name__)
        if os.path.exists(os.path.join(r.controldir(), "index")):
            try:
                r.open_index()
            except Exception as e:  # noqa: BLE001
                problems.append("the index does not parse: %s: %s" % (type(e).__name__, str(e)[:60]))
        try:
            r.get_config()
        except Exception as e:  # noqa: BLE001
            problems.append("the configuration does not parse: %s" % type(e).__name__)
    finally:
        r.close()
    return {"state": ".".join(map(str, state_objs)) + "/" + ",".join(state_refs), "problems": problems}


def scenarios():
    def commit(r):
        r.object_store.add_object(B1)
        r.object_store.add_object(T1)
        r.get_worktree().commit(message=b"c1", committer=b"a <a@x>", author=b"a <a@x>", commit_timestamp=1700000001, commit_timezone=0,
                                author_timestamp=1700000001, author_timezone=0, tree=T1.id, ref=MAIN)

    def fetch_pack(r):
        r.object_store.add_objects([(B1, None), (T1, None), (C1, None)])
        r.refs.set_if_equals(MAIN, C0.id, C1.id)

    def add_pack(r):
        import io
        from dulwich.object_format import SHA1
        buf = io.BytesIO()
        write_pack_objects(buf.write, [(B1, None), (T1, None), (C1, None)], SHA1)
        f, commit_, abort = r.object_store.add_pack()
        try:
            f.write(buf.getvalue())
        except BaseException:
            abort()
            raise
        commit_()
        r.refs.set_if_equals(MAIN, C0.id, C1.id)

    def locked_delete(r):
        from dulwich.refs import locked_ref
        with locked_ref(r.refs, MAIN) as lr:
            lr.delete()

    def thin_pack(r):
        # a pack whose only delta refers to an object the receiver already has: add_thin_pack appends the base and rewrites the trailer
        import io
        base = B0.data
        target = base + b"appended line\n"
        tb = Blob.from_string(target)
        data, _ = P.raw_pack([{"kind": "ref", "base": bytes.fromhex(B0.id.decode()), "base_data": base, "data": target},
                              {"kind": "full", "type": 3, "data": B1.data}, {"kind": "full", "type": 2, "data": T1.as_raw_string()},
                              {"kind": "full", "type": 1, "data": C1.as_raw_string()}])
        r.object_store.add_thin_pack(io.BytesIO(data).read, None)
        r.refs.set_if_equals(MAIN, C0.id, C1.id)

    S = {
        "commit-loose": dict(setup=dict(nonbare=True), op=commit, allowed={MAIN: [0 + 2, 5], SIDE: [2]}, must=[0, 1, 2],
                             model="update 103:3;104:4;105:5 0 5"),
        "commit-packed-start": dict(setup=dict(nonbare=True, packed_objs=True, refs_layout="packed"), op=commit, allowed={MAIN: [2, 5], SIDE: [2]}, must=[0, 1, 2],
                                    model="update 103:3;104:4;105:5 0 5"),
        # DiskObjectStore.add_objects writes one pack: the three objects become visible together
        "add-objects-then-ref": dict(setup=dict(), op=fetch_pack, allowed={MAIN: [2, 5], SIDE: [2]}, must=[0, 1, 2], model="update 201:3.4.5 0 5"),
        "add-pack-then-ref": dict(setup=dict(), op=add_pack, allowed={MAIN: [2, 5], SIDE: [2]}, must=[0, 1, 2], model="update 201:3.4.5 0 5"),
        "set-ref-packed-start": dict(setup=dict(refs_layout="packed", extra_loose=(B1, T1, C1)), op=lambda r: r.refs.set_if_equals(MAIN, C0.id, C1.id),
                                     allowed={MAIN: [2, 5], SIDE: [2]}, must=[0, 1, 2, 3, 4, 5], model="update _ 0 5"),
        "delete-loose": dict(setup=dict(), op=lambda r: r.refs.remove_if_equals(MAIN, C0.id), allowed={MAIN: [2, None], SIDE: [2]}, must=[0, 1, 2], model="delete 0"),
        "delete-packed": dict(setup=dict(refs_layout="packed"), op=lambda r: r.refs.remove_if_equals(MAIN, C0.id), allowed={MAIN: [2, None], SIDE: [2]}, must=[0, 1, 2], model="delete 0"),
        "delete-stale-packed": dict(setup=dict(refs_layout="stale-packed"), op=lambda r: r.refs.remove_if_equals(MAIN, C0.id), allowed={MAIN: [2, None]}, must=[0, 1, 2, 3, 4, 5],
                                    model="delete 0"),
        "locked-ref-delete-stale-packed": dict(setup=dict(refs_layout="stale-packed"), op=locked_delete, allowed={MAIN: [2, None]}, must=[0, 1, 2, 3, 4, 5], model="delete 0"),
        "pack-refs": dict(setup=dict(), op=lambda r: r.refs.pack_refs(all=True), allowed={MAIN: [2], SIDE: [2]}, must=[0, 1, 2], model="packrefs 0=2,1=2"),
        "pack-refs-stale-packed": dict(setup=dict(refs_layout="stale-packed"), op=lambda r: r.refs.pack_refs(all=True), allowed={MAIN: [2]}, must=[0, 1, 2, 3, 4, 5], model="packrefs 0=2"),
        "pack-loose-objects": dict(setup=dict(), op=lambda r: r.object_store.pack_loose_objects(), allowed={MAIN: [2], SIDE: [2]}, must=[0, 1, 2], model="repack 201 0.1.2 100.101.102"),
        "repack": dict(setup=dict(packed_objs=True, extra_loose=(B1, T1, C1)), op=lambda r: r.object_store.repack(), allowed={MAIN: [2], SIDE: [2]}, must=[0, 1, 2, 3, 4, 5],
                       model="repack 202 0.1.2.3.4.5 200.103.104.105"),
        "fsync-add-pack-then-ref": dict(setup=dict(fsync=True), op=add_pack, allowed={MAIN: [2, 5], SIDE: [2]}, must=[0, 1, 2], model=None, power=True),
        "fsync-thin-pack-then-ref": dict(setup=dict(fsync=True), op=thin_pack, allowed={MAIN: [2, 5], SIDE: [2]}, must=[0, 1, 2], model=None, power=True),
        "fsync-commit-loose": dict(setup=dict(nonbare=True, fsync=True), op=commit, allowed={MAIN: [2, 5], SIDE: [2]}, must=[0, 1, 2], model=None, power=True),
        "gc-prune": dict(setup=dict(extra_loose=(BU,)), op=lambda r: __import__("dulwich.gc", fromlist=["garbage_collect"]).garbage_collect(r, grace_period=None, prune=True),
                         allowed={MAIN: [2], SIDE: [2]}, must=[0, 1, 2], model=None),
        "gc-repack-packed-start": dict(setup=dict(packed_objs=True, extra_loose=(B1, T1, C1)),
                                       op=lambda r: (r.refs.set_if_equals(SIDE, C0.id, C1.id), __import__("dulwich.gc", fromlist=["garbage_collect"]).garbage_collect(r, grace_period=None, prune=True)),
                                       allowed={MAIN: [2], SIDE: [2, 5]}, must=[0, 1, 2], model=None),
    }
    return S


def scenario(req):
    sc = scenarios()[req["name"]]
    d = tempfile.mkdtemp(prefix="verif-crash-", dir=os.environ.get("VERIF_SCRATCH") or None)
    snaps = os.path.join(d, "snaps")
    os.makedirs(snaps)
    try:
        path = base_repo(d, **sc["setup"])
        s = sched.Sched(root=path, points=POINTS)
        reports = []
        k0 = os.path.join(snaps, "0")
        shutil.copytree(path, k0, symlinks=True)
        calls = []

        initial = {}
        for dp, dn, fn in os.walk(path):
            for nm in fn:
                fp = os.path.join(dp, nm)
                with open(fp, "rb") as fh:
                    initial[fp] = fh.read()
        synced = {}
        power = bool(sc.get("power"))

        def after(n, me, name):
            dst = os.path.join(snaps, str(n))
            # copying must not itself be scheduled or traced: the controller thread is not an actor
            shutil.copytree(path, dst, symlinks=True)
            if not power:
                return
            ev = s.trace[-1]
            if ev[1] == "os.fsync" and ev[3] == "ok":
                try:
                    fp = os.readlink("/proc/self/fd/%d" % ev[2][0])
                    with open(fp, "rb") as fh:
                        synced[fp] = fh.read()          # what is on disk now is what the fsync made durable
                except OSError:
                    pass
            elif ev[1] in ("os.rename", "os.replace") and ev[3] == "ok" and len(ev[2]) == 2:
                old_, new_ = (os.path.join(path, x) if not os.path.isabs(str(x)) else str(x) for x in ev[2])
                if old_ in synced:
                    synced[new_] = synced.pop(old_)
                else:
                    synced.pop(new_, None)
            # the image a power loss leaves: whatever was written since the operation began and not fsynced is lost (empty file)
            pdst = os.path.join(snaps, "p%d" % n)
            shutil.copytree(dst, pdst, symlinks=True)
            for dp, dn, fn in os.walk(pdst):
                for nm in fn:
                    img = os.path.join(dp, nm)
                    live = os.path.join(path, os.path.relpath(img, pdst))
                    with open(img, "rb") as fh:
                        cur = fh.read()
                    if initial.get(live) == cur:
                        continue
                    keep = synced.get(live)
                    if keep != cur:
                        os.chmod(img, 0o644)
                        with open(img, "wb") as fh:
                            fh.write(keep if keep is not None and cur.startswith(keep) else b"")

        # snapshots are taken from inside the actor thread right after each call returns; suspend interposition while copying
        def after_wrapped(n, me, name):
            s.in_point[me] = True
            try:
                after(n, me, name)
            finally:
                pass
        r = Repo(path)
        try:
            res = s.run([lambda: sc["op"](r)], [], after=after_wrapped)
        finally:
            r.close()
        n = len(res["trace"])
        out = []
        for k in range(0, n + 1):
            sp = os.path.join(snaps, str(k))
            if not os.path.isdir(sp):
                continue
            rep = inspect(sp, sc["allowed"], sc["must"])
            rep["k"] = k
            rep["after"] = None if k == 0 else "%s %s %s" % (res["trace"][k - 1][1], res["trace"][k - 1][2], res["trace"][k - 1][3])
            out.append(rep)
            pp = os.path.join(snaps, "p%d" % k)
            if os.path.isdir(pp):
                prep = inspect(pp, sc["allowed"], sc["must"])
                prep["k"] = k
                prep["after"] = rep["after"]
                prep["power_loss"] = True
                out.append(prep)
        return {"result": res["results"][0][0], "exc": res["results"][0][1] if res["results"][0][0] != "ok" else None, "points": n, "snaps": out,
                "model": sc["model"], "initial": _initial(sc["setup"])}
    finally:
        shutil.rmtree(d, ignore_errors=True)


def _initial(setup):
    """the model's initial state for the scenario: containers, loose refs, packed refs"""
    extra = [NUM[o.id] for o in setup.get("extra_loose", ())]
    if setup.get("refs_layout") == "stale-packed":
        conts = "100:0;101:1;102:2;103:3;104:4;105:5" if not setup.get("packed_objs") else "200:0.1.2;103:3;104:4;105:5"
        return conts, "0=2", "0=5"
    conts = "200:0.1.2" if setup.get("packed_objs") else "100:0;101:1;102:2"
    for e in extra:
        conts += ";%d:%d" % (100 + e, e)
    refs = "0=2" + (",1=2" if setup.get("side", True) else "")
    if setup.get("refs_layout") == "packed":
        return conts, "_", refs
    return conts, refs, "_"


HANDLERS = {"scenario": scenario, "names": lambda req: {"names": sorted(scenarios())}}
