"""Implementation side of C16: ref-name checks and ref backends."""
import warnings
import gen_delta
from dulwich import refs as RF

R = gen_delta.resolve


def hx(b):
    return bytes(b).hex() or "-"


def names(req):
    out = []
    for h in req["l"]:
        try:
            out.append("1" if RF.check_ref_format(R(h)) else "0")
        except Exception as e:
            out.append("E")
    return {"v": "".join(out)}


def refnames(req):
    c = RF.DictRefsContainer({})
    out = []
    with warnings.catch_warnings():
        warnings.simplefilter("ignore")
        for h in req["l"]:
            try:
                c._check_refname(R(h))
                out.append("1")
            except (RF.RefFormatError, KeyError):
                out.append("0")
            except Exception:
                out.append("E")
    return {"v": "".join(out)}


HANDLERS = dict(names=names, refnames=refnames)
