"""Implementation side of C16: ref-name checks and ref backends."""
import warnings
import gen_delta
from dulwich import refs as RF

R = gen_delta.resolve


def hx(b):
    return bytes(b).hex() or "-"


def names(req):
    out = []
    for h in req["l"]:
        try:
            out.append("1" if RF.check_ref_format(R(h)) else "0")
        except Exception as e:
            out.append("E")
    return {"v": "".join(out)}


def refnames(req):
    c = RF.DictRefsContainer({})
    out = []
    with warnings.catch_warnings():
        warnings.simplefilter("ignore")
        for h in req["l"]:
            try:
                c._check_refname(R(h))
                out.append("1")
            except (RF.RefFormatError, KeyError):
                out.append("0")
            except Exception:
                out.append("E")
    return {"v": "".join(out)}


HANDLERS = dict(names=names, refnames=refnames)


# ---------------------------------------------------------------- ref backends
import os, shutil, subprocess, tempfile

_TEMPLATE = None
GIT_ENV = {"GIT_CONFIG_NOSYSTEM": "1", "GIT_CONFIG_GLOBAL": "/dev/null", "HOME": "/nonexistent", "LC_ALL": "C",
           "PATH": os.environ.get("PATH", "/usr/bin:/bin"), "GIT_AUTHOR_NAME": "a", "GIT_AUTHOR_EMAIL": "a@x",
           "GIT_COMMITTER_NAME": "c", "GIT_COMMITTER_EMAIL": "c@x", "GIT_AUTHOR_DATE": "1700000000 +0000",
           "GIT_COMMITTER_DATE": "1700000000 +0000"}


def _git(args, cwd):
    return subprocess.run(["git"] + args, cwd=cwd, env=GIT_ENV, stdout=subprocess.PIPE, stderr=subprocess.PIPE)


def template():
    """a bare repository with three commits (deterministic ids) and no refs but HEAD -> refs/heads/main"""
    global _TEMPLATE
    if _TEMPLATE is None:
        d = tempfile.mkdtemp(prefix="verif-refs-tpl-", dir=os.environ.get("VERIF_SCRATCH") or None)
        _git(["init", "-q", "--bare", "-b", "main", d], "/")
        ids = []
        parent = []
        for i in range(3):
            t = _git(["hash-object", "-w", "-t", "tree", "/dev/null"], d).stdout.strip()
            c = _git(["commit-tree", t.decode(), "-m", "c%d" % i] + parent, d).stdout.strip()
            ids.append(c)
            parent = ["-p", c.decode()]
        _TEMPLATE = (d, ids)
        import atexit
        atexit.register(lambda: shutil.rmtree(d, ignore_errors=True))
    return _TEMPLATE


def _dump(c):
    out = []
    for n in sorted(c.allkeys(), key=lambda x: x.hex()):
        try:
            v = c.read_ref(n)
        except KeyError:
            v = None
        if not v:
            continue
        if v.startswith(b"ref: "):
            out.append(hx(n) + "=Y" + hx(v[5:].rstrip(b"\r\n")))
        else:
            out.append(hx(n) + "=S" + hx(v))
    return ",".join(out) or "_"


def _apply(c, op, ids):
    p = op.split(":")
    val = lambda s: None if s == "NONE" else R(s)
    try:
        if p[0] == "set":
            r = c.set_if_equals(R(p[1]), val(p[2]), R(p[3]))
        elif p[0] == "add":
            r = c.add_if_new(R(p[1]), R(p[2]))
        elif p[0] == "del":
            r = c.remove_if_equals(R(p[1]), val(p[2]))
        elif p[0] == "sym":
            c.set_symbolic_ref(R(p[1]), R(p[2])); r = True
        elif p[0] == "pack":
            c.pack_refs(all=(p[1] == "1")); r = True
        else:
            raise AssertionError(op)
        return "T" if r else "F", None
    except Exception as e:
        return "E", type(e).__name__


def refs_disk(req):
    tpl, ids = template()
    d = tempfile.mkdtemp(prefix="verif-refs-", dir=os.environ.get("VERIF_SCRATCH") or None)
    try:
        path = os.path.join(d, "r.git")
        shutil.copytree(tpl, path)
        c = RF.DiskRefsContainer(os.fsencode(path))
        out, excs = [], []
        for k, op in enumerate(req["ops"].split(";")):
            if op == "reopen":
                c = RF.DiskRefsContainer(os.fsencode(path))
                continue
            r, e = _apply(c, op, ids)
            if e:
                excs.append(e)
            out.append(r + " " + _dump(c))
        res = {"v": "|".join(out), "excs": excs}
        if req.get("git"):
            g = _git(["for-each-ref", "--format=%(refname) %(objectname) %(symref)"], path)
            lines = []
            for l in g.stdout.decode("latin1").splitlines():
                n, o, s = (l.split(" ") + ["", ""])[:3]
                lines.append(hx(n.encode("latin1")) + ("=Y" + hx(s.encode("latin1")) if s else "=S" + hx(o.encode())))
            hs = _git(["symbolic-ref", "-q", "--no-recurse", "HEAD"], path)     # (without --no-recurse git follows the whole chain)
            if hs.returncode == 0:
                lines.append(hx(b"HEAD") + "=Y" + hx(hs.stdout.strip()))
            else:
                hv = _git(["rev-parse", "-q", "--verify", "HEAD"], path)
                if hv.returncode == 0:
                    lines.append(hx(b"HEAD") + "=S" + hx(hv.stdout.strip()))
            res["git"] = ",".join(sorted(lines)) or "_"
            res["giterr"] = g.stderr.decode("latin1")[:200]
            # dulwich's final view restricted to what git lists (refs/ + HEAD); dangling symrefs are not listed by git
            c2 = RF.DiskRefsContainer(os.fsencode(path))
            res["final"] = _dump(c2)
            # git's %(symref) names the fully resolved ref: give dulwich's resolution of every symref
            resolved = {}
            for n in c2.allkeys():
                v = c2.read_ref(n)
                if v and v.startswith(b"ref: "):
                    try:
                        resolved[hx(n)] = hx(c2.follow(n)[0][-1])
                    except Exception as e:
                        resolved[hx(n)] = "exc:" + type(e).__name__
            res["resolved"] = resolved
        return res
    finally:
        shutil.rmtree(d, ignore_errors=True)


def refs_ids(req):
    return {"ids": [i.decode() for i in template()[1]]}


def refs_other(req):
    """the same sequence on the in-memory and reftable backends"""
    tpl, ids = template()
    res = {}
    c = RF.DictRefsContainer({b"HEAD": b"ref: refs/heads/main"})
    out = []
    for op in req["ops"].split(";"):
        if op == "reopen":
            continue
        r, e = _apply(c, op, ids)
        out.append(r + " " + _dump(c))
    res["dict"] = "|".join(out)
    try:
        from dulwich.reftable import ReftableRefsContainer
    except Exception:
        return res
    d = tempfile.mkdtemp(prefix="verif-reftable-", dir=os.environ.get("VERIF_SCRATCH") or None)
    try:
        c = ReftableRefsContainer(os.path.join(d, "rt"))
        try:
            c.set_symbolic_ref(b"HEAD", b"refs/heads/main")
        except Exception:
            pass
        out = []
        for op in req["ops"].split(";"):
            if op == "reopen":
                c = ReftableRefsContainer(os.path.join(d, "rt"))
                continue
            r, e = _apply(c, op, ids)
            out.append(r + " " + _dump(c))
        res["reftable"] = "|".join(out)
    except Exception as e:
        res["reftable_error"] = type(e).__name__ + ": " + str(e)[:200]
    finally:
        shutil.rmtree(d, ignore_errors=True)
    return res


HANDLERS.update(refs_disk=refs_disk, refs_ids=refs_ids, refs_other=refs_other)


# ---------------------------------------------------------------- the packed-refs file as text
def packed_write(req):
    """write_packed_refs over the given refs (with or without peeled values)"""
    import io
    out = []
    for case in req["cases"]:
        refs = {bytes.fromhex(n): bytes.fromhex(s) for n, s, p in case["items"]}
        peeled = {bytes.fromhex(n): bytes.fromhex(p) for n, s, p in case["items"] if p != "-"} if case["peeled"] else None
        f = io.BytesIO()
        try:
            RF.write_packed_refs(f, refs, peeled)
            out.append(f.getvalue().hex() or "_")
        except Exception as e:  # noqa: BLE001
            out.append("exc:" + type(e).__name__)
    return {"out": out}


def packed_read(req):
    """DiskRefsContainer.get_packed_refs / get_peeled's table on a packed-refs file with the given content"""
    out = []
    d = tempfile.mkdtemp(prefix="verif-pkfile-", dir=os.environ.get("VERIF_SCRATCH") or None)
    try:
        os.makedirs(os.path.join(d, "refs"))
        for h in req["files"]:
            with open(os.path.join(d, "packed-refs"), "wb") as f:
                f.write(bytes.fromhex(h) if h != "_" else b"")
            c = RF.DiskRefsContainer(d)
            try:
                packed = c.get_packed_refs()
                peeled = c._peeled_refs or {}
                out.append(";".join("%s:%s:%s" % (n.hex(), s.hex(), peeled[n].hex() if n in peeled else "-") for n, s in sorted(packed.items())) or "_")
            except (RF.PackedRefsException, StopIteration) as e:
                out.append("none")
            except Exception as e:  # noqa: BLE001
                out.append("exc:" + type(e).__name__)
        return {"out": out}
    finally:
        shutil.rmtree(d, ignore_errors=True)


def packed_git(req):
    """what C git makes of the same file: for-each-ref with objectname and the peeled value"""
    out = []
    tpl, _ids = template()
    d = tempfile.mkdtemp(prefix="verif-pkgit-", dir=os.environ.get("VERIF_SCRATCH") or None)
    try:
        g = os.path.join(d, "g.git")
        shutil.copytree(tpl, g)
        for h in req["files"]:
            with open(os.path.join(g, "packed-refs"), "wb") as f:
                f.write(bytes.fromhex(h) if h != "_" else b"")
            r = _git(["for-each-ref", "--format=%(refname) %(objectname)"], g)
            if r.returncode != 0:
                out.append("none")
            else:
                out.append(";".join("%s:%s" % (l.split(b" ")[0].hex(), l.split(b" ")[1].hex()) for l in sorted(r.stdout.split(b"\n")) if l) or "_")
        return {"out": out}
    finally:
        shutil.rmtree(d, ignore_errors=True)


def packed_ids(req):
    return {"ids": [i.decode() for i in template()[1]]}


HANDLERS.update(packed_write=packed_write, packed_read=packed_read, packed_git=packed_git, packed_ids=packed_ids)
