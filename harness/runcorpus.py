import sys, glob, os, subprocess, tempfile, shutil
props = sys.argv[1:]
for p in props:
    for s in sorted(glob.glob('/verif/corpus/%s/*.py' % p)):
        d = tempfile.mkdtemp(prefix='verif-corpus-')
        home=os.path.join(d,'home'); os.makedirs(home); open(os.path.join(home,'.gitconfig'),'w').write('[user]\n\tname = builder\n\temail = builder@example.invalid\n[init]\n\tdefaultBranch = main\n[safe]\n\tdirectory = *\n')
        env = dict(os.environ, PYTHONPATH='/repo', PYTHONHASHSEED='0', CORPUS_TMP=d, HOME=home, GIT_CONFIG_NOSYSTEM='1', LC_ALL='C'); env.pop('GIT_CONFIG_GLOBAL',None)
        r = subprocess.run(['timeout', '600', '/venv/bin/python', s], cwd=d, env=env, capture_output=True)
        print(p, os.path.basename(s), 'rc=%d' % r.returncode, flush=True)
        shutil.rmtree(d, ignore_errors=True)
