"""Implementation side of C01: dulwich.objects building, parsing, caching."""
import hashlib, os, shutil, subprocess, tempfile
import gen_delta
from dulwich import objects as O
from dulwich.object_format import SHA256

R = gen_delta.resolve


def hx(b):
    return bytes(b).hex() or "-"


def opt(s):
    return None if s in (None, "NONE") else R(s)


# ---- building objects from plain field dictionaries (all byte values hex)
def build(kind, f):
    if kind == "blob":
        b = O.Blob()
        if f.get("chunks") is not None:
            b.chunked = [R(c) for c in f["chunks"]]
        else:
            b.data = R(f["data"])
        return b
    if kind == "tree":
        t = O.Tree()
        for n, m, s in f["entries"]:
            t.add(R(n), int(m, 16), R(s))
        return t
    if kind == "commit":
        c = O.Commit()
        c.tree = R(f["tree"])
        c.parents = [R(p) for p in f["parents"]]
        c.author, c.author_time, c.author_timezone = R(f["author"]), f["author_time"], f["author_tz"]
        c._author_timezone_neg_utc = f.get("author_neg", False)
        c.committer, c.commit_time, c.commit_timezone = R(f["committer"]), f["commit_time"], f["commit_tz"]
        c._commit_timezone_neg_utc = f.get("commit_neg", False)
        if opt(f.get("encoding")) is not None:
            c.encoding = opt(f["encoding"])
        for mt in f.get("mergetags", []):
            c.mergetag.append(build("tag", mt))
        c._mergetag = list(c.mergetag)
        c._extra = [(R(k), R(v)) for k, v in f.get("extra", [])]
        if opt(f.get("gpgsig")) is not None:
            c.gpgsig = opt(f["gpgsig"])
        c.message = opt(f.get("message", "NONE"))
        c._needs_serialization = True
        return c
    if kind == "tag":
        t = O.Tag()
        t.object = ({"commit": O.Commit, "tree": O.Tree, "blob": O.Blob, "tag": O.Tag}[f["type"]], R(f["object"]))
        t.name = R(f["name"])
        if f.get("tagger") is not None:
            t.tagger, t.tag_time, t.tag_timezone = R(f["tagger"]), f["tag_time"], f["tag_tz"]
            t._tag_timezone_neg_utc = f.get("tag_neg", False)
        else:
            t.tagger = None; t.tag_time = None; t.tag_timezone = None
        t.message = opt(f.get("message", "NONE"))
        t.signature = opt(f.get("signature", "NONE"))
        return t
    raise KeyError(kind)


def fields_of(o):
    """comparable dump of the fields of a parsed object"""
    if isinstance(o, O.Blob):
        return {"data": hx(o.data)}
    if isinstance(o, O.Tree):
        return {"entries": [[hx(e.path), "%x" % e.mode, hx(e.sha)] for e in o.iteritems()]}
    if isinstance(o, O.Commit):
        return {"tree": hx(o.tree), "parents": [hx(p) for p in o.parents], "author": hx(o.author), "author_time": o.author_time,
                "author_tz": o.author_timezone, "author_neg": o._author_timezone_neg_utc, "committer": hx(o.committer),
                "commit_time": o.commit_time, "commit_tz": o.commit_timezone, "commit_neg": o._commit_timezone_neg_utc,
                "encoding": None if o.encoding is None else hx(o.encoding), "mergetags": [hx(m.as_raw_string()) for m in o.mergetag],
                "extra": [[hx(k), hx(v)] for k, v in o._extra], "gpgsig": None if o.gpgsig is None else hx(o.gpgsig),
                "message": None if o.message is None else hx(o.message)}
    if isinstance(o, O.Tag):
        return {"type": o.object[0].type_name.decode(), "object": hx(o.object[1]), "name": hx(o.name),
                "tagger": None if o.tagger is None else hx(o.tagger), "tag_time": o.tag_time, "tag_tz": o.tag_timezone,
                "tag_neg": o._tag_timezone_neg_utc, "message": None if o.message is None else hx(o.message),
                "signature": None if o.signature is None else hx(o.signature)}


def obj(req):
    """build -> bytes/ids; parse the bytes back -> fields; re-serialise the parsed object"""
    kind = req["kind"]
    try:
        o = build(kind, req["fields"])
        raw = o.as_raw_string()
    except Exception as e:
        return {"exc": type(e).__name__ + ":" + str(e)[:100]}
    hdr = o.type_name + b" " + str(len(raw)).encode() + b"\0"
    res = {"raw": hx(raw), "id": o.id.decode(), "id256": o.get_id(SHA256).decode(),
           "sha1": hashlib.sha1(hdr + raw).hexdigest(), "sha256": hashlib.sha256(hdr + raw).hexdigest(),
           "built": fields_of(o)}
    try:
        p = O.ShaFile.from_raw_string(o.type_num, raw)
        res["parsed"] = fields_of(p)
        res["reraw"] = hx(p.as_raw_string())
        # force a real re-serialisation of the parsed object
        p._needs_serialization = True
        res["reraw_forced"] = hx(p.as_raw_string())
        res["reid"] = p.id.decode()
    except Exception as e:
        res["parse_exc"] = type(e).__name__ + ":" + str(e)[:100]
    return res


def reparse(req):
    """parse given bytes, re-serialise unchanged (forced) and with one field changed"""
    kind_num = {"blob": 3, "tree": 2, "commit": 1, "tag": 4}[req["kind"]]
    raw = R(req["raw"])
    try:
        p = O.ShaFile.from_raw_string(kind_num, raw)
        f = fields_of(p)
        p._needs_serialization = True
        forced = p.as_raw_string()
    except Exception as e:
        return {"exc": type(e).__name__ + ":" + str(e)[:100]}
    res = {"fields": f, "forced": hx(forced), "id": p.id.decode(), "sha1": hashlib.sha1(p.type_name + b" %d\0" % len(raw) + raw).hexdigest()}
    if req["kind"] == "commit":
        q = O.ShaFile.from_raw_string(kind_num, raw)
        q.committer = b"Changed <c@example>"
        res["changed"] = hx(q.as_raw_string())
    if req["kind"] == "tag":
        q = O.ShaFile.from_raw_string(kind_num, raw)
        q.name = b"renamed"
        res["changed"] = hx(q.as_raw_string())
    return res


def edits(req):
    """a live object under a sequence of setter calls / observations; every observation is compared
    with a freshly built object holding the same field values"""
    kind = req["kind"]
    f = dict(req["fields"])
    o = build(kind, f)
    out = []
    for op in req["ops"]:
        k = op[0]
        try:
            if k == "set":
                name, val = op[1], op[2]
                f[name] = val
                if kind == "blob":
                    if name == "data":
                        o.data = R(val); f["chunks"] = None
                    else:
                        o.chunked = [R(c) for c in val]
                elif kind == "tree":
                    if name == "add":
                        o.add(R(val[0]), int(val[1], 16), R(val[2]))
                        f["entries"] = [e for e in f["entries"] if e[0] != val[0]] + [val]
                    elif name == "del":
                        if any(e[0] == val for e in f["entries"]):
                            del o[R(val)]
                            f["entries"] = [e for e in f["entries"] if e[0] != val]
                    f.pop("add", None); f.pop("del", None)
                elif kind == "commit":
                    if name == "parents":
                        o.parents = [R(p) for p in val]
                    elif name in ("author_time", "commit_time", "author_tz", "commit_tz"):
                        setattr(o, {"author_tz": "author_timezone", "commit_tz": "commit_timezone"}.get(name, name), val)
                        if name in ("author_tz", "commit_tz"):
                            # the "-0000" spelling belongs to the zone that was there, not to the one assigned
                            f[{"author_tz": "author_neg", "commit_tz": "commit_neg"}[name]] = False
                    elif name in ("message", "encoding", "gpgsig"):
                        setattr(o, name, opt(val))
                    else:
                        setattr(o, name, R(val))
                elif kind == "tag":
                    if name == "object":
                        o.object = (O.Commit, R(val)); f["type"] = "commit"
                    elif name in ("tag_time", "tag_tz"):
                        setattr(o, {"tag_tz": "tag_timezone"}.get(name, name), val)
                        if name == "tag_tz":
                            f["tag_neg"] = False
                    elif name in ("message", "signature"):
                        setattr(o, name, opt(val))
                    else:
                        setattr(o, name, R(val))
                out.append("s")
            elif k == "reparse":
                # the live object is given another object's contents; from here on it must behave like that object
                f = dict(op[1])
                o.set_raw_string(build(kind, f).as_raw_string())
                out.append("s")
            else:
                fresh = build(kind, f)
                want_raw = fresh.as_raw_string()
                want_id = hashlib.sha1(fresh.type_name + b" %d\0" % len(want_raw) + want_raw).hexdigest()
                if k == "raw":
                    got = o.as_raw_string(); ok = got == want_raw
                elif k == "id":
                    ok = o.id.decode() == want_id
                elif k == "id256":
                    ok = o.get_id(SHA256).decode() == hashlib.sha256(fresh.type_name + b" %d\0" % len(want_raw) + want_raw).hexdigest()
                elif k == "copy":
                    c = o.copy(); ok = c.id.decode() == want_id and c.as_raw_string() == want_raw
                else:
                    raise KeyError(k)
                out.append("1" if ok else "0")
        except Exception as e:
            out.append("E:" + type(e).__name__)
    return {"v": out}


def helpers(req):
    k = req["what"]
    if k == "fmt":
        hs = [] if req["hs"] == "_" else [tuple(R(x) for x in kv.split("=")) for kv in req["hs"].split(",")]
        return {"v": hx(b"".join(O._format_message(hs, opt(req["body"]))))}
    if k == "parse":
        out = []
        try:
            for f, v in O._parse_message([R(req["text"])]):
                if f is None:
                    out.append("bNONE" if v is None else "b" + hx(v))
                else:
                    out.append("h" + hx(f) + "=" + hx(v))
        except Exception:
            out.append("error")
        return {"v": ",".join(out)}
    if k == "tree":
        ents = [] if req["es"] == "_" else [e.split(":") for e in req["es"].split(",")]
        items = [(R(n), int(m, 16), O.sha_to_hex(R(h))) for n, m, h in ents]
        return {"v": hx(b"".join(O.serialize_tree(items))) + " sorted"}   # entries arrive in the harness's tree order
    if k in ("tzfmt", "tzparse", "tefmt", "teparse"):
        zh = lambda x: -int(x[1:], 16) if x.startswith("-") else int(x, 16)
        hz = lambda n: ("-%x" % -n) if n < 0 else "%x" % n
        try:
            if k == "tzfmt":
                return {"v": O.format_timezone(zh(req["off"]), req["neg"] == "1").hex()}
            if k == "tzparse":
                o, n = O.parse_timezone(R(req["t"]))
                return {"v": "%s %d" % (hz(o), 1 if n else 0)}
            if k == "tefmt":
                return {"v": O.format_time_entry(R(req["person"]), zh(req["time"]), (zh(req["off"]), req["neg"] == "1")).hex()}
            person, t, (o, n) = O.parse_time_entry(R(req["v"]))
            if t is None:
                return {"v": "nodate " + (person.hex() or "_")}
            return {"v": "ok %s %s %s %d" % (person.hex(), hz(t), hz(o), 1 if n else 0)}
        except ValueError:
            return {"v": "valueerror"}
        except O.ObjectFormatException:
            return {"v": "error"}
    if k == "dec":
        return {"v": hx(str(int(req["n"], 16) if not req["n"].startswith("-") else -int(req["n"][1:], 16)).encode())}


GIT_ENV = {"GIT_CONFIG_NOSYSTEM": "1", "GIT_CONFIG_GLOBAL": "/dev/null", "HOME": "/nonexistent", "LC_ALL": "C",
           "PATH": os.environ.get("PATH", "/usr/bin:/bin")}


def git_hash(req):
    """git hash-object -t <kind> --stdin-paths on many raw objects at once (git checks them with fsck rules)"""
    d = tempfile.mkdtemp(prefix="verif-obj-", dir=os.environ.get("VERIF_SCRATCH") or None)
    try:
        subprocess.run(["git", "init", "-q", "--bare", os.path.join(d, "r")], env=GIT_ENV, check=True)
        paths = []
        for i, raw in enumerate(req["raws"]):
            p = os.path.join(d, "o%d" % i)
            open(p, "wb").write(R(raw))
            paths.append(p)
        out = []
        lit = ["--literally"] if req.get("literally") else []
        pr = subprocess.run(["git", "hash-object", "-t", req["kind"], "--stdin-paths"] + lit, cwd=os.path.join(d, "r"), env=GIT_ENV,
                            input=("\n".join(paths) + "\n").encode(), capture_output=True)
        ids = pr.stdout.decode().split()
        if pr.returncode != 0 or len(ids) != len(paths):
            # find the offending objects one by one
            ids = []
            for p in paths:
                q = subprocess.run(["git", "hash-object", "-t", req["kind"], p], cwd=os.path.join(d, "r"), env=GIT_ENV, capture_output=True)
                ids.append(q.stdout.decode().strip() if q.returncode == 0 else "rejected:" + q.stderr.decode()[:80])
        return {"ids": ids}
    finally:
        shutil.rmtree(d, ignore_errors=True)


HANDLERS = dict(obj=obj, reparse=reparse, edits=edits, helpers=helpers, git_hash=git_hash)
