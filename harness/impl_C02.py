"""Implementation side of C02: pack entry headers, pack indexes, whole packs."""
import hashlib, os, shutil, subprocess, tempfile, zlib
from io import BytesIO
import gen_delta
from dulwich import pack as P
from dulwich.object_format import SHA1, SHA256
from dulwich.objects import Blob, Commit, Tree, Tag, ShaFile
from dulwich.errors import ApplyDeltaError

R = gen_delta.resolve


def hx(b):
    return bytes(b).hex() or "-"


def helpers(req):
    k = req["what"]
    try:
        if k == "objhdr":
            t = int(req["t"], 16)
            base = 1 if t == P.OFS_DELTA else (b"\x00" * 20 if t == P.REF_DELTA else None)
            h = bytes(P.pack_object_header(t, base, int(req["size"], 16), SHA1))
            # only the type/size part (the delta base follows it)
            return {"v": hx(h[:-1] if t == P.OFS_DELTA else h[:-20] if t == P.REF_DELTA else h)}
        if k == "dechdr":
            raw = R(req["s"])
            # the byte loop of unpack_object
            n = 0
            while n < len(raw) and raw[n] & 0x80:
                n += 1
            if n >= len(raw):
                return {"v": "none"}
            t, size = P._decode_object_header(list(raw[: n + 1]))
            return {"v": "%x %x %s" % (t, size, hx(raw[n + 1:]))}
        if k == "ofs":
            h = P.pack_object_header(P.OFS_DELTA, int(req["n"], 16), 0, SHA1)
            return {"v": hx(h[1:])}
        if k == "decofs":
            raw = R(req["s"])
            n = 0
            while n < len(raw) and raw[n] & 0x80:
                n += 1
            if n >= len(raw):
                return {"v": "none"}
            try:
                v = P._decode_delta_base_offset(list(raw[: n + 1]))
            except ApplyDeltaError:
                return {"v": "zero"}
            return {"v": "%x %s" % (v, hx(raw[n + 1:]))}
    except AttributeError:
        return {"missing": True}


def idx(req):
    """write an index of the given version over synthetic entries, load it, look names up"""
    fmt = SHA1 if req["shalen"] == 20 else SHA256
    entries = sorted((R(n), int(o), int(c)) for n, o, c in req["entries"])
    f = BytesIO()
    try:
        P.write_pack_index(f, entries, b"\x11" * req["shalen"], version=req["version"])
    except Exception as e:
        return {"write_exc": type(e).__name__ + ":" + str(e)[:80]}
    data = f.getvalue()
    try:
        ix = P.load_pack_index_file("x.idx", BytesIO(data), fmt)
        out = []
        for p in req["probes"]:
            try:
                out.append(str(ix.object_offset(R(p))))
            except KeyError:
                out.append("none")
            except Exception as e:
                out.append("exc:" + type(e).__name__)
        ents = [(hx(n), o, c) for n, o, c in ix.iterentries()]
        want = [(hx(n), o, (c if req["version"] != 1 else None)) for n, o, c in entries]
        ok_iter = ents == want
        ix.check()
        return {"v": ",".join(out), "iter_ok": ok_iter, "len": len(ix), "size": len(data), "file": hx(data) if len(data) < 6000 else None}
    except Exception as e:
        return {"exc": type(e).__name__ + ":" + str(e)[:100]}


GIT_ENV = {"GIT_CONFIG_NOSYSTEM": "1", "GIT_CONFIG_GLOBAL": "/dev/null", "HOME": "/nonexistent", "LC_ALL": "C",
           "PATH": os.environ.get("PATH", "/usr/bin:/bin")}


def _git(args, cwd, input=None):
    return subprocess.run(["git"] + args, cwd=cwd, env=GIT_ENV, input=input, stdout=subprocess.PIPE, stderr=subprocess.PIPE)


def _objects(specs):
    objs = []
    for s in specs:
        b = Blob.from_string(R(s))
        objs.append(b)
    return objs


def pack_roundtrip(req):
    """write a pack (+ index) over blobs with the given options; read it back by random access and by
    iteration; optionally let git verify it and list its contents"""
    d = tempfile.mkdtemp(prefix="verif-pack-", dir=os.environ.get("VERIF_SCRATCH") or None)
    try:
        objs = _objects(req["blobs"])
        uniq = {o.id: o for o in objs}
        base = os.path.join(d, "pack-x")
        opts = req["opts"]
        try:
            with open(base + ".pack", "wb") as f:
                entries, data_sum = P.write_pack_objects(f.write, [(o, None) for o in objs], SHA1, deltify=opts["deltify"],
                                                         delta_window_size=opts.get("window"), compression_level=opts["level"])
            elist = sorted((k, v[0], v[1]) for k, v in entries.items())
            with open(base + ".idx", "wb") as f:
                P.write_pack_index(f, elist, data_sum, version=opts["idx"])
        except Exception as e:
            return {"write_exc": type(e).__name__ + ":" + str(e)[:100]}
        res = {"n": len(uniq)}
        p = P.Pack(base, object_format=SHA1)
        try:
            bad = []
            for oid, o in uniq.items():
                t, raw = p.get_raw(oid)
                if t != 3 or raw != o.data:
                    bad.append(oid.decode())
            seq = sorted(x.id for x in p.iterobjects())
            res["random_ok"] = not bad
            res["seq_ok"] = seq == sorted(uniq)
            res["len"] = len(p)
            p.check()
            res["check_ok"] = True
            # trailer / stored checksum consistency
            raw = open(base + ".pack", "rb").read()
            res["trailer_ok"] = hashlib.sha1(raw[:-20]).digest() == raw[-20:] == p.index.get_pack_checksum() == p.data.get_stored_checksum()
            # CRCs
            res["crc_ok"] = all(c is None or c == (zlib.crc32(raw[o:nxt]) & 0xFFFFFFFF)
                                for (n, o, c), nxt in zip(sorted(p.index.iterentries(), key=lambda e: e[1]),
                                                          sorted(e[1] for e in p.index.iterentries())[1:] + [len(raw) - 20]))
            # the index entries dulwich derives from the pack data alone (add_pack / add_thin_pack do this for
            # every fetched or received pack) against those the writer reported
            pd = P.PackData(base + ".pack", object_format=SHA1)
            try:
                der = sorted((bytes(k), o, c) for k, o, c in pd.sorted_entries())
            finally:
                pd.close()
            res["derived_ok"] = der == [(bytes(k), o, c) for k, o, c in elist]
            if not res["derived_ok"]:
                res["derived_diff"] = [(hx(a[0])[:8], a[1], a[2], b[1], b[2]) for a, b in zip(der, elist) if a != b][:3]
        except Exception as e:
            res["read_exc"] = type(e).__name__ + ":" + str(e)[:100]
        finally:
            p.close()
        if req.get("git"):
            g = os.path.join(d, "g.git")
            _git(["init", "-q", "--bare", g], "/")
            r = _git(["index-pack", "--strict", "--stdin", "-v"], g, input=open(base + ".pack", "rb").read())
            res["git_index_pack"] = r.returncode
            res["git_err"] = r.stderr.decode("latin1")[-200:]
            if r.returncode == 0:
                lst = _git(["cat-file", "--batch-all-objects", "--batch-check"], g).stdout.decode().split("\n")
                res["git_ids_ok"] = sorted(l.split()[0] for l in lst if l) == sorted(x.decode() for x in uniq)
                # git verifies dulwich's idx too
                v = _git(["verify-pack", "-v", base + ".idx"], d)
                res["git_verify_pack"] = v.returncode if opts["idx"] != 3 else 0
                res["git_verify_err"] = v.stderr.decode("latin1")[-200:]
        return res
    finally:
        shutil.rmtree(d, ignore_errors=True)


def git_pack(req):
    """git writes the pack (deep delta chains, ofs or ref deltas); dulwich reads every object"""
    d = tempfile.mkdtemp(prefix="verif-gpack-", dir=os.environ.get("VERIF_SCRATCH") or None)
    try:
        g = os.path.join(d, "g.git")
        _git(["init", "-q", "--bare", g], "/")
        ids = {}
        for s in req["blobs"]:
            data = R(s)
            oid = _git(["hash-object", "-w", "--stdin"], g, input=data).stdout.strip()
            ids[oid] = data
        args = ["pack-objects", "--window=50", "--depth=%d" % req["depth"], "-q"] + (["--delta-base-offset"] if req["ofs"] else []) + [os.path.join(d, "pk")]
        r = _git(args, g, input=b"\n".join(ids) + b"\n")
        if r.returncode:
            return {"git_err": r.stderr.decode()[:200]}
        name = r.stdout.strip().decode()
        base = os.path.join(d, "pk-" + name)
        vp = _git(["verify-pack", "-v", base + ".idx"], d).stdout.decode()
        maxdepth = 0
        for line in vp.split("\n"):
            parts = line.split()
            if len(parts) >= 7 and parts[1] == "blob":
                maxdepth = max(maxdepth, int(parts[5]))
        p = P.Pack(base, object_format=SHA1)
        try:
            bad = [oid.decode() for oid, data in ids.items() if p.get_raw(oid) != (3, data)]
            seq_ok = sorted(o.id for o in p.iterobjects()) == sorted(ids)
            p.check()
            return {"random_ok": not bad, "seq_ok": seq_ok, "n": len(ids), "maxdepth": maxdepth}
        except Exception as e:
            return {"read_exc": type(e).__name__ + ":" + str(e)[:100], "maxdepth": maxdepth}
        finally:
            p.close()
    finally:
        shutil.rmtree(d, ignore_errors=True)


def store_add_objects(req):
    """DiskObjectStore.add_objects (its own pack writing path) with repeated objects; git index-pack --strict on the result"""
    from dulwich.object_store import DiskObjectStore
    d = tempfile.mkdtemp(prefix="verif-addobj-", dir=os.environ.get("VERIF_SCRATCH") or None)
    try:
        objs = _objects(req["blobs"])
        st = DiskObjectStore.init(os.path.join(d, "objects"))
        try:
            st.add_objects([(o, None) for o in objs])
            packs = list(st.packs)
            res = {"packs": len(packs), "entries": sum(len(list(p.index.iterentries())) for p in packs), "unique": len({o.id for o in objs}),
                   "readable": all(st[o.id].data == o.data for o in objs)}
            for p in packs:
                r = _git(["index-pack", "--strict", "-o", os.path.join(d, "x.idx"), p._basename + ".pack"], d)
                res["git_index_pack"] = r.returncode
                res["git_err"] = r.stderr.decode("latin1")[-160:]
            return res
        finally:
            st.close()
    finally:
        shutil.rmtree(d, ignore_errors=True)


def repack_roundtrip(req):
    """objects that already sit (deltified by git or by dulwich) in a pack of a store are written into a new pack through
    the paths that reuse what is there: write_pack_from_container(reuse_deltas) over a subset of the ids, and
    write_pack_data over iter_unpacked_subset(include_comp) over all of them"""
    from dulwich.object_store import DiskObjectStore
    d = tempfile.mkdtemp(prefix="verif-repack-", dir=os.environ.get("VERIF_SCRATCH") or None)
    try:
        datas = [R(b) for b in req["blobs"]]
        objs = [Blob.from_string(x) for x in datas]
        ids = {o.id: o.data for o in objs}
        st = DiskObjectStore.init(os.path.join(d, "objects"))
        try:
            if req["source"] == "git":
                g = os.path.join(d, "g.git")
                _git(["init", "-q", "--bare", g], "/")
                for x in datas:
                    _git(["hash-object", "-w", "--stdin"], g, input=x)
                r = _git(["pack-objects", "--window=50", "--depth=50", "-q"] + (["--delta-base-offset"] if req["ofs"] else []) + [os.path.join(d, "objects", "pack", "pack")], g,
                         input=b"\n".join(ids) + b"\n")
                if r.returncode:
                    return {"setup_exc": r.stderr.decode()[:200]}
            else:
                base = os.path.join(d, "objects", "pack", "pack-" + "0" * 40)
                with open(base + ".pack", "wb") as f:
                    entries, data_sum = P.write_pack_objects(f.write, [(o, None) for o in objs], SHA1, deltify=True)
                with open(base + ".idx", "wb") as f:
                    P.write_pack_index(f, sorted((k, v[0], v[1]) for k, v in entries.items()), data_sum, version=2)
            st.close()
            st = DiskObjectStore(os.path.join(d, "objects"))
            src_deltas = sum(1 for p in st.packs for u in p.data.iter_unpacked() if u.pack_type_num in (6, 7))
            subset = [sorted(ids)[i] for i in req["subset"]]
            out = os.path.join(d, "out")
            res = {"n": len(subset), "src_deltas": src_deltas}
            try:
                with open(out + ".pack", "wb") as f:
                    if req["how"] == "container":
                        entries, data_sum = P.write_pack_from_container(f.write, st, [(i, None) for i in subset], SHA1, deltify=req["deltify"],
                                                                        reuse_deltas=req["reuse"], compression_level=req["level"])
                    else:
                        entries, data_sum = P.write_pack_data(f.write, st.iter_unpacked_subset(subset, include_comp=req["comp"]), num_records=len(subset),
                                                              object_format=SHA1, compression_level=req["level"])
                with open(out + ".idx", "wb") as f:
                    P.write_pack_index(f, sorted((k, v[0], v[1]) for k, v in entries.items()), data_sum, version=2)
            except Exception as e:
                res["write_exc"] = type(e).__name__ + ":" + str(e)[:100]
                return res
            p = P.Pack(out, object_format=SHA1)
            try:
                res["out_deltas"] = sum(1 for u in p.data.iter_unpacked() if u.pack_type_num in (6, 7))
                res["random_ok"] = all(p.get_raw(i) == (3, ids[i]) for i in subset)
                res["seq_ok"] = sorted(o.id for o in p.iterobjects()) == sorted(subset)
                p.check()
                res["check_ok"] = True
            except Exception as e:
                res["read_exc"] = type(e).__name__ + ":" + str(e)[:100]
            finally:
                p.close()
            g2 = os.path.join(d, "v.git")
            _git(["init", "-q", "--bare", g2], "/")
            r = _git(["index-pack", "--strict", "--stdin"], g2, input=open(out + ".pack", "rb").read())
            res["git_index_pack"] = r.returncode
            res["git_err"] = r.stderr.decode("latin1")[-200:]
            return res
        finally:
            st.close()
    finally:
        shutil.rmtree(d, ignore_errors=True)


HANDLERS = dict(repack_roundtrip=repack_roundtrip, helpers=helpers, idx=idx, pack_roundtrip=pack_roundtrip, git_pack=git_pack, store_add_objects=store_add_objects)
