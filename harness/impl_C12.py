"""Implementation side of C12: trees built by commit_tree in a MemoryObjectStore, read by
iter_tree_contents / tree_lookup_path, compared by tree_changes, patched by commit_tree_changes;
C git (update-index --index-info + write-tree, diff-tree --raw) as oracle."""
import hashlib, os, random, shutil, subprocess, tempfile
from dulwich.diff_tree import RenameDetector, tree_changes
from dulwich.index import commit_tree
from dulwich.object_store import MemoryObjectStore, commit_tree_changes, iter_tree_contents, tree_lookup_path
from dulwich.errors import NotTreeError
from dulwich.objects import SubmoduleEncountered
from dulwich.objects import Blob, Tree

GIT_ENV = dict(os.environ, GIT_CONFIG_NOSYSTEM="1", HOME="/nonexistent", GIT_CONFIG_GLOBAL="/dev/null")
_git_dir = None


def hx(b):
    return bytes(b).hex() or "-"


def _git(args, **kw):
    global _git_dir
    if _git_dir is None:
        _git_dir = tempfile.mkdtemp(prefix="verif-c12-", dir=os.environ.get("VERIF_SCRATCH") or None)
        subprocess.run(["git", "init", "-q", "--bare", _git_dir], env=GIT_ENV, check=True)
        import atexit
        atexit.register(shutil.rmtree, _git_dir, True)
    return subprocess.run(["git", "--git-dir", _git_dir] + args, env=dict(GIT_ENV, **kw.pop("env", {})), capture_output=True, **kw)


BASE_LINES = [b"line %d of the common text\n" % i for i in range(40)]


def blob_for(k):
    """blob k: a family of similar texts (k // 4 picks the family, k % 4 the variant)"""
    fam, var = divmod(k, 4)
    lines = [b"family %d\n" % fam] + [l + b"%d\n" % fam for l in BASE_LINES]
    for j in range(var * 3):
        lines[(7 * j + var) % len(lines)] = b"variant %d edit %d\n" % (var, j)
    return Blob.from_string(b"".join(lines))


def ident(mode, k):
    if mode == 0o160000:
        return hashlib.sha1(b"commit %d" % k).hexdigest().encode()
    return blob_for(k).id


def listing(spec):
    return [(bytes.fromhex(p), int(m), ident(int(m), int(k))) for p, m, k in spec]


def fmt_entry(e):
    return "%s %x %s" % ("/".join(c.hex() for c in e.path.split(b"/")) if e.path else "_", e.mode, hx(e.sha))


def fmt_change(c):
    t = {"add": "A", "delete": "D", "modify": "M", "unchanged": "U"}.get(c.type)
    if t is None:
        return "? " + c.type
    if t == "A":
        return "A " + fmt_entry(c.new)
    if t == "D":
        return "D " + fmt_entry(c.old)
    return "%s %s %s" % (t, fmt_entry(c.old), fmt_entry(c.new))


def dump(store):
    out = []
    for oid in sorted(store._data):
        o = store._data[oid]
        if isinstance(o, Tree):
            out.append("%s:%s" % (hx(oid), ";".join("%s,%x,%s" % (hx(e.path), e.mode, hx(e.sha)) for e in o.iteritems(name_order=True))))
    return "|".join(out) or "_"


def flat(store, tid):
    return sorted((e.path, e.mode, e.sha) for e in iter_tree_contents(store, tid))


def git_tree(lst):
    """the tree id C git computes for a flat listing"""
    with tempfile.NamedTemporaryFile(prefix="verif-idx-", dir=_git_dir or None, delete=False) as f:
        idx = f.name
    os.unlink(idx)
    try:
        inp = b"".join(b"%o %s\t%s\0" % (m, s, p) for p, m, s in lst)
        r = _git(["update-index", "-z", "--index-info"], input=inp, env={"GIT_INDEX_FILE": idx})
        if r.returncode:
            return "update-index:" + r.stderr.decode("latin1")[:100]
        r = _git(["write-tree", "--missing-ok"], env={"GIT_INDEX_FILE": idx})
        if r.returncode:
            return "write-tree:" + r.stderr.decode("latin1")[:100]
        return r.stdout.strip().decode()
    finally:
        if os.path.exists(idx):
            os.unlink(idx)


def git_diff(ta, tb):
    r = _git(["diff-tree", "-r", "--raw", "-z", "--no-renames", "--no-abbrev", ta, tb])
    if r.returncode:
        return None
    toks = r.stdout.split(b"\0")
    out = set()
    i = 0
    while i + 1 < len(toks):
        meta = toks[i].decode().lstrip(":").split()
        path = toks[i + 1]
        i += 2
        om, nm, oi, ni = int(meta[0], 8), int(meta[1], 8), meta[2].encode(), meta[3].encode()
        out.add((path, (om, oi) if om else None, (nm, ni) if nm else None))
    return out


def struct(store, name, tid):
    """the tree as nested text, entries in name order: what run_C12.ml prints for the model's commit_tree"""
    t = store[tid]
    out = "(" + name.hex()
    for e in t.iteritems(name_order=True):
        if e.mode & 0o170000 == 0o040000:
            out += " " + struct(store, e.path, e.sha)
        else:
            out += " %s:%x:%s" % (e.path.hex(), e.mode, hx(e.sha))
    return out + ")"


def pair(req):
    la, lb = listing(req["a"]), listing(req["b"])
    store = MemoryObjectStore()
    for p, m, k in req["a"] + req["b"]:
        if int(m) != 0o160000:
            store.add_object(blob_for(int(k)))
    res = {}
    ida = commit_tree(store, [(p, s, m) for p, m, s in la])
    idb = commit_tree(store, [(p, s, m) for p, m, s in lb])
    res["ida"], res["idb"] = hx(ida), hx(idb)
    res["struct_a"], res["struct_b"] = struct(store, b"", ida), struct(store, b"", idb)
    res["items_a"] = ";".join("%s:%x:%s" % ("/".join(c.hex() for c in p.split(b"/")), m, hx(s)) for p, m, s in la) or "_"
    res["items_b"] = ";".join("%s:%x:%s" % ("/".join(c.hex() for c in p.split(b"/")), m, hx(s)) for p, m, s in lb) or "_"
    res["store"] = dump(store)
    fa, fb = flat(store, ida), flat(store, idb)
    res["build_flatten_a"] = fa == sorted(la)
    res["build_flatten_b"] = fb == sorted(lb)
    res["flat_a"] = ";".join("%s %x %s" % ("/".join(c.hex() for c in p.split(b"/")), m, hx(s)) for p, m, s in
                             [(e.path, e.mode, e.sha) for e in iter_tree_contents(store, ida)]) or "_"
    # stored order is git's: the serialised tree parses back and re-serialises identically, ids are stable
    res["ids_stable"] = all(o.id == oid and Tree.from_string(o.as_raw_string()).id == oid for oid, o in list(store._data.items()) if isinstance(o, Tree))
    # tree_changes for the flag combinations the model covers
    ch = {}
    for wu, it, cts in req["flags"]:
        try:
            cs = list(tree_changes(store, ida, idb, want_unchanged=bool(wu), include_trees=bool(it), change_type_same=bool(cts)))
            ch["%d%d%d" % (wu, it, cts)] = ";".join(fmt_change(c) for c in cs) or "_"
        except Exception as e:  # noqa: BLE001
            ch["%d%d%d" % (wu, it, cts)] = "EXC " + type(e).__name__
    res["changes"] = ch
    # the change list applied to the first listing
    cur = {p: (m, s) for p, m, s in fa}
    seen, dup = set(), []
    for c in tree_changes(store, ida, idb):
        for side in (c.old, c.new):
            pass
        path = (c.old or c.new).path
        key = (path, c.type)
        if c.type == "delete":
            if cur.pop(c.old.path, None) != (c.old.mode, c.old.sha):
                dup.append("delete of something else at %r" % c.old.path)
        elif c.type in ("add", "modify"):
            if c.type == "add" and c.new.path in cur:
                dup.append("add over existing %r" % c.new.path)
            if c.type == "modify" and cur.get(c.old.path) != (c.old.mode, c.old.sha):
                dup.append("modify of something else at %r" % c.old.path)
            cur[c.new.path] = (c.new.mode, c.new.sha)
        if key in seen:
            dup.append("path %r mentioned twice as %s" % (path, c.type))
        seen.add(key)
    res["apply_ok"] = sorted((p, m, s) for p, (m, s) in cur.items()) == fb
    res["apply_notes"] = dup[:3]
    # lookups
    lk = {}
    for q in req["probes"]:
        qb = b"/".join(bytes.fromhex(c) for c in q.split("/"))
        try:
            m, s = tree_lookup_path(store.__getitem__, ida, qb)
            lk[q] = "dir" if (m & 0o170000) == 0o040000 else "%x %s" % (m, hx(s))
        except (KeyError, NotTreeError, SubmoduleEncountered):
            # NotTreeError: a component of the path is a file (documented behaviour of Tree.lookup_path)
            lk[q] = "none"
        except Exception as e:  # noqa: BLE001
            lk[q] = "EXC " + type(e).__name__
    res["look"] = lk
    # path filters: the filtered diff is the full diff restricted to the filter
    full = [c for c in tree_changes(store, ida, idb)]
    pf = []
    for flt in req.get("filters", []):
        fl = [b"/".join(bytes.fromhex(c) for c in q.split("/")) for q in flt]
        got = [fmt_change(c) for c in tree_changes(store, ida, idb, paths=fl)]
        want = [fmt_change(c) for c in full if any((c.old or c.new).path == f or (c.old or c.new).path.startswith(f + b"/") for f in fl)]
        pf.append(got == want)
        if got != want:
            res["filter_diff"] = {"filter": flt, "got": got[:6], "want": want[:6]}
    res["filters_ok"] = all(pf)
    # patching: the change list (in the given order) applied by commit_tree_changes gives the second tree
    amap, bmap = {p: (m, s) for p, m, s in la}, {p: (m, s) for p, m, s in lb}
    changes = [(p, None, None) for p in amap if p not in bmap] + [(p, m, s) for p, (m, s) in bmap.items() if amap.get(p) != (m, s)]
    rnd = random.Random(req.get("seed", 0))
    po = []
    for _ in range(req.get("orders", 2)):
        rnd.shuffle(changes)
        try:
            got = commit_tree_changes(store, ida, list(changes))
            po.append(got == idb)
            if got != idb:
                res["patch_diff"] = {"order": [p.decode("latin1") for p, _, _ in changes][:12], "got_flat": [(p.decode("latin1"), "%o" % m) for p, m, s in flat(store, got)][:12]}
        except Exception as e:  # noqa: BLE001
            po.append(False)
            res["patch_diff"] = {"order": [p.decode("latin1") for p, _, _ in changes][:12], "exc": type(e).__name__ + ":" + str(e)[:80]}
        # the store still holds the first tree unchanged under its id
        if flat(store, ida) != fa or store[ida].id != ida:
            res["patch_corrupts_store"] = True
    res["patch_ok"] = all(po)
    # rename detection: the changes still turn the first listing into the second
    if req.get("renames"):
        try:
            cur = dict(amap)
            newpaths = []
            cs = list(tree_changes(store, ida, idb, rename_detector=RenameDetector(store, find_copies_harder=req["renames"] == 2)))
            # a change set: removals first, then everything that is written
            for c in cs:
                if c.type in ("delete", "rename"):
                    cur.pop(c.old.path, None)
            for c in cs:
                if c.type in ("add", "modify", "rename", "copy"):
                    cur[c.new.path] = (c.new.mode, c.new.sha)
                    newpaths.append(c.new.path)
            res["rename_apply_ok"] = cur == bmap
            res["rename_unique"] = len(newpaths) == len(set(newpaths))
        except Exception as e:  # noqa: BLE001
            res["rename_exc"] = type(e).__name__ + ":" + str(e)[:100]
    if req.get("git"):
        ga, gb = git_tree(la), git_tree(lb)
        res["git_ida"], res["git_idb"] = ga, gb
        if ga == ida.decode() and gb == idb.decode():
            gd = git_diff(ga, gb)
            mine = set()
            for c in tree_changes(store, ida, idb, change_type_same=True):
                mine.add(((c.old or c.new).path, (c.old.mode, c.old.sha) if c.old else None, (c.new.mode, c.new.sha) if c.new else None))
            res["git_diff_ok"] = gd == mine
            if gd != mine:
                res["git_diff_delta"] = [repr(x)[:120] for x in sorted(gd ^ mine, key=repr)[:4]]
    return res


HANDLERS = {"pair": pair}
