"""C10, the lookup racing a maintenance process: DiskObjectStore.get_raw stopped at every step that touches the repository,
with scripted maintenance operations in between, against Model/PackLookup.v on the same interleaving (the steps the reader
takes, in order, and the answer).  Under the discipline the theorem assumes (adds, then deletes, never the last copy) the
answer must be the object; scripts outside it (a second maintenance run) are compared with the model only."""
from common import Model, Impl

PROP = "C10"
OBJ = [0, 5, 6, 7]


def gen(rng, strict):
    """a scenario: what each pack holds, the directory now, what the reader has cached / opened, and the maintenance
    operations to carry out before each of the reader's steps"""
    ids = rng.sample(range(1, 13), rng.randrange(2, 7))
    packs = {}
    seen = set()
    for w in ids:
        objs = tuple(sorted(rng.sample(OBJ, rng.randrange(1, 4))))
        if objs in seen:
            continue
        seen.add(objs)
        packs[w] = list(objs)
    ids = list(packs)
    disk = [w for w in ids if rng.random() < 0.5]
    loose = rng.random() < 0.4
    if not loose and not any(0 in packs[w] for w in disk):
        loose = True
    cache = [w for w in ids if rng.random() < 0.5] if rng.random() < 0.6 else list(disk)
    iopen = [w for w in cache if rng.random() < 0.4]
    dopen = [w for w in iopen if rng.random() < 0.5]
    # the maintenance process, step by step, kept legal by a mirror of env_legal
    cur, lo, deleting = list(disk), loose, False
    spare = [w for w in ids if w not in disk]
    envs = []
    for k in range(24):
        ops = []
        for _ in range(rng.choice([0, 0, 1, 1, 2, 3])):
            has_o = lambda ws: any(0 in packs[w] for w in ws)
            choices = []
            if spare and not (strict and deleting):
                choices.append("a")
            if cur:
                choices.append("d")
            if lo and has_o(cur):
                choices.append("l")
            if not choices:
                break
            c = rng.choice(choices)
            if c == "a":
                w = spare.pop(rng.randrange(len(spare)))
                cur.append(w)
                ops.append("a%d" % w)
            elif c == "d":
                w = rng.choice(cur)
                if not (lo or has_o([x for x in cur if x != w])):
                    continue
                cur.remove(w)
                deleting = True
                if not strict:
                    spare.append(w) if rng.random() < 0.3 else None
                ops.append("d%d" % w)
            else:
                lo = False
                deleting = True
                ops.append("l")
        envs.append(ops)
    return {"fn": "lookup_cosim", "packs": {str(w): v for w, v in packs.items()}, "disk": disk, "loose": loose,
            "cache": cache, "iopen": iopen, "dopen": dopen, "envs": envs, "strict": strict}


def run(rep):
    rng = rep.rng
    thorough = rep.tier == "thorough"
    impl = Impl(PROP, case_timeout=300)
    model = Model(PROP)
    reqs = []
    # the two overlapping repacks of the refuted theorem, and the same lookup against the first repack only
    fixed = {"fn": "lookup_cosim", "packs": {"1": [0], "2": [5], "10": [0, 5], "11": [0, 5, 6], "9": [7]}, "disk": [1, 2], "loose": False,
             "cache": [9], "iopen": [], "dopen": []}
    reqs.append(dict(fixed, envs=[[], [], ["a10", "d1", "d2"], [], [], ["a11", "d10"]] + [[]] * 8, strict=False))
    reqs.append(dict(fixed, envs=[[], [], ["a10", "d1", "d2"]] + [[]] * 10, strict=True))
    for k in range(300 if not thorough else 6000):
        reqs.append(gen(rng, strict=(k % 4 != 3)))
    results = impl.run(reqs)
    lines, plan = [], []
    for q, r in zip(reqs, results):
        case = {k: q[k] for k in ("packs", "disk", "loose", "cache", "iopen", "dopen", "strict")}
        case["envs"] = [e for e in q["envs"] if e] and q["envs"][:max(i for i, e in enumerate(q["envs"]) if e) + 1]
        if not isinstance(r, dict) or ("result" not in r and "skip" not in r):
            rep.fail("lookup-worker", "co-simulation failed: %r" % (r,), case)
            continue
        if "skip" in r:
            continue
        rep.case("lookup-vs-maintenance", key=repr(sorted(case.items(), key=str)), nontrivial=any(e for e in q["envs"]),
                 outcome="%s/%s" % ("strict" if q["strict"] else "free", r["result"]), sample=case)
        script, kinds = [], []
        for ev in r["log"]:
            if ev[0] == "env":
                script.append(ev[1])
            elif ev[0] == "probe":
                script.append("r"); kinds.append("p%d" % ev[1])
            elif ev[0] == "loose":
                script.append("r"); kinds.append("L")
            else:
                script.append("r:" + (".".join(map(str, ev[1])) or "_"))
                kinds.append("s/R")
        content = ";".join("%s=%s" % (w, ".".join(map(str, v))) for w, v in sorted(q["packs"].items(), key=lambda x: int(x[0])))
        fmt = lambda l: ".".join(map(str, l)) or "_"
        lines.append("lookup %d %s %s/%d/0 %s/%s/%s %s" % (1 if q["strict"] else 0, content, fmt(q["disk"]), 1 if q["loose"] else 0,
                                                         fmt(r["cache0"]), fmt(q["iopen"]), fmt(q["dopen"]), ",".join(script) or "_"))
        plan.append((case, q, r, kinds))
    for (case, q, r, kinds), m in zip(plan, model.run(lines)):
        parts = m.split(" ")
        if len(parts) != 3:
            rep.disagree("DiskObjectStore.get_raw vs PackLookup.run", case, m, r["result"])
            continue
        res, bad, trace = parts
        mk = [("s/R" if t in ("s", "R") else t) for t in (trace.split(",") if trace != "_" else [])]
        full = dict(case, log=r["log"])
        if bad == "1" and q["strict"]:
            rep.disagree("the scripted maintenance step is not allowed by PackLookup.env_legal (generator mirror)", full, m, "legal")
        elif res != r["result"] or mk != kinds:
            rep.disagree("DiskObjectStore.get_raw vs PackLookup.run (steps and answer)", full, "%s %s" % (res, ",".join(mk)), "%s %s" % (r["result"], ",".join(kinds)))
        if r["result"] != "Found":
            if q["strict"]:
                rep.fail("spurious-missing-object", "get_raw answered %s for an object that exists throughout, during one maintenance run (adds, then deletes)" % r["result"], full)
            else:
                rep.fail("corpus:lookup-starved-by-overlapping-repacks", "get_raw answered %s for an object that exists throughout: maintenance kept adding packs after it had begun to delete (more than one run overlapping the lookup)" % r["result"], full)
