"""C19 — pkt-line / side-band framing: Model/PktLine.v vs dulwich.protocol."""
import itertools
from common import Model, Impl, hx, compare
import gen_delta as GD

PROP = "C19"
LEVEL = "proof"


def pk(p):
    """independent pkt-line encoder used to build input streams"""
    return b"0000" if p is None else b"%04x" % (len(p) + 4) + p


def compositions(n, maxparts=None):
    """all ways to cut n bytes into consecutive non-empty chunks (as size lists)"""
    if n == 0:
        yield []
        return
    for mask in range(1 << (n - 1)):
        sizes, run = [], 1
        for i in range(n - 1):
            if mask >> i & 1:
                sizes.append(run); run = 1
            else:
                run += 1
        sizes.append(run)
        yield sizes


def spec(b):
    """compact spelling for long constant payloads"""
    if len(b) > 64 and len(set(b)) == 1:
        return "r%02xx%d" % (b[0], len(b))
    return hx(b)


def run(rep):
    rng = rep.rng
    thorough = rep.tier == "thorough"
    rep.extra["rule"] = ("all 65536 lower-case and a 15-symbol non-hex alphabet^4 of length prefixes; every truncation and "
                         "every recv schedule / fragment partition of short encoded streams; boundary payload sizes "
                         "0,1,65515..65532; random payload sequences; side-band blobs around multiples of 65515; "
                         "buffered writer with small buffers.  distinct non-trivial = distinct model request lines")
    rep.trusted += ["an independent 3-line pkt-line encoder in the harness builds the input streams"]
    items = []
    # 1. length prefixes (helper level; black box below through read_pkt_line)
    alpha = b"09afAFgG +-_x\x00\xff"
    pref = [b"%04x" % n for n in range(65536)] + [b"%04X" % n for n in range(0, 65536, 7)]
    pref += [bytes(t) for t in itertools.product(alpha, repeat=4)]
    pref += [b"", b"0", b"00", b"000", b"00000", b"0x10", b" 010", b"+010", b"-001", b"1_00"]
    step = 1 if thorough else 3
    for s in pref[::step] + pref[-10:]:
        items.append(dict(kind="length-prefix", line="parse_len " + hx(s), req={"fn": "parse_len", "s": hx(s)}, outcome=True))
    # 2. single pkt-line decoding: boundary sizes, truncations, garbage
    streams = []
    for n in (0, 1, 2, 3, 10, 65515, 65516):
        streams.append(pk(b"x" * n) + b"tail")
    for s in (pk(None), b"0001", b"0002", b"0003", b"0004", b"0004x", b"0005", b"fff0" + b"y" * 10, b"ffff" + b"z" * 65531,
              b"ffff" + b"z" * 65530, b"FFF4" + b"q" * 65520, b"", b"0", b"00a", b"zzzz", b"-001abc", b"000a12345"):
        streams.append(s)
    short = [pk(b"a") + pk(b"") + pk(b"bc") + pk(None), pk(b"hello") + b"0001" + pk(b"x"), pk(b"") + pk(None)]
    for s in short:
        for c in range(len(s) + 1):
            streams.append(s[:c])
    for s in streams:
        items.append(dict(kind="read_pkt_line", line="read_pkt_line " + spec(s) if len(set(s)) == 1 else "read_pkt_line " + hx(s),
                          req={"fn": "read_pkt_line", "s": hx(s)}))
        items.append(dict(kind="read_pkt_seq", line="read_pkt_seq " + hx(s), req={"fn": "read_pkt_seq", "s": hx(s)}))
    # 3. writer: boundary sizes
    for n in (0, 1, 2, 12, 255, 65515, 65516, 65517, 65519, 65520, 65531, 65532, 65536, 70000, 1 << 20):
        p = "r78x%d" % n if n else "-"
        items.append(dict(kind="pkt_line-size", line="pkt_line " + p, req={"fn": "pkt_line", "p": p}))
    items.append(dict(kind="pkt_line-size", line="pkt_line NONE", req={"fn": "pkt_line", "p": "NONE"}))
    # 4. sequences and round trip
    nseq = 300 if not thorough else 6000
    seqs = [[], [b""], [b"", b""], [b"a", b"", b"b"], [b"x" * 65516, b"", b"y"]]
    for _ in range(nseq):
        k = rng.randrange(0, 6)
        seqs.append([rng.randbytes(rng.choice([0, 0, 1, 2, 5, 40, 300])) for _ in range(k)])
    for ps in seqs:
        l = ",".join(spec(p) for p in ps) or "_"
        items.append(dict(kind="pkt_seq", line="pkt_seq " + l, req={"fn": "pkt_seq", "l": l}))
    res = compare(rep, PROP, items)
    # property on the implementation: frames are well formed or refused
    for it, m, r in res:
        v = r.get("v", "") if isinstance(r, dict) else ""
        if it["kind"] in ("pkt_line-size", "pkt_seq") and v.startswith("ok "):
            f = GD.resolve(v[3:])
            if it["kind"] == "pkt_line-size" and (len(f) > 65520 or int(f[:4], 16) != len(f) and f != b"0000"):
                rep.fail("malformed-frame", "pkt_line emitted a frame of %d bytes with prefix %r" % (len(f), f[:5]), it["req"])
        if v.startswith("exc:") or v.startswith("worker:"):
            rep.fail("unclean-error", "%s raised %s instead of a protocol error" % (it["kind"], v[:80]), it["req"])
    # encode -> decode round trip on the implementation and the model
    items = []
    for ps in seqs:
        if any(len(p) > 65516 for p in ps):
            continue
        s = b"".join(pk(p) for p in ps) + pk(None) + b"rest"
        want = (",".join(hx(p) for p in ps) or "_") + " end " + hx(b"rest")
        items.append(dict(kind="seq-roundtrip", line="read_pkt_seq " + hx(s), req={"fn": "read_pkt_seq", "s": hx(s)}, want=want))
    for it, m, r in compare(rep, PROP, items):
        if r.get("v") != it["want"]:
            rep.fail("seq-roundtrip", "read_pkt_seq(pkt_seq(payloads)) != payloads", it["req"], got=r.get("v", "")[:200], want=it["want"][:200])
    # 5. every recv schedule / fragment partition of short streams
    base_streams = [pk(b"a") + pk(None), pk(b"") + pk(b"b") + pk(None), pk(b"abc") + b"0001" + pk(None),
                    b"0005", b"00zz" + b"ab", pk(b"ab")[:-1], b"0003xy", pk(b"\x00\xff") + pk(None)]
    maxlen = 14 if thorough else 12
    items = []
    for s in base_streams:
        s = s[:maxlen]
        flat = None
        for sizes in compositions(len(s)):
            sc = ",".join(map(str, sizes)) or "_"
            items.append(dict(kind="recv-schedule", line="rp %s %s 9" % (hx(s), sc), req={"fn": "rp", "s": hx(s), "sc": sc, "maxn": "9"},
                              stream=s, sample={"stream": s.decode("latin1"), "schedule": sizes}))
            frags, pos = [], 0
            for z in sizes:
                frags.append(s[pos:pos + z]); pos += z
            l = ",".join(hx(f) for f in frags) or "_"
            items.append(dict(kind="parser-partition", line="pp_feed " + l, req={"fn": "pp_feed", "l": l}, stream=s,
                              sample={"stream": s.decode("latin1"), "fragments": [f.decode("latin1") for f in frags]}))
    nrand = 400 if not thorough else 8000
    for _ in range(nrand):
        ps = [rng.randbytes(rng.choice([0, 1, 3, 17, 200, 5000])) for _ in range(rng.randrange(1, 6))]
        s = b"".join(pk(p) for p in ps) + pk(None)
        if rng.random() < 0.3:
            s = s[:rng.randrange(len(s))]
        if rng.random() < 0.2 and s:
            b = bytearray(s); b[rng.randrange(len(b))] = rng.randrange(256); s = bytes(b)
        sizes = [rng.choice([1, 2, 3, 4, 5, 7, 64, 1000, 70000]) for _ in range(rng.randrange(0, 40))]
        sc = ",".join(map(str, sizes)) or "_"
        items.append(dict(kind="recv-schedule-random", line="rp %s %s 12" % (hx(s), sc),
                          req={"fn": "rp", "s": hx(s), "sc": sc, "maxn": "12"}, stream=s, outcome=False))
        frags, pos = [], 0
        for z in sizes:
            frags.append(s[pos:pos + z]); pos += z
        frags.append(s[pos:])
        l = ",".join(hx(f) for f in frags if f) or "_"
        items.append(dict(kind="parser-partition-random", line="pp_feed " + l, req={"fn": "pp_feed", "l": l}, stream=s, outcome=False))
    res = compare(rep, PROP, items)
    rep.traces_validated += len(res)
    # schedule invariance on the implementation: same stream -> same answer
    seen = {}
    for it, m, r in res:
        v = r.get("v") if isinstance(r, dict) else None
        key = (it["kind"].split("-")[0], it["stream"], it["req"].get("maxn"))
        if it["kind"].endswith("random"):
            continue
        if it["kind"].startswith("parser") and v and v.endswith(" err"):
            v = v.split(" ")[0] + " <tail unspecified after an error> err"
        if key in seen and seen[key] != v:
            rep.fail("schedule-variance", "result depends on how the stream was chunked", it["req"], other=seen[key][:200], got=(v or "")[:200])
        seen.setdefault(key, v)
        if v is None or v.startswith("exc:") or "exc:" in v:
            rep.fail("unclean-error", "%s raised a non-protocol exception: %s" % (it["kind"], (v or str(r))[:100]), it["req"])
    # 6. side-band
    items = []
    for ch in (1, 2, 3):
        for n in (0, 1, 65514, 65515, 65516, 131030, 131031, 200000):
            blob = "r%02xx%d" % (0x40 + ch, n) if n else "-"
            items.append(dict(kind="sideband-write", line="sideband %d %s" % (ch, blob), req={"fn": "sideband", "ch": str(ch), "blob": blob}, n=n, ch=ch))
    for _ in range(60 if not thorough else 1500):
        blob = rng.randbytes(rng.choice([1, 5, 100, 3000]))
        items.append(dict(kind="sideband-write", line="sideband 1 " + hx(blob), req={"fn": "sideband", "ch": "1", "blob": hx(blob)}, n=len(blob), ch=1))
    for it, m, r in compare(rep, PROP, items):
        if r.get("maxframe", 0) > 65520:
            rep.fail("malformed-frame", "write_sideband emitted a frame of %d bytes" % r["maxframe"], it["req"])
        v = r.get("v", "")
        if v and v != "_" and not v.startswith("exc") and not v.startswith("valueerror"):
            got = b"".join(GD.resolve(x)[1:] for x in v.split(","))
            if got != GD.resolve(it["req"]["blob"]):
                rep.fail("sideband-roundtrip", "side-band payloads do not concatenate to the blob", it["req"])
    items = []
    for l in ("_", "01", "01aa,02bb,03", "-", "01aa,-,02", "ff00"):
        items.append(dict(kind="sideband-demux", line="demux " + l, req={"fn": "demux", "l": l}))
    for it, m, r in compare(rep, PROP, items):
        if str(r.get("v", "")).startswith("exc"):
            rep.fail("unclean-error", "side-band demux raised %s" % r.get("v"), it["req"])
    # 7. buffered writer
    items = []
    for bufsize in (1, 5, 8, 12, 20, 100, 65515):
        for _ in range(12 if not thorough else 200):
            ps = [rng.randbytes(rng.choice([0, 1, 2, 3, 8, 30])) for _ in range(rng.randrange(0, 7))]
            l = ",".join(hx(p) for p in ps) or "_"
            items.append(dict(kind="buffered-writer", line="bw %d %s" % (bufsize, l), req={"fn": "bw", "bufsize": str(bufsize), "l": l}, ps=ps))
    for it, m, r in compare(rep, PROP, items):
        v = r.get("v", "")
        if " " in v:
            outs, tail = v.split(" ")
            got = b"".join(GD.resolve(x) for x in outs.split(",") if x != "_") + GD.resolve(tail)
            if got != b"".join(pk(p) for p in it["ps"]):
                rep.fail("buffered-writer-concat", "buffered writer output is not the concatenation of the pkt-lines", it["req"])
    # 8a. capability lists and ref lines vs Model/Caps.v: formatting byte for byte, parsing of formatted and of odd lines
    impl = Impl(PROP)
    model = Model(PROP)
    tok = lambda: bytes(rng.choice(b"abcdefghijklmnopqrstuvwxyz0123456789-_=/.:") for _ in range(rng.randrange(1, 12)))
    fl, fq = [], []
    for _ in range(120 if not thorough else 3000):
        caps = rng.choice(["NONE", "_"]) if rng.random() < 0.25 else ",".join(tok().hex() for _ in range(rng.randrange(1, 6)))
        ref, sha = (b"refs/" + tok()).hex(), (b"%040x" % rng.getrandbits(160)).hex()
        fl.append("refline %s %s %s" % (ref, sha, caps))
        fq.append({"fn": "capline", "what": "refline", "ref": ref, "sha": sha, "caps": caps})
    lines_hex = []
    for q, r, m in zip(fq, impl.run(fq), model.run(fl)):
        rep.case("ref-line-format", key=repr(q), nontrivial=q["caps"] not in ("NONE", "_"))
        if r.get("v") != m:
            rep.disagree("format_ref_line vs Caps.format_ref_line", q, m, r.get("v"))
        else:
            lines_hex.append((m, q))
    odd = [b"", b"\n", b"x", b"x\0", b"x\0\n", b"x\0 \n", b"x\0a", b"x\0 a b", b"x\0a  b", b"x\0 a\tb", b"x\0a\0b", b"\0", b"\0\0", b"x \0 a \n", b"x\0a\r\n",
           b"x\0a b\n\n", b" x\0a", b"x\0\x0ba", b"want " + b"a" * 40, b"want " + b"a" * 40 + b"\n", b"want " + b"a" * 40 + b" a b\n", b"want " + b"a" * 40 + b"  a\n",
           b"want", b"want x y z ", b"a b"]
    for m, q in lines_hex[:: 1 if thorough else 3]:
        odd.append(bytes.fromhex(m))
        if rng.random() < 0.3:
            b = bytearray(bytes.fromhex(m))
            b[rng.randrange(len(b))] = rng.choice([0, 32, 10, 9, 65])
            odd.append(bytes(b))
    el, eq = [], []
    for d in odd:
        for w in ("extract", "extractwant"):
            el.append("%s %s" % (w, d.hex() or "_"))
            eq.append({"fn": "capline", "what": w, "line": d.hex() or "_"})
    for q, r, m in zip(eq, impl.run(eq), model.run(el)):
        rep.case("caps-" + q["what"], key=repr(q), nontrivial=True, outcome=("valueerror" if m == "valueerror" else "parsed"))
        if r.get("v") != m:
            rep.disagree("%s vs Caps" % ("extract_capabilities" if q["what"] == "extract" else "extract_want_line_capabilities"), q, m, r.get("v"))
    # 8. capability lists and ref lines: the round trip itself on the implementation (contents without NUL/LF/space)
    impl = Impl(PROP)
    reqs = []
    tok = lambda: bytes(rng.choice(b"abcdefghijklmnopqrstuvwxyz0123456789-_=/.:") for _ in range(rng.randrange(1, 12)))
    for _ in range(200 if not thorough else 4000):
        caps = [tok() for _ in range(rng.randrange(0, 6))]
        reqs.append({"fn": "caps", "ref": hx(b"refs/" + tok()), "sha": hx(b"%040x" % rng.getrandbits(160)), "caps": ",".join(hx(c) for c in caps) or "_"})
        reqs.append({"fn": "wantcaps", "sha": hx(b"%040x" % rng.getrandbits(160)), "caps": ",".join(hx(c) for c in caps) or "_"})
    for q, r in zip(reqs, impl.run(reqs)):
        rep.case("caps-" + q["fn"], key=tuple(sorted(q.items())), nontrivial=q["caps"] != "_")
        if r.get("v") != "ok":
            rep.fail("caps-roundtrip", "capability list / ref line does not survive a round trip: %r" % (r,), q)


def replay(rep, body):
    run(rep)
