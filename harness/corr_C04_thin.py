"""C04 / C02, completing a thin pack: every small graph of full objects and REF deltas whose bases are entries of the pack,
objects only the receiver has, both (the receiver already holds an entry of the pack) or nothing, through add_thin_pack
against Model/ThinPack.v: whether the pack is resolved, and exactly which objects the completed pack holds — in
particular no object twice."""
import itertools
from common import Model, Impl

PROP = "C04"


def run(rep):
    rng = rep.rng
    thorough = rep.tier == "thorough"
    impl = Impl(PROP, case_timeout=300)
    model = Model(PROP)
    cases = []
    n_max = 3 if not thorough else 4
    for n in range(1, n_max + 1):
        kinds = ["f"] + ["r%d" % j for j in range(n)] + ["e0", "e1"]
        for spec in itertools.product(kinds, repeat=n):
            if all(k == "f" for k in spec):
                continue
            cases.append(list(spec))
    if not thorough:
        cases = [c for c in cases if len(c) < 3] + rng.sample([c for c in cases if len(c) == 3], 120)
    reqs = []
    for spec in cases:
        n = len(spec)
        for _ in range(2):
            reqs.append({"fn": "thin_graph", "entries": spec, "ext_present": rng.choice([[0, 1], [0], [1], []]),
                         "also": sorted(rng.sample(range(n), rng.randrange(0, n + 1)))})
    results = impl.run(reqs)
    lines, plan = [], []
    for q, r in zip(reqs, results):
        case = {"entries": q["entries"], "ext_present": q["ext_present"], "also": q["also"]}
        rep.case("thin-pack-completion", key=repr(case), nontrivial=True, outcome=(r or {}).get("cls"), sample=case)
        if not isinstance(r, dict) or "cls" not in r:
            rep.fail("thin-worker", "thin pack worker failed: %r" % (r,), case)
            continue
        # names as small numbers in the order of the real ids (the order in which pending bases are visited)
        allnames = sorted(set(r["names"]) | set(r["ext_names"]))
        num = {h: i for i, h in enumerate(allnames)}
        ents = ",".join("%d:%s" % (num[r["names"][i]], "f" if e == "f" else "d%d" % (num[r["names"][int(e[1:])]] if e[0] == "r" else num[r["ext_names"][int(e[1:])]]))
                        for i, e in enumerate(q["entries"]))
        store = sorted([num[r["ext_names"][k]] for k in q["ext_present"]] + [num[r["names"][i]] for i in q["also"]])
        lines.append("thin %s %s" % (ents, ".".join(map(str, store)) or "_"))
        plan.append((case, r, num))
    for (case, r, num), m in zip(plan, model.run(lines)):
        verdict, names = (m.split(" ") + ["_"])[:2]
        want = sorted(int(x) for x in names.split(".")) if names != "_" else []
        if verdict == "resolved":
            if r["cls"] != "ok":
                rep.disagree("add_thin_pack vs ThinPack.complete (verdict)", case, m, r["cls"])
                continue
            got = sorted(num[h] for h in r["index"])
            if got != want:
                rep.disagree("completed pack vs ThinPack.completed_names", case, want, got)
            if len(set(r["index"])) != len(r["index"]):
                rep.fail("completed-pack-holds-an-object-twice", "the completed pack's index lists %d entries for %d distinct objects" % (len(r["index"]), len(set(r["index"]))), case)
            for i, why in r.get("unreadable", []):
                # an entry that is a delta on itself (directly or through other entries), completed from the receiver's own
                # copy: accepted, and unreadable through the pack -- the recorded finding (an existing test pins it)
                seen, j = set(), i
                while case["entries"][j][0] == "r" and j not in seen:
                    seen.add(j)
                    j = int(case["entries"][j][1:])
                cyclic = case["entries"][j][0] == "r"
                rep.fail("corpus:thin-pack-delta-on-itself-accepted" if cyclic else "completed-pack-unreadable",
                         "entry %d of the completed pack does not read back (%s)" % (i, why), case)
        else:
            if r["cls"] == "ok":
                rep.disagree("add_thin_pack vs ThinPack.complete (verdict)", case, m, "ok")
