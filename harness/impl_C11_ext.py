"""Implementation side of the index-extension sweep (C11): an index written by git (optionally with index.threads, which
adds the layout extensions EOIE / IEOT, and with a cache tree), given further extensions by splicing them in before the
trailer, then changed and rewritten by dulwich: which extensions survive, what dulwich reads back and what git lists."""
import hashlib, os, shutil, struct, subprocess, tempfile
import dulwich.index as I

GIT_ENV = dict(os.environ, GIT_CONFIG_NOSYSTEM="1", HOME="/nonexistent", GIT_CONFIG_GLOBAL="/dev/null", LC_ALL="C")


def _git(args, cwd, input=None, extra=()):
    return subprocess.run(["git", *extra, *args], cwd=cwd, env=GIT_ENV, input=input, capture_output=True)


def _extensions(data):
    """(signature, payload) of the extensions of an index file (version 2/3: entries are padded; found from the end of the entries)"""
    n = struct.unpack(">L", data[8:12])[0]
    pos = 12
    for _ in range(n):
        flags = struct.unpack(">H", data[pos + 60:pos + 62])[0]
        ext = 2 if flags & 0x4000 else 0
        namelen = flags & 0xFFF
        start = pos + 62 + ext
        if namelen == 0xFFF:
            namelen = data.index(b"\0", start) - start
        entlen = ((62 + ext + namelen + 8) // 8) * 8
        pos += entlen
    out = []
    while pos < len(data) - 20:
        sig, size = data[pos:pos + 4], struct.unpack(">L", data[pos + 4:pos + 8])[0]
        out.append([sig.decode("latin1"), data[pos + 8:pos + 8 + size].hex()])
        pos += 8 + size
    return out


def ext_sweep(req):
    d = tempfile.mkdtemp(prefix="verif-c11x-", dir=os.environ.get("VERIF_SCRATCH") or None)
    try:
        _git(["init", "-q", d], "/")
        names = [bytes.fromhex(n) for n in req["names"]]
        blob = _git(["hash-object", "-w", "--stdin"], d, input=b"x").stdout.strip()
        info = b"".join(b"100644 %s 0\t%s\n" % (blob, n) for n in names)
        extra = ["-c", "index.threads=%d" % req["threads"]] if req.get("threads") else []
        r = _git(["update-index", "--index-version", "2", "--index-info"], d, input=info, extra=extra)
        if r.returncode:
            return {"giterr": r.stderr.decode("latin1")[:200]}
        if req.get("tree"):
            _git(["write-tree"], d, extra=extra)              # adds the cache tree (TREE)
        path = os.path.join(d, ".git", "index")
        data = open(path, "rb").read()
        # splice further extensions in front of the trailer; git's EOIE, if present, must stay last and is left alone:
        # the spliced ones go before the first extension
        body = data[:-20]
        exts = _extensions(data)
        cut = len(body) - sum(8 + len(bytes.fromhex(p)) for _, p in exts)
        add = b"".join(sig.encode("latin1") + struct.pack(">L", len(bytes.fromhex(p))) + bytes.fromhex(p) for sig, p in req["add"])
        if add and not any(s == "EOIE" for s, _ in exts):
            body = body[:cut] + add + body[cut:]
            data = body + hashlib.sha1(body).digest()
            open(path, "wb").write(data)
        before = _extensions(data)
        gbefore = _git(["ls-files", "-z"], d, extra=extra)
        # dulwich: read, change an entry, write
        res = {"before": before, "git_before_rc": gbefore.returncode}
        try:
            idx = I.Index(path)
            res["read"] = sorted(k.hex() for k in idx)
            op = req["edit"]
            if op[0] == "rename":
                old, new = bytes.fromhex(op[1]), bytes.fromhex(op[2])
                idx[new] = idx[old]
                del idx[old]
            elif op[0] == "delete":
                del idx[bytes.fromhex(op[1])]
            if req.get("locked"):
                with I.locked_index(path) as li:
                    for k in list(li):
                        del li[k]
                    for k, v in idx.items():
                        li[k] = v
            else:
                idx.write()
        except Exception as e:  # noqa: BLE001
            res["exc"] = type(e).__name__ + ":" + str(e)[:100]
            return res
        after = open(path, "rb").read()
        res["after"] = _extensions(after)
        res["trailer_ok"] = hashlib.sha1(after[:-20]).digest() == after[-20:]
        try:
            res["back"] = sorted(k.hex() for k in I.Index(path))
        except Exception as e:  # noqa: BLE001
            res["back"] = "exc:" + type(e).__name__
        for label, ex in (("git", extra), ("git1", ["-c", "index.threads=1"])):
            g = _git(["ls-files", "-z"], d, extra=ex)
            res[label] = sorted(x.hex() for x in g.stdout.split(b"\0") if x) if g.returncode == 0 else "rc=%d:%s" % (g.returncode, g.stderr.decode("latin1")[:80])
        return res
    finally:
        shutil.rmtree(d, ignore_errors=True)


HANDLERS = {"ext_sweep": ext_sweep}
