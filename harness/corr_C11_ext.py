"""C11, extensions: an index written by git — with and without the layout extensions of index.threads and the cache tree —
plus spliced unknown extensions (empty payloads, signatures that are not four capitals) is read, changed (a rename to a name
of the same length, which keeps every byte offset, or a deletion) and rewritten by dulwich; required: the unknown extensions
are all there afterwards, with their payloads, in order; the layout extensions and the cache tree are not; the trailer is
right; dulwich and git (with the same index.threads and with one thread) list the same, expected entries."""
from common import Impl

PROP = "C11"
UNKNOWN = [["ZZZZ", ""], ["YYYY", "616263"], ["Xab1", "00ff"], ["QQQQ", "00" * 40], ["Abcd", ""]]
DROPPED = {"TREE", "EOIE", "IEOT"}


def run(rep):
    rng = rep.rng
    thorough = rep.tier == "thorough"
    impl = Impl(PROP, case_timeout=120)
    reqs = []
    for k in range(24 if not thorough else 400):
        n = rng.randrange(2, 12)
        width = rng.choice([1, 8, 30, 60])
        names = sorted({bytes(rng.choice(b"abcdefgh") for _ in range(width)) for _ in range(n)})
        if len(names) < 2:
            continue
        victim = rng.choice(names)
        if rng.random() < 0.7:
            new = bytes(rng.choice(b"ABCXYZ") for _ in range(len(victim)))       # same length: every offset stays where it was
            edit = ["rename", victim.hex(), new.hex()]
            want = sorted([x for x in names if x != victim] + [new])
        else:
            edit = ["delete", victim.hex()]
            want = [x for x in names if x != victim]
        reqs.append({"fn": "ext_sweep", "names": [x.hex() for x in names], "threads": rng.choice([0, 0, 2, 4]), "tree": rng.random() < 0.4,
                     "add": rng.sample(UNKNOWN, rng.randrange(0, 4)), "edit": edit, "locked": rng.random() < 0.3, "_want": [x.hex() for x in want]})
    for q, r in zip(reqs, impl.run([{k: v for k, v in q.items() if not k.startswith("_")} for q in reqs])):
        case = {k: q[k] for k in ("names", "threads", "tree", "add", "edit", "locked")}
        rep.case("index-extensions", key=repr(sorted(case.items())), nontrivial=True, sample=case)
        if not isinstance(r, dict) or "before" not in r:
            rep.note("extension sweep could not be set up: %s" % str(r)[:100])
            continue
        if "exc" in r:
            rep.fail("index-with-extensions-unreadable", "dulwich could not read / rewrite an index git lists without complaint: %s (extensions %s)" % (
                r["exc"], [s for s, _ in r["before"]]), case)
            continue
        keep = [e for e in r["before"] if e[0] not in DROPPED]
        if [e for e in r["after"] if e[0] not in DROPPED] != keep:
            rep.fail("unknown-extension-not-kept", "extensions before %s, after the rewrite %s" % ([s for s, _ in r["before"]], [s for s, _ in r["after"]]), case)
        stale = [s for s, _ in r["after"] if s in ("EOIE", "IEOT")]
        if stale:
            rep.fail("layout-extension-copied", "the rewritten index still carries %s, which describe the byte layout of git's file" % stale, case)
        if not r["trailer_ok"]:
            rep.fail("index-trailer-wrong", "the checksum at the end of the rewritten index is not that of its content", case)
        for who in ("back", "git", "git1"):
            if r[who] != q["_want"]:
                rep.fail("index-entries-differ:" + who, "%s lists %s, expected %s" % (
                    {"back": "dulwich", "git": "git (same index.threads)", "git1": "git (one thread)"}[who],
                    r[who] if isinstance(r[who], str) else [bytes.fromhex(x).decode("latin1") for x in r[who]][:12],
                    [bytes.fromhex(x).decode("latin1") for x in q["_want"]][:12]), case)
