"""C20 — configuration codecs: Model/Config.v vs dulwich.config and git config."""
import itertools, os, tempfile, shutil
from common import Model, Impl, hx, unhx, compare
import gitoracle as G

PROP = "C20"
LEVEL = "proof"
ALPHA = [b" ", b"\t", b'"', b"\\", b"#", b";", b"\n", b"\r", b"n", b"t", b"b"]
EXTRA = [b"\x0b", b"\x0c", b"=", b"[", b"\x80", b"a", b"]", b"\x08"]


def values(rep):
    k = 4 if rep.tier == "quick" else 5
    out = []
    for n in range(0, k + 1):
        for t in itertools.product(ALPHA, repeat=n):
            out.append(b"".join(t))
    for n in range(1, 3 if rep.tier == "quick" else 4):
        for t in itertools.product(ALPHA + EXTRA, repeat=n):
            if any(x in EXTRA for x in t):
                out.append(b"".join(t))
    rng = rep.rng
    for _ in range(400 if rep.tier == "quick" else 10000):
        n = rng.choice([1, 5, 9, 20, 60])
        pool = ALPHA + EXTRA + [bytes([rng.randrange(1, 256)]) for _ in range(6)]
        out.append(b"".join(rng.choice(pool) for _ in range(n)))
    return out


def git_read_values(vals_by_key_file):
    """file bytes -> {key: value} via git config --list -z; None if git rejects the file"""
    d = tempfile.mkdtemp(prefix="verif-cfg-", dir=G.scratch_root())
    try:
        p = os.path.join(d, "F")
        open(p, "wb").write(vals_by_key_file)
        rc, out, err = G.git(["config", "--file", p, "--list", "-z"], cwd=d)
        if rc:
            return None, err
        res = []
        for item in out.split(b"\0"):
            if not item:
                continue
            k, _, v = item.partition(b"\n")
            res.append((k, v))
        return res, b""
    finally:
        shutil.rmtree(d, ignore_errors=True)


def run(rep):
    rep.extra["rule"] = ("values: exhaustive strings up to length 4 (quick) / 5 (thorough) over the 11-symbol alphabet of the "
                         "quantifier (space, tab, quote, backslash, #, ;, LF, CR, n, t, b), short strings mixing VT, FF, =, [, "
                         "0x80, BS; random longer ones.  Each: writer bytes model vs dulwich; dulwich reader and git reader "
                         "(model) on the written line; git binary on files dulwich wrote (batched); raw reader inputs for "
                         "dulwich and git readers.  distinct non-trivial = distinct values/inputs")
    rep.trusted += ["C git 2.39.5 `git config --file F --list -z` as the reference reader and `git config --file F k v` as reference writer"]
    vals = values(rep)
    # 1. writer
    items = [dict(kind="format", line="format " + hx(v), req={"fn": "format", "v": hx(v)}, nontrivial=len(v) > 0) for v in vals]
    res = compare(rep, PROP, items)
    # 2. readers on what the writer produced (model: both readers; impl: dulwich reader)
    model = Model(PROP)
    mrt = model.run(["roundtrip " + hx(v) for v in vals])
    impl = Impl(PROP)
    written = [unhx(r["v"]) if isinstance(r, dict) and "v" in r and not r["v"].startswith("exc") else None for _, _, r in res]
    ireq = [{"fn": "parse", "s": hx(b" " + w + b"\n")} for w in written if w is not None]
    ires = iter(impl.run(ireq))
    for v, w, m in zip(vals, written, mrt):
        if w is None:
            rep.fail("format-raised", "_format_string raised", {"value": hx(v)})
            continue
        r = next(ires)
        rep.case("value-roundtrip", key=v, nontrivial=len(v) > 0, outcome=None)
        want = "some " + hx(v)
        if m != want + " " + want:
            rep.disagree("model readers on model-written value (theorem instance)", {"value": hx(v)}, m, want)
        if r.get("v") != want:
            rep.fail("value-roundtrip", "_parse_string(_format_string(v)) != v", {"value": hx(v), "written": hx(w)}, got=r.get("v"))
    # 3. git reads what dulwich wrote: batches of settings in one file
    B = 400
    good = [(v, w) for v, w in zip(vals, written) if w is not None and b"\0" not in v]
    for i in range(0, len(good), B):
        part = good[i:i + B]
        data = b"[s]\n" + b"".join(b"\tk%d = " % j + w + b"\n" for j, (v, w) in enumerate(part))
        got, err = git_read_values(data)
        if got is None:
            # locate the offending value(s) one by one
            for j, (v, w) in enumerate(part):
                g1, e1 = git_read_values(b"[s]\n\tk = " + w + b"\n")
                rep.case("git-reads-dulwich", key=("g", v), nontrivial=True)
                if g1 is None or g1 != [(b"s.k", v)]:
                    rep.fail("git-reads-dulwich", "git config cannot read / misreads a value dulwich wrote",
                             {"value": hx(v), "written": hx(w)}, git=str(g1)[:100], err=e1.decode("latin1")[:100])
            continue
        gd = dict(got)
        for j, (v, w) in enumerate(part):
            rep.case("git-reads-dulwich", key=("g", v), nontrivial=True)
            if gd.get(b"s.k%d" % j) != v:
                rep.fail("git-reads-dulwich", "git config reads a different value from the file dulwich wrote",
                         {"value": hx(v), "written": hx(w)}, git=hx(gd.get(b"s.k%d" % j) or b""))
    # 4. raw reader inputs: dulwich reader model vs impl; git reader model vs git binary
    raw = []
    rng = rep.rng
    ralpha = ALPHA + [b"a", b"\x0b", b"x"]
    for n in range(0, 4 if rep.tier == "quick" else 5):
        for t in itertools.product(ralpha, repeat=n):
            raw.append(b"".join(t))
    for _ in range(300 if rep.tier == "quick" else 5000):
        raw.append(b"".join(rng.choice(ralpha + [b'"', b"\\", b" "]) for _ in range(rng.choice([5, 8, 14]))))
    items = [dict(kind="parse-raw", line="parse " + hx(s), req={"fn": "parse", "s": hx(s)}) for s in raw]
    compare(rep, PROP, items)
    # git reader model vs binary (one file per input; inputs without LF/NUL, a line feed appended)
    gitraw = [s for s in raw if b"\n" not in s and b"\0" not in s]
    step = max(1, len(gitraw) // (1500 if rep.tier == "quick" else 12000))
    gitraw = gitraw[::step]
    mres = model.run(["gitparse " + hx(b" " + s + b"\n") for s in gitraw])
    for s, m in zip(gitraw, mres):
        got, err = git_read_values(b"[s]\n\tk =" + b" " + s + b"\n")
        g = "none" if got is None else ("some " + hx(dict(got).get(b"s.k", b"")))
        rep.case("git-reader-model-vs-binary", key=("gr", s), nontrivial=len(s) > 0)
        if g != m:
            rep.disagree("git parse_value (transcribed) vs git config binary", {"input": hx(s)}, m, g)
    # 5. dulwich reads what git wrote
    nset = 150 if rep.tier == "quick" else 2500
    samplevals = [v for v in vals if v and b"\0" not in v and b"\n" not in v][:: max(1, len(vals) // nset)]
    reqs, wants = [], []
    d = tempfile.mkdtemp(prefix="verif-cfg-", dir=G.scratch_root())
    try:
        for v in samplevals:
            p = os.path.join(d, "F")
            if os.path.exists(p):
                os.remove(p)
            rc, out, err = G.git(["config", "--file", p, "s.k", v], cwd=d)
            if rc:
                continue
            data = open(p, "rb").read()
            got, _ = git_read_values(data)
            reqs.append({"fn": "read_file", "data": hx(data)})
            wants.append((v, data, got))
    finally:
        shutil.rmtree(d, ignore_errors=True)
    for (v, data, got), r in zip(wants, impl.run(reqs)):
        rep.case("dulwich-reads-git", key=("dg", v), nontrivial=True)
        gv = dict(got).get(b"s.k") if got is not None else None
        items_ = r.get("items")
        dv = unhx(items_[0][2]) if items_ else None
        if gv is None or dv != gv:
            rep.fail("dulwich-reads-git", "dulwich reads a different value than git from a file git wrote",
                     {"value": hx(v), "file": hx(data)}, dulwich=repr(dv), git=repr(gv))
    # 6. subsections
    subs = []
    for n in range(0, 4):
        for t in itertools.product([b'"', b"\\", b".", b" ", b"a", b"]", b"\n", b"\0", b"#"], repeat=n):
            subs.append(b"".join(t))
    items = [dict(kind="escape-subsection", line="escsub " + hx(s), req={"fn": "escsub", "s": hx(s)}) for s in subs]
    items += [dict(kind="unescape-subsection", line="unescsub " + hx(s), req={"fn": "unescsub", "s": hx(s)}) for s in subs]
    compare(rep, PROP, items)
    # 7. whole files: sections, subsections, case rules, multi-values, set/unset/rewrite
    reqs = []
    names = [b"core", b"Core", b"remote", b"a-b", b"X9"]
    keys = [b"k", b"K", b"key-1", b"url"]
    for _ in range(150 if rep.tier == "quick" else 3000):
        ents = []
        for _ in range(rng.randrange(1, 7)):
            sec = [rng.choice(names)]
            if rng.random() < 0.5:
                sec.append(rng.choice(subs + [b"origin", b"a b", b'q"uote', b"back\\slash", b"A.B"]))
                if b"\n" in sec[1] or b"\0" in sec[1]:
                    sec[1] = b"sub"
            ents.append([[hx(x) for x in sec], hx(rng.choice(keys)), hx(rng.choice(vals[:3000])), rng.choice(["set", "add", "add"])])
        reqs.append({"fn": "file_roundtrip", "entries": ents})
    for q, r in zip(reqs, impl.run(reqs)):
        rep.case("file-roundtrip", key=repr(q["entries"]), nontrivial=len(q["entries"]) > 1)
        if r.get("eq") is not True:
            rep.fail("file-roundtrip", "ConfigFile written and read back differs", q, got=str(r)[:300])
            continue
        data = unhx(r["file"])
        got, err = git_read_values(data)
        want = []
        for sec, k, v in r["orig"]:
            sec = [unhx(x) for x in sec]
            name = sec[0].lower() + (b"." + sec[1] if len(sec) > 1 else b"") + b"." + unhx(k).lower()
            want.append((name, unhx(v)))
        if got is None or got != want:
            rep.fail("git-reads-dulwich-file", "git config --list differs from what dulwich wrote", q,
                     git=str(got)[:300], want=str(want)[:300], err=err.decode("latin1")[:100])
    multidict(rep)


def multidict(rep):
    """set/add/remove sequences over a small key universe with case variants"""
    rng = rep.rng
    keys = [b"fetch", b"Fetch", b"FETCH", b"url", b"k", b"K", b"push"]
    vals = [b"1", b"2", b"x y", b"a;b", b"", b" lead", b"q\"uote"]
    items = []
    n = 400 if rep.tier == "quick" else 8000
    for i in range(n):
        ops = []
        for _ in range(rng.randrange(1, 9)):
            k = rng.choice(keys[:3] if rng.random() < 0.6 else keys)
            how = rng.choice("aaasd")
            ops.append("%s:%s" % (how, hx(k)) + ("" if how == "d" else ":" + hx(rng.choice(vals))))
        probes = ",".join(hx(k) for k in (b"fetch", b"URL", b"k", b"push"))
        items.append(dict(kind="multidict-ops", line="md %s %s" % (";".join(ops), probes),
                          req={"fn": "md", "ops": ";".join(ops), "probes": probes}, outcome=False,
                          sample={"ops": ops}))
    for it, m, r in compare(rep, PROP, items):
        if not isinstance(r, dict) or "cfitems" not in r:
            continue
        real = m.split(" ")[0]
        # what the ConfigFile section shows and what survives write+read must be the same ordered pairs
        if r["cfitems"] != real:
            rep.fail("config-ops", "ConfigFile items after a set/add/remove sequence differ from the ordered-pairs model", it["req"],
                     got=r["cfitems"], want=real)
        elif r["backitems"] != real:
            rep.fail("config-ops-roundtrip", "section written and read back differs after a set/add/remove sequence", it["req"],
                     got=r["backitems"], want=real)


def replay(rep, body):
    run(rep)
