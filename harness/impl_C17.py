"""Implementation side of C17: the path validators, and adversarial trees materialised into a sandbox by clone /
reset --hard / checkout with every path-taking call observed at call time."""
import os, shutil, stat, tempfile
import sched
import dulwich.index as I
from dulwich import porcelain
from dulwich.objects import Blob, Commit, Tree
from dulwich.repo import Repo


def validators(req):
    out = []
    for h in req["items"]:
        p = bytes.fromhex(h)
        out.append("%d%d" % (I.validate_path(p, I.validate_path_element_default), I.validate_path(p, I.validate_path_element_ntfs)))
    return {"v": out}


def elements(req):
    out = []
    for h in req["items"]:
        p = bytes.fromhex(h)
        out.append("%d%d%d" % (I.validate_path_element_default(p), I.validate_path_element_ntfs(p), I._is_ntfs_dotgit(p)))
    return {"v": out}


# ---------- sandbox ----------
WRITE_CALLS = {"open": None, "mkdir": None, "makedirs": None, "symlink": 1, "remove": None, "unlink": None, "rmdir": None, "rename": 1, "replace": 1,
               "chmod": None, "utime": None, "link": 1, "truncate": None}


def snapshot(root, skip=()):
    out = {}
    for dp, dn, fn in os.walk(root, followlinks=False):
        rel = os.path.relpath(dp, root)
        if any(rel == s or rel.startswith(s + os.sep) for s in skip):
            dn[:] = []
            continue
        for n in dn + fn:
            p = os.path.join(dp, n)
            r = os.path.relpath(p, root)
            if any(r == s or r.startswith(s + os.sep) for s in skip):
                continue
            st = os.lstat(p)
            if stat.S_ISLNK(st.st_mode):
                out[r] = ("link", os.readlink(p))
            elif stat.S_ISDIR(st.st_mode):
                out[r] = ("dir", stat.S_IMODE(st.st_mode))
            else:
                with open(p, "rb") as f:
                    out[r] = ("file", stat.S_IMODE(st.st_mode), f.read())
    return out


def mk_tree(store, spec, box=b""):
    """spec: list of [path-hex, kind, payload]: kind f (file), x (executable), l (symlink, payload = target hex), m<octal> (file with raw mode)"""
    from dulwich.index import commit_tree
    entries = []
    for ph, kind, payload in spec:
        data = bytes.fromhex(payload) if payload else b"data of " + bytes.fromhex(ph)
        if kind == "l":
            data = data.replace(b"@BOX@", box)       # absolute targets stay inside the sandbox directory
        b = Blob.from_string(data)
        store.add_object(b)
        mode = {"f": 0o100644, "x": 0o100755, "l": 0o120000}.get(kind)
        if mode is None:
            mode = int(kind[1:], 8)
        entries.append((bytes.fromhex(ph), b.id, mode))
    # nested trees built by hand so that any component name is possible
    def build(items):
        t = Tree()
        groups = {}
        for path, sha, mode in items:
            head, _, rest = path.partition(b"/")
            if _ == b"":
                t[head] = (mode, sha)
            else:
                groups.setdefault(head, []).append((rest, sha, mode))
        for head, sub in groups.items():
            st = build(sub)
            t[head] = (0o040000, st.id)
        store.add_object(t)
        return t
    return build(entries)


def mk_commit(store, tree, parent, n):
    c = Commit()
    c.tree = tree.id
    c.parents = [parent] if parent else []
    c.author = c.committer = b"a <a@x>"
    c.author_time = c.commit_time = 1700000000 + n
    c.author_timezone = c.commit_timezone = 0
    c.message = b"c%d" % n
    store.add_object(c)
    return c


def sandbox(req):
    """source repo with 1-3 commits of adversarial trees; clone (checkout of the first), then reset --hard / checkout to the others"""
    base = tempfile.mkdtemp(prefix="verif-c17-", dir=os.environ.get("VERIF_SCRATCH") or None)
    try:
        box = os.path.join(base, "box")
        os.makedirs(os.path.join(box, "outside_dir"))
        with open(os.path.join(box, "canary"), "wb") as f:
            f.write(b"canary")
        with open(os.path.join(box, "outside_dir", "victim"), "wb") as f:
            f.write(b"victim")
        with open(os.path.join(box, "outside_dir", "x"), "wb") as f:
            f.write(b"data of d/x")
        src = Repo.init_bare(os.path.join(base, "src.git"), mkdir=True)
        commits, parent = [], None
        for n, spec in enumerate(req["trees"]):
            t = mk_tree(src.object_store, spec, os.fsencode(box))
            c = mk_commit(src.object_store, t, parent, n)
            parent = c.id
            commits.append(c.id)
        src.refs[b"refs/heads/master"] = commits[0]
        for i, c in enumerate(commits):
            src.refs[b"refs/heads/b%d" % i] = c
        src.refs.set_symbolic_ref(b"HEAD", b"refs/heads/master")
        src.close()
        wt = os.path.join(box, "wt")
        events, problems, results = [], [], []
        gitdir = os.path.join(wt, ".git")

        def observe(name, args):
            idxs = [0] + ([WRITE_CALLS[name]] if WRITE_CALLS.get(name) else [])
            if name == "open":
                mode = args[1] if len(args) > 1 else "r"
                if isinstance(mode, int):
                    if not (mode & (os.O_WRONLY | os.O_RDWR | os.O_CREAT | os.O_TRUNC)):
                        return
                elif not any(ch in mode for ch in "wax+"):
                    return
            for i in idxs:
                if i >= len(args) or not isinstance(args[i], (str, bytes, os.PathLike)):
                    continue
                p = os.fspath(args[i])
                if isinstance(p, bytes):
                    p = os.fsdecode(p)
                p = os.path.abspath(p)
                if name == "symlink" and i == 0:
                    continue           # the target text of a symlink is data, not a path that is written
                real = os.path.join(os.path.realpath(os.path.dirname(p)), os.path.basename(p))
                lexical = os.path.normpath(p)
                if not (real == wt or real.startswith(wt + os.sep)):
                    if real.startswith(box):
                        problems.append("%s(%s) acts on %s, outside the work tree" % (name, os.path.relpath(p, box), os.path.relpath(real, box)))
                elif (real == gitdir or real.startswith(gitdir + os.sep)) and not (lexical == gitdir or lexical.startswith(gitdir + os.sep)):
                    problems.append("%s(%s) reaches into .git through %s" % (name, os.path.relpath(p, box), os.path.relpath(real, box)))

        saved = {n: getattr(os, n) for n in WRITE_CALLS if n != "open" and hasattr(os, n)}
        import builtins
        saved_open, saved_os_open = builtins.open, os.open

        def wrap(n, orig):
            def w(*a, **k):
                observe(n, a)
                return orig(*a, **k)
            return w
        for n, o in saved.items():
            setattr(os, n, wrap(n, o))
        builtins.open = wrap("open", saved_open)
        os.open = wrap("open", saved_os_open)
        try:
            ops = [("clone", None)] + [(req["ops"][i % len(req["ops"])], commits[i]) for i in range(1, len(commits))]
            r = None
            for op, target in ops:
                before_git = None
                try:
                    if op == "clone":
                        r = porcelain.clone(os.path.join(base, "src.git"), wt, errstream=open(os.devnull, "wb"))
                    elif r is None:
                        results.append("skipped")
                        continue
                    elif op == "reset":
                        porcelain.reset(r, "hard", target)
                    elif op == "checkout":
                        porcelain.checkout(r, target, force=True)
                    elif op == "reset-index":
                        # build_index_from_tree over whatever is in the work tree (Repo.reset_index, stash, restore use it)
                        r.get_worktree().reset_index(r[target].tree)
                    elif op == "checkout-branch":
                        name = b"b%d" % commits.index(target)
                        r.refs[b"refs/heads/" + name] = target
                        porcelain.checkout(r, name, force=True)
                    results.append("ok")
                except BaseException as e:  # noqa: BLE001
                    results.append("refused:" + type(e).__name__)
                    if r is None and os.path.isdir(os.path.join(wt, ".git")):
                        try:
                            r = Repo(wt)
                        except Exception:  # noqa: BLE001
                            r = None
            if r is not None:
                r.close()
        finally:
            for n, o in saved.items():
                setattr(os, n, o)
            builtins.open = saved_open
            os.open = saved_os_open
        # the sandbox outside the work tree must be exactly what it was
        snap = snapshot(box, skip=("wt",))
        want = {"canary": ("file", 0, b"canary"), "outside_dir/victim": ("file", 0, b"victim"), "outside_dir/x": ("file", 0, b"data of d/x")}
        for k in ("canary", "outside_dir/victim", "outside_dir/x"):
            if snap.get(k, (None,))[0] != "file" or snap[k][2] != want[k][2]:
                problems.append("%s outside the work tree was changed or removed" % k)
        extra = sorted(k for k in snap if k not in ("canary", "outside_dir", "outside_dir/victim", "outside_dir/x"))
        if extra:
            problems.append("new entries outside the work tree: %s" % extra[:5])
        if os.path.isdir(gitdir):
            allowed_top = {"HEAD", "ORIG_HEAD", "index", "config", "description", "hooks", "info", "objects", "refs", "logs", "branches", "packed-refs", "FETCH_HEAD",
                           "shallow", "MERGE_HEAD", "index.lock"}
            top = set(os.listdir(gitdir))
            if top - allowed_top:
                problems.append("unexpected entries in .git: %s" % sorted(top - allowed_top))
            hooks = os.path.join(gitdir, "hooks")
            if os.path.isdir(hooks) and any(not n.endswith(".sample") for n in os.listdir(hooks)):
                problems.append("a hook appeared in .git/hooks: %s" % sorted(os.listdir(hooks))[:3])
            cfg = open(os.path.join(gitdir, "config"), "rb").read() if os.path.exists(os.path.join(gitdir, "config")) else b""
            if b"evil" in cfg or b"data of" in cfg:
                problems.append(".git/config was overwritten by tree content")
        # nothing in the work tree may be another spelling of .git, and no file may carry more than rwxr-xr-x
        wtsnap = snapshot(wt, skip=(".git",)) if os.path.isdir(wt) else {}
        for k, v in wtsnap.items():
            for comp in k.split(os.sep):
                c = comp.rstrip(". ").lower()
                if c == ".git" or comp.lower().startswith("git~1") or (comp.lower().startswith(".git") and comp[4:].lstrip(". ").startswith(":")):
                    problems.append("work tree entry %r is a spelling of .git" % k)
            if v[0] == "file" and v[1] & ~0o755:
                problems.append("work tree file %r has mode %o" % (k, v[1]))
        return {"results": results, "problems": problems[:6], "entries": len(wtsnap)}
    finally:
        shutil.rmtree(base, ignore_errors=True)


HANDLERS = {"validators": validators, "elements": elements, "sandbox": sandbox}
