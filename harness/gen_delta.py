"""Deterministic inputs shared by the C03/C15 harness process and its workers."""
import random


def enc(n):
    out = bytearray()
    while True:
        c = n & 0x7F
        n >>= 7
        if n:
            out.append(c | 0x80)
        else:
            out.append(c)
            return bytes(out)


def enc_wide(n, width):
    """LEB128 of n padded with 0x80 continuation bytes to exactly `width` bytes."""
    b = bytearray(enc(n))
    if width <= len(b):
        return bytes(b)
    b[-1] |= 0x80
    while len(b) < width - 1:
        b.append(0x80)
    b.append(0x00)
    return bytes(b)


def _rand(seed, n):
    return random.Random(seed).randbytes(n)


BASES = {
    "empty": b"",
    "one": b"A",
    "hello": b"hello world",
    "b300": bytes((i * 7 + 3) & 0xFF for i in range(300)),
    "b70k": _rand(70, 70000),
    "z66k": b"\0" * 66000,
}


def resolve(s):
    if s.startswith("@"):
        return BASES[s[1:]]
    if s.startswith("r"):
        if "+" in s:
            a, b = s.split("+", 1)
            return resolve(a) + resolve(b)
        return bytes([int(s[1:3], 16)]) * int(s[4:])
    return b"" if s == "-" else bytes.fromhex(s)
