"""C01 — object ids and serialisation: Model/Objects.v vs dulwich.objects and git hash-object."""
import hashlib
from common import Model, Impl, hx, unhx, compare

PROP = "C01"
LEVEL = "proof"
PGP = b"-----BEGIN PGP SIGNATURE-----\n\niQEzBAABCAAdFiEE\n=abcd\n-----END PGP SIGNATURE-----"
SSH = b"-----BEGIN SSH SIGNATURE-----\nU1NIU0lHAAAAAQ\n-----END SSH SIGNATURE-----"


def h40(rng):
    return hx(("%040x" % rng.getrandbits(160)).encode())


def ident(rng):
    return hx(rng.choice([b"A U Thor <author@example.com>", b"\xc3\x89ric <e@x>", b"x  y <a b@c>", b"\xff\xfe <\x80@x>", b"n <>", b"<only@mail>",
                          b"Quote \"q\" O'Neil <q@x>", b"a" * 300 + b" <l@x>"]))


def gen_time(rng):
    return rng.choice([0, 1, -1, 1700000000, -1000000000, 2**31 - 1, 2**31, 2**32 + 5, 2**40, 253402300799])


def gen_tz(rng):
    return rng.choice([(0, False), (0, True), (3600, False), (-3600, False), (19800, False), (-34200, False), (2700, False),
                       (50400, False), (-43200, False), (360000, False)])


def gen_tag(rng, depth=0):
    tz = gen_tz(rng)
    f = {"type": rng.choice(["commit", "tree", "blob", "tag"]), "object": h40(rng),
         "name": hx(rng.choice([b"v1.0", b"rel/\xc3\xa9", b"t with space", b"x" * 200]))}
    if rng.random() < 0.8:
        f.update(tagger=ident(rng), tag_time=gen_time(rng), tag_tz=tz[0], tag_neg=tz[1])
    else:
        f["tagger"] = None
    f["message"] = rng.choice([hx(b"msg\n"), hx(b""), hx(b"multi\n\nline\n"), hx(b"no newline")])
    f["signature"] = rng.choice(["NONE", "NONE", hx(PGP + b"\n"), hx(SSH + b"\n")])
    if f["signature"] != "NONE" and unhx(f["message"]) and not unhx(f["message"]).endswith(b"\n"):
        # a signature is one only at the beginning of a line (git's rule, and dulwich's since 7b00aac): glued to a message
        # without a final LF the armor line is part of the message
        f["message"] = hx(unhx(f["message"]) + b"\n")
    if depth and f["signature"] == "NONE" and not unhx(f["message"]).endswith(b"\n"):
        # a tag embedded as mergetag header: the header folding cannot represent a payload without a final LF
        f["message"] = hx(unhx(f["message"]) + b"\n")
    return f


def gen_commit(rng, canonical):
    atz, ctz = gen_tz(rng), gen_tz(rng)
    f = {"tree": h40(rng), "parents": [h40(rng) for _ in range(rng.choice([0, 1, 1, 2, 3, 8]))],
         "author": ident(rng), "author_time": gen_time(rng), "author_tz": atz[0], "author_neg": atz[1],
         "committer": ident(rng), "commit_time": gen_time(rng), "commit_tz": ctz[0], "commit_neg": ctz[1]}
    if rng.random() < 0.3:
        f["encoding"] = hx(rng.choice([b"ISO-8859-1", b"UTF-8", b"x-weird enc"]))
    if rng.random() < 0.25:
        f["mergetags"] = [gen_tag(rng, depth=1) for _ in range(rng.choice([1, 1, 2]))]
    if rng.random() < 0.3:
        f["extra"] = [[hx(rng.choice([b"custom", b"x-hdr", b"HG:rename"])), hx(rng.choice([b"v", b"l1\nl2", b"a\n\nb\n", b"", b" lead"]))]
                      for _ in range(rng.choice([1, 2]))]
    if rng.random() < 0.3:
        f["gpgsig"] = hx(rng.choice([PGP, SSH]))
    f["message"] = rng.choice([hx(b"msg\n"), hx(b""), hx(b"subject\n\nbody\n"), hx(b"no newline"), hx(b"\n\nleading blank"), hx(b"trail \n\n\n")])
    if rng.random() < 0.04:
        f["message"] = "NONE"            # the "missing message" of the quantifier
    return f


TREE_NAMES = [b"a", b"a.b", b"a-", b"a0", b"ab", b"A", b"a b", b"\xff\xfe", b"caf\xc3\xa9", b".hidden", b"z" * 300, b"a\ttab", b"#x", b"~"]


def gen_tree(rng):
    ents = []
    for n in rng.sample(TREE_NAMES, rng.randrange(0, 9)):
        ents.append([hx(n), "%x" % rng.choice([0o100644, 0o100755, 0o120000, 0o160000, 0o40000]), h40(rng)])
        if rng.random() < 0.3 and n + b"!" not in TREE_NAMES:
            ents.append([hx(n + b"!"), "%x" % 0o40000, h40(rng)])
    return {"entries": ents}


def run(rep):
    rng = rep.rng
    thorough = rep.tier == "thorough"
    rep.extra["rule"] = ("objects drawn from git's grammar: commits with 0..8 parents, odd identities, negative and >2^32 times, "
                         "timezones incl. -0000 and half hours, encoding, multi-line extra headers, mergetags, PGP/SSH signatures, "
                         "empty / newline-less messages; tags of all target types with and without tagger / signature; trees with "
                         "name-prefix collisions and every legal mode; blobs with arbitrary chunking.  Each: id vs hashlib (SHA-1 and "
                         "SHA-256), parse(serialise) = fields, forced re-serialisation byte-exact, one field changed leaves the other "
                         "headers alone, git hash-object agrees.  Setter/observation sequences on live objects.  Helper level: "
                         "_format_message/_parse_message/serialize_tree vs the model.  distinct non-trivial = distinct objects / op sequences")
    rep.trusted += ["hashlib SHA-1/SHA-256 as the reference hash; git 2.39.5 hash-object (fsck rules) as the reference acceptor"]
    impl = Impl(PROP, case_timeout=120)
    model = Model(PROP)
    n = 250 if not thorough else 6000
    objs = []
    # corpus: the recorded finding (message=None) is exercised on every run
    f0 = gen_commit(rng, True); f0["message"] = "NONE"; f0.pop("mergetags", None)
    objs.append(("commit", f0))
    for _ in range(n):
        k = rng.choice(["commit", "commit", "tag", "tree", "blob"])
        if k == "commit":
            f = gen_commit(rng, True)
        elif k == "tag":
            f = gen_tag(rng)
        elif k == "tree":
            f = gen_tree(rng)
        else:
            data = rng.randbytes(rng.choice([0, 1, 10, 1000, 70000]))
            f = {"data": hx(data)} if rng.random() < 0.5 else {"chunks": [hx(data[i:i + 7]) for i in range(0, len(data), 7)][:50] or [hx(b"")], "data": None}
        objs.append((k, f))
    ires = impl.run([{"fn": "obj", "kind": k, "fields": f} for k, f in objs])
    by_kind = {}
    for (k, f), r in zip(objs, ires):
        case = {"kind": k, "fields": f}
        rep.case("object-" + k, key=repr(sorted(f.items(), key=str)), nontrivial=True, sample=case if len(repr(f)) < 600 else None)
        if "raw" not in r:
            rep.fail("build-failed", "building / serialising a well-formed object raised: %s" % r.get("exc"), case)
            continue
        if r["id"] != r["sha1"] or r["id256"] != r["sha256"]:
            rep.fail("id-not-hash", "object id is not the hash of type, length and content", case, id=r["id"], sha1=r["sha1"])
        if "parse_exc" in r:
            rep.fail("parse-failed", "parsing the serialised object raised: %s" % r["parse_exc"], case)
            continue
        built, parsed = dict(r["built"]), dict(r["parsed"])
        if built != parsed:
            diff = [kk for kk in built if built[kk] != parsed.get(kk)]
            rep.fail("fields-roundtrip:" + ",".join(diff), "parse(serialise(fields)) != fields in %s" % diff, case,
                     built={kk: built[kk] for kk in diff}, parsed={kk: parsed.get(kk) for kk in diff})
        if r["reraw"] != r["raw"] or r["reraw_forced"] != r["raw"] or r["reid"] != r["id"]:
            rep.fail("reserialise-not-exact", "re-serialising the parsed object changes bytes", case)
        by_kind.setdefault(k, []).append((case, r))
    # git accepts and names the objects identically
    for k, lst in by_kind.items():
        lst = lst[: (60 if not thorough else 1500)]
        g = impl.run([{"fn": "git_hash", "kind": k, "raws": [r["raw"] for _, r in lst]}])[0]
        for (case, r), gid in zip(lst, g.get("ids", [])):
            rep.case("git-hash-" + k, key=r["id"], nontrivial=True)
            if gid != r["id"]:
                rep.fail("git-id-differs", "git hash-object: %s, dulwich id %s" % (gid[:100], r["id"]), case)
    # one field changed: every other header byte-identical (headers compared through the model's parser)
    todo = [(case, r) for k in ("commit", "tag") for case, r in by_kind.get(k, [])][: (80 if not thorough else 2000)]
    rres = impl.run([{"fn": "reparse", "kind": c["kind"], "raw": r["raw"]} for c, r in todo])
    lines = []
    for (c, r), rr in zip(todo, rres):
        lines.append("parse " + r["raw"]); lines.append("parse " + (rr.get("changed") or r["raw"]))
    mres = model.run(lines)
    for i, ((c, r), rr) in enumerate(zip(todo, rres)):
        rep.case("one-field-changed", key=("ofc", r["id"]), nontrivial=True)
        if "changed" not in rr:
            rep.fail("reparse-failed", "re-parsing failed: %s" % rr.get("exc"), c)
            continue
        if rr["forced"] != r["raw"]:
            rep.fail("reserialise-not-exact", "forced re-serialisation of parsed bytes differs", c)
        a, b = mres[2 * i].split(","), mres[2 * i + 1].split(",")
        key = hx(b"committer") if c["kind"] == "commit" else hx(b"tag")
        da = [x for x in a if not x.startswith("h" + key + "=")]
        db = [x for x in b if not x.startswith("h" + key + "=")]
        if da != db or len(a) != len(b):
            rep.fail("other-bytes-changed", "changing one field changed other headers or the body", c, before=a[:12], after=b[:12])
    # helper level: header folding and tree serialisation vs the model
    items = []
    keys = [b"tree", b"parent", b"author", b"gpgsig", b"mergetag", b"x-custom", b"HG:extra", b"encoding"]
    vals = [b"v", b"", b"l1\nl2", b"a\n\nb", b"trail\n", b"\nlead", b" sp", b"x y z", PGP, b"\n", b"\n\n"]
    for _ in range(150 if not thorough else 4000):
        hs = [(rng.choice(keys), rng.choice(vals)) for _ in range(rng.randrange(0, 6))]
        body = rng.choice(["NONE", hx(b""), hx(b"msg\n"), hx(b"\n\nx"), hx(b" lead")])
        hstr = ",".join(hx(k) + "=" + hx(v) for k, v in hs) or "_"
        items.append(dict(kind="format-message", line="fmt %s %s" % (hstr, body), req={"fn": "helpers", "what": "fmt", "hs": hstr, "body": body}, hs=hs, body=body))
    res = compare(rep, PROP, items, impl=impl, model=model)
    items = []
    for it, m, r in res:
        if isinstance(r, dict) and r.get("v"):
            want = ",".join("h" + hx(k) + "=" + hx(v) for k, v in it["hs"])
            want = (want + "," if want else "") + "b" + (hx(b"") if it["body"] == "NONE" else it["body"])
            items.append(dict(kind="parse-message", line="parse " + r["v"], req={"fn": "helpers", "what": "parse", "text": r["v"]}, want=want))
    texts = [b"", b"\n", b"tree abc", b"tree abc\n", b" cont\n", b"noheader\n\nbody", b"k v\n k2\n\n", b"k v\n\n\nbody\n", b"k\n\nb"]
    for t in texts:
        items.append(dict(kind="parse-message-raw", line="parse " + hx(t), req={"fn": "helpers", "what": "parse", "text": hx(t)}, want=None))
    for it, m, r in compare(rep, PROP, items, impl=impl, model=model):
        if it["want"] is not None and r.get("v") != it["want"]:
            rep.fail("message-roundtrip", "_parse_message(_format_message(h, b)) != (h, b)", it["req"], got=str(r.get("v"))[:200], want=it["want"][:200])
    items = []
    for _ in range(100 if not thorough else 2500):
        t = gen_tree(rng)
        ents = sorted(t["entries"], key=lambda e: unhx(e[0]) + (b"/" if int(e[1], 16) & 0o170000 == 0o40000 else b""))
        es = ",".join("%s:%s:%s" % (e[0], e[1], hx(bytes.fromhex(unhx(e[2]).decode()))) for e in ents) or "_"
        items.append(dict(kind="serialize-tree", line="tree " + es, req={"fn": "helpers", "what": "tree", "es": es}, ents=t["entries"]))
    tres = compare(rep, PROP, [dict(it, line=it["line"], req=it["req"]) for it in items], impl=impl, model=model, what="serialize_tree")
    # (the model appends its sortedness verdict; the implementation side returns bytes only)
    # author / committer / tagger lines vs Model/TimeEntry.v: zones (git's spellings, the minus flag, non-minute offsets),
    # whole lines, and parsing of what was formatted
    hz = lambda n: ("-%x" % -n) if n < 0 else "%x" % n
    items = []
    zones = [0, 60, -60, 1800, -1800, 3600, -3600, 19800, 20700, -34200, 45900, 50400, -43200, 86400, 360000, -360000, 59, 61, -1, 3601, 2 ** 40 * 60, -(2 ** 33) * 60]
    zones += [rng.randrange(-900, 900) * 60 for _ in range(20 if not thorough else 400)] + [rng.randrange(-10 ** 6, 10 ** 6) for _ in range(10 if not thorough else 200)]
    for z in zones:
        for neg in ("0", "1"):
            items.append(dict(kind="format-timezone", line="tzfmt %s %s" % (hz(z), neg), req={"fn": "helpers", "what": "tzfmt", "off": hz(z), "neg": neg}, z=z, neg=neg))
    res = compare(rep, PROP, items, impl=impl, model=model, what="format_timezone")
    items = []
    for it, m, r in res:
        v = r.get("v") if isinstance(r, dict) else None
        if v and v != "valueerror":
            items.append(dict(kind="parse-timezone", line="tzparse " + v, req={"fn": "helpers", "what": "tzparse", "t": v}, want="%s %s" % (hz(it["z"]), it["neg"] if it["z"] >= 0 else "0"), git=(it["neg"] == "0" or it["z"] == 0)))
    for t in [b"+0000", b"-0000", b"+0530", b"-0930", b"+1400", b"--700", b"--030", b"+-100", b"+99999", b"+1", b"-1", b"+", b"0100", b"+01:00", b"+0x10", b"+0060", b"+0099"]:
        items.append(dict(kind="parse-timezone-raw", line="tzparse " + hx(t), req={"fn": "helpers", "what": "tzparse", "t": hx(t)}, want=None, git=False))
    for it, m, r in compare(rep, PROP, items, impl=impl, model=model, what="parse_timezone"):
        if it["want"] is not None and it["git"] and r.get("v") != it["want"]:
            rep.fail("timezone-roundtrip", "parse_timezone(format_timezone(offset, neg)) is not (offset, neg)", it["req"], got=str(r.get("v")), want=it["want"])
    items = []
    persons = [b"A U Thor <a@example.com>", b"<>", b"a <b> c <d>", b"x> y <z>", b"\xc3\xa9 <\xff>", b"a  <b>"]
    for _ in range(60 if not thorough else 1500):
        p, t = rng.choice(persons), rng.choice([0, 1, -1, 1700000000, 2 ** 32, 2 ** 63, -(2 ** 40), rng.randrange(-10 ** 12, 10 ** 12)])
        z, neg = rng.choice([(0, "0"), (0, "1"), (3600, "0"), (-5400, "0"), (20700, "0"), (rng.randrange(-900, 900) * 60, "0")])
        items.append(dict(kind="format-time-entry", line="tefmt %s %s %s %s" % (hx(p), hz(t), hz(z), neg),
                          req={"fn": "helpers", "what": "tefmt", "person": hx(p), "time": hz(t), "off": hz(z), "neg": neg}, p=p, t=t, z=z, neg=neg))
    res = compare(rep, PROP, items, impl=impl, model=model, what="format_time_entry")
    items = []
    for it, m, r in res:
        v = r.get("v") if isinstance(r, dict) else None
        if v and v != "valueerror":
            want = "ok %s %s %s %s" % (hx(it["p"]), hz(it["t"]), hz(it["z"]), it["neg"]) if it["p"].endswith(b">") else None
            items.append(dict(kind="parse-time-entry", line="teparse " + v, req={"fn": "helpers", "what": "teparse", "v": v}, want=want))
    for t in [b"", b"no date", b"A <a>", b"A <a> ", b"A <a> 12", b"A <a> 12 +0100", b"A <a> x +0100", b"A <a> 12 0100", b"A <a> 1 2 +0100", b"> 1 +0000"]:
        items.append(dict(kind="parse-time-entry-raw", line="teparse " + (hx(t) if t else "_"), req={"fn": "helpers", "what": "teparse", "v": hx(t) if t else "-"}, want=None))
    for it, m, r in compare(rep, PROP, items, impl=impl, model=model, what="parse_time_entry"):
        if it["want"] is not None and r.get("v") != it["want"]:
            rep.fail("time-entry-roundtrip", "parse_time_entry(format_time_entry(person, time, zone)) is not (person, time, zone)", it["req"], got=str(r.get("v")), want=it["want"])
    # sequences of setter calls / observations on live objects
    reqs = []
    for _ in range(120 if not thorough else 3000):
        k = rng.choice(["commit", "tag", "tree", "blob"])
        f = gen_commit(rng, True) if k == "commit" else gen_tag(rng) if k == "tag" else gen_tree(rng) if k == "tree" else {"data": hx(b"one")}
        ops = []
        cur = f          # the fields the live object holds at this point (for choosing legal edits); f stays the initial state
        for _ in range(rng.randrange(2, 12)):
            if k != "blob" and rng.random() < 0.12:
                ops.append(["reparse", gen_commit(rng, True) if k == "commit" else gen_tag(rng) if k == "tag" else gen_tree(rng)])
                cur = ops[-1][1]
            elif rng.random() < 0.5:
                if k == "commit":
                    name = rng.choice(["author", "committer", "message", "parents", "tree", "commit_time", "author_tz", "encoding", "gpgsig"])
                    val = {"author": ident(rng), "committer": ident(rng), "message": rng.choice([hx(b"m2\n"), hx(b"")]),
                           "parents": [h40(rng) for _ in range(rng.randrange(0, 3))], "tree": h40(rng), "commit_time": gen_time(rng),
                           "author_tz": rng.choice([0, 3600, -7200]), "encoding": rng.choice(["NONE", hx(b"latin1")]),
                           "gpgsig": rng.choice(["NONE", hx(PGP)])}[name]
                elif k == "tag":
                    name = rng.choice(["name", "object", "message", "tagger", "tag_time"])
                    val = {"name": hx(b"n%d" % rng.randrange(9)), "object": h40(rng), "message": hx(b"m\n"), "tagger": ident(rng), "tag_time": gen_time(rng)}[name]
                    if name in ("tagger", "tag_time") and cur.get("tagger") is None:
                        continue
                elif k == "tree":
                    name = rng.choice(["add", "add", "del"])
                    val = [hx(rng.choice(TREE_NAMES)), "%x" % rng.choice([0o100644, 0o40000]), h40(rng)] if name == "add" else hx(rng.choice(TREE_NAMES))
                else:
                    name = rng.choice(["data", "chunks"])
                    val = hx(rng.randbytes(5)) if name == "data" else [hx(rng.randbytes(3)) for _ in range(rng.randrange(1, 4))]
                ops.append(["set", name, val])
            else:
                ops.append([rng.choice(["id", "raw", "id256", "copy", "id"])])
        reqs.append({"fn": "edits", "kind": k, "fields": f, "ops": ops})
    # directed: an object holding optional headers is given the contents of one without them (and the reverse),
    # then one field is edited: nothing of the previous contents may survive
    for _ in range(6 if not thorough else 60):
        full_t, bare_t = gen_tag(rng), gen_tag(rng)
        tz = gen_tz(rng)
        full_t.update(tagger=ident(rng), tag_time=gen_time(rng), tag_tz=tz[0], tag_neg=tz[1], signature=hx(PGP + b"\n"))
        if unhx(full_t["message"]) and not unhx(full_t["message"]).endswith(b"\n"):
            full_t["message"] = hx(unhx(full_t["message"]) + b"\n")      # (a signature starts a line: see gen_tag)
        bare_t.update(tagger=None, signature="NONE")
        for k2 in ("tag_time", "tag_tz", "tag_neg"):
            bare_t.pop(k2, None)
        full_c, bare_c = gen_commit(rng, True), gen_commit(rng, True)
        full_c.update(encoding=hx(b"latin1"), gpgsig=hx(PGP))
        for k2 in ("encoding", "gpgsig", "mergetags", "extra"):
            bare_c.pop(k2, None)
        for kind, x, y in (("tag", full_t, bare_t), ("tag", bare_t, full_t), ("commit", full_c, bare_c), ("commit", bare_c, full_c)):
            reqs.append({"fn": "edits", "kind": kind, "fields": x, "ops": [["id"], ["reparse", y], ["raw"], ["set", "message", hx(b"edited\n")], ["raw"], ["id"]]})
    mlines = ["cache " + "".join({"set": "s", "id": "i", "raw": "r", "id256": "o", "copy": "i", "reparse": "w"}[o[0]] for o in q["ops"]) for q in reqs]
    mres = model.run(mlines)
    for q, r, m in zip(reqs, impl.run(reqs), mres):
        rep.case("edit-sequence-" + q["kind"], key=repr(q["ops"]), nontrivial=len(q["ops"]) > 2, sample={"kind": q["kind"], "ops": [o[:2] if o[0] != "reparse" else ["reparse"] for o in q["ops"]]})
        v = r.get("v") if isinstance(r, dict) else None
        if v is None:
            rep.fail("edits-worker", "edit sequence worker failed: %r" % (r,), {"kind": q["kind"], "ops": q["ops"]})
            continue
        # the model says every observation sees the current version
        if m and any(p.split(":")[0] != p.split(":")[1] for p in m.split(",") if p):
            rep.disagree("cache automaton theorem instance", {"ops": mlines[0]}, m, "all observations current")
        for op, res in zip(q["ops"], v):
            if res == "0":
                rep.fail("stale-after-edit:" + q["kind"], "after the edits the %s observation does not belong to the current field values" % op[0],
                         {"kind": q["kind"], "fields": q["fields"], "ops": q["ops"]})
                break
            if res.startswith("E:"):
                rep.fail("edit-raised", "an edit / observation (%s) raised %s" % (op[0], res), {"kind": q["kind"], "fields": q["fields"], "ops": q["ops"]})
                break


def replay(rep, body):
    run(rep)
