"""C18 — work tree round trip and status: sessions on a real work tree, git status / write-tree as oracle;
Model/Status.v for the status computation."""
from common import Model, Impl

PROP = "C18"
LEVEL = "proof"
NAMES = [b"a.txt", b"bin/run", b"d/e/f.c", b"sp ace", b"quo\"te", b"tab\there", b"\xff\xfe", b"\xc3\xa9t\xc3\xa9", b"d/g", b"z", b"dir/sub/deep/file", b"-dash", b"lnk", b"lnk2"]


def hx(b):
    return b.hex()


def gen_listing(rng, n):
    out, used = [], []
    for nm in rng.sample(NAMES, n):
        if any(nm.startswith(u + b"/") or u.startswith(nm + b"/") for u in used):
            continue
        used.append(nm)
        kind = rng.choice(["f", "f", "f", "x", "l"])
        out.append([hx(nm), kind, rng.randrange(1000), rng.choice([0, 1, 10, 100, 5000] + ([300000] if rng.random() < 0.05 else []))])
    return out


def gen_edits(rng, listing, k):
    paths = [bytes.fromhex(e[0]) for e in listing]
    eds = []
    for _ in range(k):
        p = rng.choice(paths)
        kind = rng.choice(["modify-same", "modify", "chmod", "delete", "create", "to-symlink", "to-file", "to-dir", "stage", "stage-all", "rm-cached", "unstage"])
        size = next(e[3] for e in listing if bytes.fromhex(e[0]) == p)
        if kind == "modify-same":
            eds.append(["modify", hx(p), rng.randrange(1000, 2000), size])
        elif kind == "modify":
            eds.append(["modify", hx(p), rng.randrange(1000, 2000), size + rng.randrange(1, 9)])
        elif kind == "create":
            eds.append(["create", hx(rng.choice([b"new", b"d/new", b"brand/new/file", b"un tracked"])), rng.randrange(1000), rng.choice([0, 5])])
        elif kind in ("to-symlink", "to-file", "to-dir"):
            eds.append([kind, hx(p), rng.randrange(1000), 7])
        elif kind == "stage-all":
            eds.append(["stage-all"])
        else:
            eds.append([kind, hx(p)])
    return eds


def names(hexes):
    return [bytes.fromhex(h).decode("latin1") for h in hexes]


def diffstat(a, b):
    return {k: (names(a.get(k, [])), names(b.get(k, []))) for k in ("add", "delete", "modify", "unstaged", "untracked") if a.get(k) != b.get(k)}


def _encode(snap, universe, ids):
    """a snapshot as the three listings of the model's line protocol; signatures: 7 = what the index recorded, 8 = anything else"""
    def num(h):
        return ids.setdefault(h, len(ids) + 1)
    pn = {p: i for i, p in enumerate(universe)}
    head = ",".join("%d:%d:%d" % (pn[p], m, num(h)) for p, (m, h) in sorted(snap["head"].items())) or "-"
    index = ",".join("%d:%d:%d:7" % (pn[p], m, num(h)) for p, (m, h, same) in sorted(snap["index"].items())) or "-"
    work = ",".join("%d:%d:%d:%d:%d" % (pn[p], m, num(h), 7 if (p in snap["index"] and snap["index"][p][2]) else 8, 1 if isdir else 0)
                    for p, (m, h, isdir) in sorted(snap["work"].items())) or "-"
    return head, index, work


def session_vs_model(rep, model, sessions):
    """every observed state of every session through Status/StatusSession: (a) the five listings porcelain.status gives are the
    model's for the observed (HEAD, index, work tree); (b) the index after add / add-all / rm --cached / unstage is the model's
    step applied to the state observed before"""
    lines, plan = [], []
    for case, r in sessions:
        snaps = [r.get("snap0")] + [st.get("snap") for st in r.get("steps", [])]
        if any(not isinstance(x, dict) or "exc" in x for x in snaps):
            bad = next(x for x in snaps if not isinstance(x, dict) or "exc" in x)
            rep.fail("snapshot-raised", "reading the index / work tree back raised: %r" % (bad,), case)
            continue
        # the hypothesis of the theorems, on every observed state: an index entry whose recorded signature is what lstat
        # gives now (so that the file is not read again) describes the content that is there
        for k, sn in enumerate(snaps):
            for p, (mo, h, same) in sn["index"].items():
                wk = sn["work"].get(p)
                if same and wk is not None and not wk[2] and wk[1] != h:
                    rep.fail("stat-cache-discipline-broken", "after step %d the index entry of %r carries the stat signature of the file on disk but another "
                             "content id (%s, the file holds %s): status will not read the file and call it unchanged" % (
                                 k - 1, bytes.fromhex(p).decode("latin1"), h[:8], wk[1][:8]),
                             dict(case, step=k - 1, edit=(r["steps"][k - 1]["edit"][:1] if k else None)))
                    break
        universe = sorted({p for sn in snaps for k in ("head", "index", "work") for p in sn[k]})
        raw = [bytes.fromhex(p) for p in universe]
        df = any(a != b and b.startswith(a + b"/") for a in raw for b in raw)
        pn = {p: i for i, p in enumerate(universe)}
        ids = {}
        allp = ".".join(str(i) for i in range(len(universe))) or "-"
        for k, st in enumerate(r.get("steps", []), start=1):
            if "exc" in st.get("dulwich", {}):
                continue
            h, i, w = _encode(snaps[k], universe, ids)
            lines.append("status 1 %s %s %s %s" % (h, i, w, allp))
            plan.append(("status", dict(case, step=k - 1, edit=st["edit"][:1]), st["dulwich"], universe, None))
            kind = st["edit"][0]
            if st.get("applied") is True and kind in ("stage", "stage-all", "rm-cached", "unstage") and not df:
                h0, i0, w0 = _encode(snaps[k - 1], universe, ids)
                if kind == "stage-all":
                    op = "stageall:" + allp
                else:
                    p = st["edit"][1]
                    if p not in pn:
                        continue
                    if kind == "stage":
                        isdir = snaps[k - 1]["work"].get(p, [0, 0, False])[2]
                        op = "stage:%d" % pn[p] if not isdir else "stageall:%d" % pn[p]
                    elif kind == "rm-cached":
                        op = "rmcached:%d" % pn[p]
                    else:
                        # the synthetic signature unstage records (commit time) is the file's only by accident: what was observed decides
                        same = snaps[k]["index"].get(p, [0, 0, False])[2]
                        op = "unstage:%d:%d" % (pn[p], 7 if same and (p in snaps[k - 1]["index"] and snaps[k - 1]["index"][p][2]) else 8 if same else 9)
                lines.append("step 1 %s %s %s %s %s" % (h0, i0, w0, allp, op))
                plan.append(("step", dict(case, step=k - 1, edit=st["edit"][:1], op=op), snaps[k], universe, ids))
    for (what, case, obs, universe, ids), m in zip(plan, model.run(lines)):
        if what == "status":
            got = {"add": [], "delete": [], "modify": [], "unstaged": [], "untracked": []}
            for item in m.split():
                pi, bits = item.split(":")
                for key, bit in zip(("add", "delete", "modify", "unstaged", "untracked"), bits):
                    if bit == "1":
                        got[key].append(universe[int(pi)])
            got = {k: sorted(v) for k, v in got.items()}
            rep.case("status-vs-model", key=repr((case.get("trees"), case.get("edits"), case["step"])), nontrivial=True)
            if got != {k: sorted(v) for k, v in obs.items()}:
                rep.disagree("porcelain.status vs Status listings on the observed state", case, diffstat(got, obs), "(model, dulwich)")
        else:
            want = {}
            for p, (mo, h, same) in obs["index"].items():
                want[p] = "%d:%d:%d" % (mo, ids.get(h, -1), 1 if same else 0)
            got = {}
            for item in m.split():
                f = item.split(":")
                if f[1] != "-":
                    got[universe[int(f[0])]] = "%s:%s:%s" % (f[1], f[2], f[3])
            rep.case("index-step-vs-model", key=repr((case.get("trees"), case.get("edits"), case["step"])), nontrivial=True)
            # (whether the recorded signature is the file's is compared only where the model says it is: a freshly staged entry)
            norm = lambda d_: {p: v.rsplit(":", 1)[0] for p, v in d_.items()}
            if norm(got) != norm(want) or any(got[p].endswith(":1") and not want[p].endswith(":1") for p in got if p in want and case["op"].startswith("stage")):
                rep.disagree("index after %s vs StatusSession.step" % case["edit"][0], case,
                             {bytes.fromhex(p).decode("latin1"): v for p, v in got.items() if want.get(p) != v},
                             {bytes.fromhex(p).decode("latin1"): v for p, v in want.items() if got.get(p) != v})


def run(rep):
    rng = rep.rng
    thorough = rep.tier == "thorough"
    rep.extra["rule"] = ("trees over names with spaces, quotes, tabs, non-UTF-8 bytes, nested directories; regular files (empty, small, 300 KB), "
                         "executables, symlinks (dangling); reset --hard to the tree: files / link targets / exec bits must match, status clean "
                         "(dulwich and git), staging everything reproduces the tree id (dulwich and git write-tree); then up to 8 edits from "
                         "{modify same size / other size, chmod, delete, create untracked, file->symlink, symlink->file, file->directory, "
                         "stage one, stage all, rm --cached, unstage} with porcelain.status compared with git status --porcelain=v1 -z after "
                         "each; switches between every ordered pair of a family of 3 trees from a clean state.  distinct non-trivial = sessions")
    rep.trusted += ["C git 2.39.5 status / add / write-tree as oracle (GIT_OPTIONAL_LOCKS=0)"]
    impl = Impl(PROP, case_timeout=600)
    model = Model(PROP)
    # ---- the unstaged check on one entry: every combination of (filemode, index mode/content, stat signature equal or not, file absent / present with mode and content / a directory)
    items, lines = [], []
    for fm in (1, 0):
        for imode in (0o100644, 0o100755):
            for iid in (1, 2):
                for same in (True, False):
                    for w in [None, [0o40000, 0, True]] + [[m, c, False] for m in (0o100644, 0o100755) for c in (1, 2)]:
                        items.append([fm, imode, iid, same, w])
                        lines.append("check %d %d %d %d %s" % (fm, imode, iid, 7, "- 0 0 0" if w is None else "%d %d %d %d" % (w[0], w[1], 7 if same else 8, 1 if w[2] else 0)))
    r = impl.run([{"fn": "check_entries", "items": items}])[0]
    got = r.get("v") or ["worker:" + str(r)[:80]] * len(items)
    for it, ln, m, g in zip(items, lines, model.run(lines), got):
        rep.case("check-entry", key=repr(it), nontrivial=it[4] is not None)
        if it[0] == 0 and not r.get("has_filemode_parameter"):
            continue        # the implementation has no way to be told core.filemode = false
        if m != g:
            case = {"core.filemode": bool(it[0]), "index_mode": "%o" % it[1], "index_content": it[2], "stat_unchanged": it[3],
                    "file": None if it[4] is None else {"mode": "%o" % it[4][0], "content": it[4][1]}}
            rep.disagree("_check_entry_for_changes vs Status.check_entry", case, m, g)
    reqs = []
    for k in range(40 if not thorough else 800):
        t0 = gen_listing(rng, rng.randrange(2, 8))
        reqs.append({"fn": "session", "trees": [t0], "edits": gen_edits(rng, t0, rng.randrange(1, 9)), "switches": []})
    # directed: the index operations right after a modification that keeps the size (what a signature taken from the file
    # on disk, instead of from what was hashed, would hide)
    for tail in (["unstage"], ["stage", "unstage"], ["stage"], ["rm-cached"], ["stage-all", "unstage"]):
        t0 = [[hx(b"f"), "f", 1, 10], [hx(b"g"), "x", 2, 100]]
        eds = [["modify", hx(b"f"), 1500, 10]] + [[k, hx(b"f")] if k != "stage-all" else ["stage-all"] for k in tail] + [["modify", hx(b"f"), 1501, 10]]
        reqs.append({"fn": "session", "trees": [t0], "edits": eds, "switches": []})
    for k in range(12 if not thorough else 200):
        fam = [gen_listing(rng, rng.randrange(2, 7)) for _ in range(3)]
        # make the family collide: a name that is a file in one tree and a directory / symlink in another
        if rng.random() < 0.7:
            fam[1].append([hx(b"a.txt/inner"), "f", 1, 5]) if not any(bytes.fromhex(e[0]) == b"a.txt" or bytes.fromhex(e[0]).startswith(b"a.txt/") for e in fam[1]) else None
            fam[0].append([hx(b"a.txt"), "f", 2, 5]) if not any(bytes.fromhex(e[0]) == b"a.txt" or bytes.fromhex(e[0]).startswith(b"a.txt/") for e in fam[0]) else None
            fam[2].append([hx(b"a.txt"), "l", 3, 0]) if not any(bytes.fromhex(e[0]) == b"a.txt" or bytes.fromhex(e[0]).startswith(b"a.txt/") for e in fam[2]) else None
        if k % 2 == 0:
            # the second tree is the first with some executable bits flipped and nothing else changed
            fam[1] = [[p, {"f": "x", "x": "f"}.get(kd, kd) if rng.random() < 0.6 else kd, sd, sz] for p, kd, sd, sz in fam[0]]
        reqs.append({"fn": "session", "trees": fam, "edits": [], "switches": [[i, j] for i in range(3) for j in range(3) if i != j]})
    results = impl.run(reqs)
    sessions = []
    for q, r in zip(reqs, results):
        case = {"trees": [[(bytes.fromhex(p).decode("latin1"), k, sd, sz) for p, k, sd, sz in t] for t in q["trees"]], "edits": [[e[0]] + ([bytes.fromhex(e[1]).decode("latin1")] if len(e) > 1 else []) for e in q["edits"]]}
        if q["edits"] and isinstance(r, dict) and "snap0" in r:
            sessions.append((case, r))
    session_vs_model(rep, model, sessions)
    for q, r in zip(reqs, results):
        case = {"trees": [[(bytes.fromhex(p).decode("latin1"), k, sd, sz) for p, k, sd, sz in t] for t in q["trees"]], "edits": [[e[0]] + ([bytes.fromhex(e[1]).decode("latin1")] if len(e) > 1 else []) for e in q["edits"]]}
        rep.case("session", key=repr(q), nontrivial=True, sample=case)
        if "checkout" not in r:
            rep.fail("session-worker", "session failed: %r" % (r,), case)
            continue
        if r["checkout"] != "ok":
            rep.fail("checkout-raised", "reset --hard to the first tree raised %s" % r["checkout"], case)
            continue
        if not r["wt_ok"]:
            rep.fail("checkout-wrong-content", "after checkout the work tree differs from the tree at %s" % r.get("wt_diff"), case)
        empty = {"add": [], "delete": [], "modify": [], "unstaged": [], "untracked": []}
        if r["git_clean"] != empty:
            rep.fail("git-status-not-clean-after-checkout", "git status after dulwich's checkout: %s" % diffstat(r["git_clean"], empty), case)
        if r["clean"] != empty:
            rep.fail("status-not-clean-after-checkout", "porcelain.status right after checkout reports %s" % {k: names(v) for k, v in r["clean"].items() if v}, case)
        if r.get("restaged_tree") is not True:
            rep.fail("restage-differs", "staging the checked-out files again gives %s instead of the same tree" % r.get("restaged_tree"), case)
        if r.get("git_write_tree") is not True:
            rep.fail("git-write-tree-differs", "git add -A && git write-tree on dulwich's checkout: %s" % r.get("git_write_tree"), case)
        for i, st in enumerate(r["steps"]):
            c2 = dict(case, step=i, edit=st["edit"][:1] + ([bytes.fromhex(st["edit"][1]).decode("latin1")] if len(st["edit"]) > 1 else []))
            if isinstance(st["applied"], str):
                rep.fail("edit-raised:" + st["edit"][0], "%s raised %s" % (st["edit"][0], st["applied"]), c2)
            if "exc" in st["dulwich"]:
                rep.fail("status-raised", "porcelain.status raised %s" % st["dulwich"]["exc"], c2)
            elif "err" in st["git"]:
                rep.note("git status failed: %s" % st["git"]["err"][:80])
            elif st["dulwich"] != st["git"]:
                d = diffstat(st["dulwich"], st["git"])
                du, gu = set(st["dulwich"].get("unstaged", [])), set(st["git"].get("unstaged", []))
                truth = st.get("truth") or {}
                if sorted(d) == ["unstaged"] and not (gu - du) and all(truth.get(x) == "changed" for x in du - gu):
                    # dulwich is right about these paths; git is fooled by an index dulwich rewrote without smudging
                    # racily clean entries (same size, same second): the recorded finding, met on a random session
                    rep.fail("corpus:racily-clean-entries-not-smudged", "git misses %s, really modified; dulwich reports them (git's view of the index dulwich wrote)" % sorted(bytes.fromhex(x).decode("latin1") for x in du - gu), c2)
                else:
                    rep.fail("status-differs-from-git:" + "+".join(sorted(d)), "porcelain.status vs git status (dulwich, git): %s" % d, c2)
        for sw in r.get("switches", []):
            c2 = dict(case, switch=(sw["from"], sw["to"]))
            if "exc" in sw:
                rep.fail("switch-raised", "checkout from tree %d to tree %d raised %s" % (sw["from"], sw["to"], sw["exc"]), c2)
                continue
            if not sw["wt_ok"]:
                rep.fail("switch-wrong-content", "after switching %d -> %d the work tree differs at %s" % (sw["from"], sw["to"], sw.get("diff")), c2)
            if sw.get("index_tree_ok") is False:
                rep.fail("switch-index-wrong", "after switching %d -> %d the index does not hold the target tree" % (sw["from"], sw["to"]), c2)
            if sw["status"] != empty:
                rep.fail("switch-not-clean", "status after switching %d -> %d: %s" % (sw["from"], sw["to"], {k: names(v) for k, v in sw["status"].items() if v}), c2)


def replay(rep, body):
    run(rep)
