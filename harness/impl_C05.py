"""Implementation side of C05: MissingObjectFinder on random histories; whole transfers between repositories."""
import hashlib, io, os, random, shutil, subprocess, tempfile
import impl_C10 as G
from dulwich.object_store import MissingObjectFinder
from dulwich.objects import Blob, Commit, Tag, Tree
from dulwich.repo import Repo

GIT_ENV = dict(os.environ, GIT_CONFIG_NOSYSTEM="1", HOME="/nonexistent", GIT_CONFIG_GLOBAL="/dev/null")


def _spec(objs, deps):
    num = {o.id: i for i, o in enumerate(objs)}
    out = []
    for o in objs:
        if isinstance(o, Commit):
            out.append("%d:c:%s:%s" % (num[o.id], ".".join(str(num[p]) for p in o.parents), num[o.tree]))
        elif isinstance(o, Tag):
            out.append("%d:t%d::%d" % (num[o.id], num[o.object[1]], num[o.object[1]]))
        elif isinstance(o, Tree):
            out.append("%d:o::%s" % (num[o.id], ".".join(str(num[e.sha]) for e in o.iteritems() if e.mode != 0o160000)))
        else:
            out.append("%d:o::" % num[o.id])
    return num, ";".join(out)


def _closure(deps, roots):
    seen, todo = set(), list(roots)
    while todo:
        x = todo.pop()
        if x in seen:
            continue
        seen.add(x)
        todo += deps.get(x, [])
    return seen


def mof(req):
    rng, objs, commits, trees, blobs, tags, deps = G.build_objects(req["seed"], req["n"], inrepo_gitlinks=True)
    from dulwich.object_store import MemoryObjectStore
    store = MemoryObjectStore()
    for o in objs:
        store.add_object(o)
    num, spec = _spec(objs, deps)
    out = []
    r2 = random.Random(req["seed"] + 1)
    for _ in range(req["queries"]):
        heads = commits + tags
        wants = [x.id for x in r2.sample(heads, min(len(heads), r2.randrange(1, 3)))]
        # haves: complete sub-histories (the receiver has the closure of each); sometimes an id the sender does not know
        haves = [x.id for x in r2.sample(heads, min(len(heads), r2.randrange(0, 3)))]
        unknown = r2.random() < 0.2
        hv = haves + ([hashlib.sha1(b"unknown").hexdigest().encode()] if unknown else [])
        try:
            sent = [sha for sha, _ in MissingObjectFinder(store, hv, wants)]
            got = ".".join(map(str, sorted(num[s] for s in sent))) or "_"
            dup = len(sent) != len(set(sent))
        except Exception as e:  # noqa: BLE001
            got, dup = "exc:" + type(e).__name__ + ":" + str(e)[:60], False
        recv = _closure(deps, haves)
        need = _closure(deps, wants)
        sset = set(sent) if not got.startswith("exc") else set()
        out.append({"haves": ".".join(str(num[h]) for h in haves) or "_", "wants": ".".join(str(num[w]) for w in wants), "got": got, "dup": dup,
                    "incomplete": sorted(num[x] for x in need - recv - sset)[:5], "outside": sorted(num[x] for x in sset - need)[:5],
                    "resent": len(sset & recv)})
    return {"spec": spec, "queries": out, "n": len(objs)}


HANDLERS = {"mof": mof}


# ---------- whole transfers ----------
def _populate(repo, objs):
    repo.object_store.add_objects([(o, None) for o in objs])


def transfer(req):
    """sender holds a random history; the receiver holds the closure of some heads; one transfer of some wanted heads"""
    from dulwich.client import LocalGitClient, SubprocessGitClient
    rng, objs, commits, trees, blobs, tags, deps = G.build_objects(req["seed"], req["n"], inrepo_gitlinks=True)
    byid = {o.id: o for o in objs}
    r2 = random.Random(req["seed"] + 7)
    heads = commits + tags
    wants = [x.id for x in r2.sample(heads, min(len(heads), r2.randrange(1, 3)))]
    haves = [x.id for x in r2.sample(heads, min(len(heads), r2.randrange(0, 3)))] if req["mode"] != "clone" else []
    have_closure = _closure(deps, haves)
    want_closure = _closure(deps, wants)
    base = tempfile.mkdtemp(prefix="verif-c05-", dir=os.environ.get("VERIF_SCRATCH") or None)
    try:
        src = Repo.init_bare(os.path.join(base, "src.git"), mkdir=True)
        dst = Repo.init_bare(os.path.join(base, "dst.git"), mkdir=True)
        mode = req["mode"]
        push = mode.endswith("push") or mode == "git-receive-pack"
        sender, receiver = (src, dst)
        _populate(sender, objs)
        if have_closure:
            _populate(receiver, [byid[i] for i in have_closure])
        names = {}
        for i, w in enumerate(wants):
            nm = (b"refs/tags/w%d" % i) if isinstance(byid[w], Tag) else (b"refs/heads/w%d" % i)
            sender.refs[nm] = w
            names[nm] = w
        for i, h in enumerate(haves):
            nm = (b"refs/tags/h%d" % i) if isinstance(byid[h], Tag) else (b"refs/heads/h%d" % i)
            receiver.refs[nm] = h
            sender.refs[nm] = h
        if req.get("pack_sender"):
            sender.object_store.pack_loose_objects()
        before = set(receiver.object_store)
        res = {"mode": mode, "wants": len(wants), "haves": len(haves)}
        try:
            if mode in ("local-fetch", "clone"):
                c = LocalGitClient()
                c.fetch(sender.path, receiver, determine_wants=lambda refs, depth=None: [v for k, v in refs.items() if k in names])
            elif mode == "git-upload-pack":
                c = SubprocessGitClient()
                c.fetch(sender.path, receiver, determine_wants=lambda refs, depth=None: [v for k, v in refs.items() if k in names])
            elif mode == "local-push":
                c = LocalGitClient()
                c.send_pack(receiver.path, lambda refs: dict(names), generate_pack_data=sender.generate_pack_data)
            elif mode == "git-receive-pack":
                c = SubprocessGitClient()
                c.send_pack(receiver.path, lambda refs: dict(names), generate_pack_data=sender.generate_pack_data)
            elif mode in ("git-client-tcp-fetch", "dulwich-client-tcp-fetch", "git-client-tcp-push", "dulwich-client-tcp-push"):
                import threading
                from dulwich.client import TCPGitClient
                from dulwich.server import DictBackend, TCPGitServer
                served = receiver if mode.endswith("push") else sender
                srv = TCPGitServer(DictBackend({b"/": served}), b"localhost", 0)
                port = srv.server_address[1]
                th = threading.Thread(target=srv.serve_forever, daemon=True)
                th.start()
                try:
                    if mode == "git-client-tcp-fetch":
                        p = subprocess.run(["git", "--git-dir", receiver.path, "fetch", "-q", "git://localhost:%d/" % port] + ["%s:%s" % (k.decode(), k.decode()) for k in names],
                                           env=GIT_ENV, capture_output=True, timeout=120)
                        if p.returncode:
                            raise RuntimeError(p.stderr.decode("latin1")[-200:])
                    elif mode == "dulwich-client-tcp-fetch":
                        c = TCPGitClient("localhost", port=port)
                        c.fetch(b"/", receiver, determine_wants=lambda refs, depth=None: [v for k, v in refs.items() if k in names])
                    elif mode == "git-client-tcp-push":
                        p = subprocess.run(["git", "--git-dir", sender.path, "push", "-q", "git://localhost:%d/" % port] + ["%s:%s" % (k.decode(), k.decode()) for k in names],
                                           env=GIT_ENV, capture_output=True, timeout=120)
                        if p.returncode:
                            raise RuntimeError(p.stderr.decode("latin1")[-200:])
                    else:
                        c = TCPGitClient("localhost", port=port)
                        c.send_pack(b"/", lambda refs: dict(names), generate_pack_data=sender.generate_pack_data)
                finally:
                    srv.shutdown()
                    srv.server_close()
            elif mode == "git-fetches-from-dulwich-files":
                # C git reading the repository dulwich wrote (packs, loose objects, refs) as a plain file remote
                p = subprocess.run(["git", "--git-dir", receiver.path, "fetch", "-q", sender.path] + ["%s:%s" % (k.decode(), k.decode()) for k in names],
                                   env=GIT_ENV, capture_output=True)
                if p.returncode:
                    raise RuntimeError(p.stderr.decode("latin1")[-200:])
            res["result"] = "ok"
        except Exception as e:  # noqa: BLE001
            res["result"] = "exc:" + type(e).__name__ + ":" + str(e)[:120]
            return res
        receiver.close()
        receiver = Repo(os.path.join(base, "dst.git"))
        after = set(receiver.object_store)
        missing, differ = [], []
        for oid in want_closure:
            if oid not in byid:
                continue
            try:
                got = receiver.object_store[oid]
                if got.as_raw_string() != byid[oid].as_raw_string() or got.type_name != byid[oid].type_name:
                    differ.append(oid.decode()[:8])
            except KeyError:
                missing.append(oid.decode()[:8])
        new = after - before
        tagged_extra = {t.id for t in tags if t.object[1] in want_closure | have_closure}       # tags a server may follow automatically
        outside = [x.decode()[:8] for x in new if x not in want_closure and x not in tagged_extra]
        res.update(missing=sorted(missing)[:5], differ=differ[:5], outside=sorted(outside)[:5], new=len(new), resent=len([x for x in new if x in have_closure]))
        fs = subprocess.run(["git", "--git-dir", receiver.path, "fsck", "--connectivity-only"], env=GIT_ENV, capture_output=True)
        res["fsck"] = 0 if fs.returncode == 0 else (fs.stdout + fs.stderr).decode("latin1")[-200:]
        sender.close()
        receiver.close()
        return res
    finally:
        shutil.rmtree(base, ignore_errors=True)


HANDLERS["transfer"] = transfer


def shallow_transfer(req):
    """a receiver that starts as a depth-limited fetch of one head and then fetches other heads the ordinary way: after each
    step everything reachable from the fetched heads down to the receiver's shallow boundary must be there"""
    from dulwich.client import LocalGitClient, SubprocessGitClient
    rng, objs, commits, trees, blobs, tags, deps = G.build_objects(req["seed"], req["n"], inrepo_gitlinks=True)
    byid = {o.id: o for o in objs}
    r2 = random.Random(req["seed"] + 11)
    first = r2.choice(commits[len(commits) // 2:])
    later = [x.id for x in r2.sample(commits, min(len(commits), r2.randrange(1, 3)))]
    depth = r2.choice([1, 1, 2, 3])
    base = tempfile.mkdtemp(prefix="verif-c05s-", dir=os.environ.get("VERIF_SCRATCH") or None)
    try:
        src = Repo.init_bare(os.path.join(base, "src.git"), mkdir=True)
        dst = Repo.init_bare(os.path.join(base, "dst.git"), mkdir=True)
        _populate(src, objs)
        src.refs[b"refs/heads/first"] = first.id
        for i, w in enumerate(later):
            src.refs[b"refs/heads/later%d" % i] = w
        if req.get("pack_sender"):
            src.object_store.pack_loose_objects()
        mode = req["mode"]
        res = {"mode": mode, "depth": depth, "steps": []}

        def client():
            return SubprocessGitClient() if mode == "git-upload-pack" else LocalGitClient()

        def audit(heads):
            shallow = set(dst.get_shallow())
            missing, todo, seen = [], list(heads), set()
            while todo:
                x = todo.pop()
                if x in seen:
                    continue
                seen.add(x)
                try:
                    o = dst.object_store[x]
                except KeyError:
                    missing.append(x.decode()[:8])
                    continue
                if o.as_raw_string() != byid[x].as_raw_string():
                    missing.append("differs:" + x.decode()[:8])
                if isinstance(o, Commit):
                    todo.append(o.tree)
                    if x not in shallow:
                        todo += o.parents
                elif isinstance(o, Tree):
                    todo += [e.sha for e in o.iteritems() if e.mode != 0o160000]
            fs = subprocess.run(["git", "--git-dir", dst.path, "fsck", "--connectivity-only"], env=GIT_ENV, capture_output=True)
            return {"missing": sorted(missing)[:5], "shallow": len(shallow), "objects": len(seen),
                    "fsck": 0 if fs.returncode == 0 else (fs.stdout + fs.stderr).decode("latin1")[-200:]}
        try:
            r = client().fetch(src.path, dst, determine_wants=lambda refs, depth=None: [first.id], depth=depth)
            dst.refs[b"refs/heads/first"] = first.id
            res["steps"].append(dict(audit([first.id]), step="shallow"))
            r = client().fetch(src.path, dst, determine_wants=lambda refs, depth=None: [w for w in later if w not in dst.object_store or True])
            for i, w in enumerate(later):
                dst.refs[b"refs/heads/later%d" % i] = w
            res["steps"].append(dict(audit([first.id] + later), step="ordinary"))
            res["result"] = "ok"
        except Exception as e:  # noqa: BLE001
            res["result"] = "exc:" + type(e).__name__ + ":" + str(e)[:120]
        src.close()
        dst.close()
        return res
    finally:
        shutil.rmtree(base, ignore_errors=True)


HANDLERS["shallow_transfer"] = shallow_transfer
