"""C14, the peeled values cached in packed-refs: sequences of loose writes, deletions, add_packed_refs, pack_refs and
git pack-refs on a real repository against Model/PeeledCache.v; and the property itself on every answer: a cached
peeled value is the peeled value of what the ref currently is."""
from common import Model, Impl

PROP = "C14"
PEEL = {1: 1, 2: 2, 11: 1, 12: 2, 13: 1}
VALS = [1, 2, 11, 12, 13]


def gen(rng, n):
    ops = []
    for _ in range(n):
        k = rng.choice("sssddapppgg")
        # (refs/heads/x, ref 2, only ever names commits: for a branch without a ^ line git does not take a "peeled" header's word)
        val = lambda r: rng.choice([1, 2]) if r == 2 else rng.choice(VALS)
        if k == "s":
            r0 = rng.randrange(4)
            ops.append(["s", r0, val(r0)])
        elif k == "d":
            ops.append(["d", rng.randrange(4)])
        elif k == "a":
            ops.append(["a", [[r, val(r)] for r in rng.sample(range(4), rng.randrange(1, 3))]])
        else:
            ops.append([k])
    return ops


def run(rep):
    rng = rep.rng
    thorough = rep.tier == "thorough"
    impl = Impl(PROP, case_timeout=300)
    model = Model(PROP)
    seqs = [
        [["s", 0, 11], ["g"], ["s", 0, 12], ["p"]],                    # a packed annotated tag moved and packed again
        [["s", 0, 11], ["p"]],                                           # a newly packed annotated tag
        [["s", 0, 1], ["g"], ["s", 0, 11]],                              # a packed lightweight tag overridden by an annotated one
        [["s", 0, 13], ["g"], ["a", [[1, 12]]], ["d", 1]],               # only a deletion after git's file: the header may stay
        [["s", 0, 11], ["s", 1, 2], ["g"], ["d", 1], ["s", 0, 11], ["p"]],
    ]
    for _ in range(60 if not thorough else 1500):
        seqs.append(gen(rng, rng.randrange(2, 9)))
    table = ",".join("%d=%d" % kv for kv in sorted(PEEL.items()))
    fmt = lambda o: {"s": lambda: "s%d=%d" % (o[1], o[2]), "d": lambda: "d%d" % o[1], "a": lambda: "a" + ",".join("%d=%d" % (a, v) for a, v in o[1]),
                     "p": lambda: "p", "g": lambda: "g"}[o[0]]()
    ires = impl.run([{"fn": "peeled_session", "ops": s} for s in seqs])
    mres = model.run(["peel %s 4 %s" % (table, ";".join(fmt(o) for o in s)) for s in seqs])
    for s, r, m in zip(seqs, ires, mres):
        case = {"ops": [fmt(o) for o in s]}
        rep.case("peeled-cache", key=repr(s), nontrivial=any(o[0] in "pga" for o in s), sample=case)
        if not isinstance(r, dict) or "steps" not in r:
            rep.fail("peeled-worker", "session failed: %r" % (r,), case)
            continue
        msteps = m.split(" ")
        plain = True        # so far dulwich has put only plain values into packed-refs (the theorem's hypothesis)
        for k, (st, ms) in enumerate(zip(r["steps"], msteps)):
            c2 = dict(case, step=k)
            if st["err"]:
                rep.fail("peeled-op-raised", "%s raised %s" % (fmt(s[k]), st["err"]), c2)
                break
            flag, ms = ms.split("|", 1)
            plain = plain and flag == "P"
            want = [[None if a == "-" else int(a), None if b == "-" else int(b)] for a, b in (x.split(":") for x in ms.split(","))]
            for who in ("same", "fresh"):
                if st[who] != want:
                    rep.disagree("get_peeled / refs (%s container) vs PeeledCache.step" % who, c2, want, st[who])
                    break
                # the property: a cached peeled value is right
                for ref, (cur, gp) in enumerate(st[who]):
                    if gp is not None and (cur is None or PEEL.get(cur) != gp):
                        # outside the hypothesis (a tag value packed by dulwich) this is the recorded finding
                        rep.fail("peeled-value-wrong" if plain else "corpus:pack-refs-wrong-peel-lines",
                                 "get_peeled(ref %d) = %s while the ref is %s, which peels to %s" % (ref, gp, cur, PEEL.get(cur)), c2)
