"""C06, the status report on the wire: ReceivePackHandler._report_status and the client's ReportStatusParser against
Model/ReportStatus.v — the packets the server writes for a list of statuses (plain and inside side-band-64k), what the
client makes of them, and what the client makes of packets no dulwich server writes."""
from common import Model, Impl, hx

PROP = "C06"
REFS = [b"refs/heads/a", b"refs/heads/main", b"HEAD", b"refs/tags/v1.0", b"refs/heads/\xc3\xa9", b"ok", b"ng", b"refs/heads/a.b-c_d"]
MSGS = [b"failed to update ref", b"missing necessary objects", b"funny refname", b"atomic push failed", b"x", b"a  b", b"non-fast-forward (hint: fetch first)",
        b"\xc3\xa9chec"]


def run(rep):
    rng = rep.rng
    thorough = rep.tier == "thorough"
    impl = Impl(PROP, case_timeout=120)
    model = Model(PROP)
    # ---- what the server writes and what the client reads back
    reqs, lines = [], []
    for _ in range(60 if not thorough else 1500):
        unpack = rng.choice([b"ok", b"ok", b"error: index-pack failed", b"pre-receive hook declined"])
        refs = []
        for r in rng.sample(REFS, rng.randrange(0, 5)):
            refs.append((r, None if rng.random() < 0.5 else rng.choice(MSGS)))
        status = [[hx(b"unpack"), hx(unpack)]] + [[hx(r), hx(b"ok" if m is None else m)] for r, m in refs]
        reqs.append({"fn": "report_status", "status": status, "_unpack": unpack, "_refs": refs})
        lines.append("rsfmt %s %s" % (hx(unpack), ",".join("%s:%s" % (hx(r), "-" if m is None else hx(m)) for r, m in refs) or "_"))
    ires = impl.run([{k: v for k, v in q.items() if not k.startswith("_")} for q in reqs])
    for q, r, m in zip(reqs, ires, model.run(lines)):
        case = {"unpack": q["_unpack"].decode("latin1"), "refs": [(a.decode("latin1"), None if b is None else b.decode("latin1")) for a, b in q["_refs"]]}
        rep.case("report-status", key=repr(case), nontrivial=bool(q["_refs"]), sample=case)
        if not isinstance(r, dict) or "plain" not in r:
            rep.fail("report-worker", "report worker failed: %r" % (r,), case)
            continue
        mpk, mparsed = m.split(" ", 1)
        want = [[hx(a), None if b is None else hx(b)] for a, b in q["_refs"]]
        for mode in ("plain", "sideband"):
            x = r[mode]
            if ",".join(x["packets"]) != mpk:
                rep.disagree("_report_status (%s) vs ReportStatus.report" % mode, case, mpk[:300], ",".join(x["packets"])[:300])
            got = "exc" if "exc" in x else "%s|%s" % (x["unpack"], ",".join("%s:%s" % (a, "-" if b is None else b) for a, b in x["entries"]) or "_")
            if q["_unpack"] != b"ok":
                # the client raises SendPackError on a failed unpack before it looks at the refs
                if "exc" not in x:
                    rep.fail("unpack-failure-not-raised", "the client did not raise for the unpack status %r" % q["_unpack"], case)
                continue
            if got != mparsed:
                rep.disagree("ReportStatusParser (%s) vs ReportStatus.parse_report" % mode, case, mparsed[:300], got[:300])
            if "exc" in x or x["entries"] != want:
                rep.fail("status-report-garbled", "the statuses the client reports (%s) are not the ones the server was given" % (x.get("entries") or x.get("exc")), case)
    # ---- packets no dulwich server writes: every small variation of a status line
    pk = []
    for body in (b"ok refs/heads/a", b"ng refs/heads/a why", b"ng refs/heads/a", b"ng refs/heads/a ", b"ok", b"ng", b"", b" ", b"zz refs/heads/a", b"OK refs/heads/a",
                 b"ok  refs/heads/a", b"  ok refs/heads/a  ", b"ok refs/heads/a b c", b"ng a b c d", b"ok\trefs/heads/a", b"ng refs/heads/a\twhy", b"okrefs/heads/a",
                 b"ng  refs/heads/a why", b"ok refs/heads/a\r", b"\x0bok refs/heads/a\x0c"):
        for tail in (b"\n", b"", b"\r\n"):
            pk.append(body + tail)
    for _ in range(100 if not thorough else 3000):
        pk.append(bytes(rng.choice(b"okng \t\nrefs/hadx") for _ in range(rng.randrange(0, 14))))
    ires = impl.run([{"fn": "parse_packets", "packets": [hx(b"unpack ok\n"), hx(p)]} for p in pk])
    for p, r, m in zip(pk, ires, model.run(["rsparse %s" % hx(p) for p in pk])):
        case = {"packet": p.decode("latin1")}
        rep.case("status-packet", key=p, nontrivial=b" " in p.strip(), outcome=m.split(" ")[0], sample=case)
        if not isinstance(r, dict):
            rep.fail("report-worker", "parser worker failed: %r" % (r,), case)
            continue
        if "exc" in r:
            got = {"ValueError": "crash", "GitProtocolError": "bad"}.get(r["exc"], "exc:" + r["exc"])
        elif not r["entries"]:
            got = "skip"
        else:
            got = "entry %s %s" % (r["entries"][0][0], "-" if r["entries"][0][1] is None else r["entries"][0][1])
        if got != m:
            rep.disagree("ReportStatusParser.check vs ReportStatus.parse_status", case, m, got)
