"""Build steps shared by every check: Coq tree, per-property extraction + OCaml
runner, Rust extensions rebuilt from /repo's working tree.  All steps are
incremental and serialised by a file lock so checks may run in parallel."""
import fcntl, glob, hashlib, os, re, shutil, subprocess, sys, time

VERIF = os.path.dirname(os.path.dirname(os.path.abspath(__file__)))
REPO = os.environ.get("VERIF_REPO", "/repo")
COQ = os.path.join(VERIF, "coq")
BUILD = os.path.join(VERIF, "build")
RUSTEXT = os.path.join(BUILD, "rustext")
PY = "/venv/bin/python"

FORBIDDEN = re.compile(
    r"\b(Admitted|admit|Axiom|Axioms|Parameter|Parameters|Conjecture|Abort All|"
    r"Admit Obligations|bypass_check|Unset Guard Checking|Unset Positivity Checking|"
    r"Unset Universe Checking|type-in-type|impredicative-set)\b")
ALLOWED_AXIOMS = {
    "functional_extensionality_dep", "proof_irrelevance", "classic", "JMeq_eq",
    "eq_rect_eq", "Eqdep.Eq_rect_eq.eq_rect_eq",
}


class lock:
    def __init__(self, name="build"):
        os.makedirs(BUILD, exist_ok=True)
        self.path = os.path.join(BUILD, "." + name + ".lock")

    def __enter__(self):
        self.f = open(self.path, "w")
        fcntl.flock(self.f, fcntl.LOCK_EX)

    def __exit__(self, *a):
        fcntl.flock(self.f, fcntl.LOCK_UN)
        self.f.close()


def sh(cmd, cwd=None, timeout=1800, env=None):
    e = dict(os.environ)
    if env:
        e.update(env)
    p = subprocess.run(cmd, cwd=cwd, shell=isinstance(cmd, str), stdout=subprocess.PIPE,
                       stderr=subprocess.STDOUT, timeout=timeout, env=e)
    return p.returncode, p.stdout.decode("utf-8", "replace")


def coq_sources():
    out = []
    for d in ("Base", "Model", "Proofs", "Props"):
        out += sorted(glob.glob(os.path.join(COQ, d, "*.v")))
    return [os.path.relpath(p, COQ) for p in out]


def scan_forbidden():
    """Fail closed on any axiom-declaring or check-disabling vernacular."""
    hits = []
    for rel in coq_sources() + [os.path.relpath(p, COQ) for p in glob.glob(os.path.join(COQ, "Extract", "*.v"))]:
        txt = open(os.path.join(COQ, rel)).read()
        # strip comments (nested) before scanning
        depth, buf, i = 0, [], 0
        while i < len(txt):
            if txt.startswith("(*", i):
                depth += 1; i += 2
            elif txt.startswith("*)", i) and depth:
                depth -= 1; i += 2
            else:
                if depth == 0:
                    buf.append(txt[i])
                i += 1
        for m in FORBIDDEN.finditer("".join(buf)):
            hits.append("%s: %s" % (rel, m.group(0)))
        code = "".join(buf)
        # Variable/Hypothesis outside a section
        secdepth = 0
        for line in code.split("\n"):
            s = line.strip()
            if re.match(r"Section\s+\w+", s):
                secdepth += 1
            elif re.match(r"End\s+\w+", s) and secdepth:
                secdepth -= 1
            elif re.match(r"(Variable|Variables|Hypothesis|Hypotheses|Context)\b", s) and secdepth == 0:
                hits.append("%s: %s outside a section" % (rel, s.split()[0]))
    return hits


def coq_make(jobs=16, timeout=3000):
    """(ok, log).  Full .vo build of Base/Model/Proofs/Props."""
    with lock("coq"):
        srcs = coq_sources()
        proj = "-Q . DV\n" + "\n".join(srcs) + "\n"
        pj = os.path.join(COQ, "_CoqProject")
        if not os.path.exists(pj) or open(pj).read() != proj or not os.path.exists(os.path.join(COQ, "Makefile")):
            open(pj, "w").write(proj)
            rc, out = sh("coq_makefile -f _CoqProject -o Makefile", cwd=COQ)
            if rc:
                return False, out
        rc, out = sh("timeout %d make -j%d 2>&1" % (timeout, jobs), cwd=COQ, timeout=timeout + 60)
        return rc == 0, out


def coq_make_target(target, jobs=16, timeout=3000):
    """Build one target (and what it depends on) of the Coq tree."""
    with lock("coq"):
        srcs = coq_sources()
        proj = "-Q . DV\n" + "\n".join(srcs) + "\n"
        pj = os.path.join(COQ, "_CoqProject")
        if not os.path.exists(pj) or open(pj).read() != proj or not os.path.exists(os.path.join(COQ, "Makefile")):
            open(pj, "w").write(proj)
            rc, out = sh("coq_makefile -f _CoqProject -o Makefile", cwd=COQ)
            if rc:
                return False, out
        rc, out = sh("timeout %d make -j%d %s 2>&1" % (timeout, jobs, target), cwd=COQ, timeout=timeout + 60)
        return rc == 0, out


def check_props(prop):
    """Compile Props/<prop>.v on its own and parse Print Assumptions.
    Returns dict(obligations, discharged, theorems, axioms, log, ok)."""
    path = os.path.join(COQ, "Props", prop + ".v")
    res = dict(obligations=0, discharged=0, theorems=[], axioms=[], ok=False, log="")
    if not os.path.exists(path):
        res["log"] = "missing " + path
        return res
    txt = open(path).read()
    thms = re.findall(r"^\s*Theorem\s+(\w+)", txt, re.M)
    res["theorems"] = thms
    res["obligations"] = len(thms)
    with lock("coq"):
        rc, out = sh("timeout 600 coqc -Q . DV Props/%s.v" % prop, cwd=COQ, timeout=700)
    res["log"] = out[-4000:]
    if rc:
        return res
    # each Print Assumptions prints either "Closed under the global context" or "Axioms:" + list
    blocks = re.split(r"(?=Closed under the global context|Axioms:)", out)
    good = 0
    axioms = set()
    for b in blocks:
        if b.startswith("Closed under the global context"):
            good += 1
        elif b.startswith("Axioms:"):
            names = re.findall(r"^([\w.']+)\s*:", b[len("Axioms:"):], re.M)
            bad = [n for n in names if n.split(".")[-1] not in ALLOWED_AXIOMS and n not in ALLOWED_AXIOMS]
            axioms.update(names)
            if not bad:
                good += 1
    res["axioms"] = sorted(axioms)
    res["discharged"] = min(good, len(thms))
    res["ok"] = good >= len(thms) and len(thms) > 0
    return res


def _digest(paths):
    h = hashlib.sha256()
    for p in paths:
        h.update(p.encode()); h.update(open(p, "rb").read())
    return h.hexdigest()


def build_modelrun(prop):
    """Extract coq/Extract/Ex<prop>.v and link it with ocaml/common.ml +
    ocaml/run_<prop>.ml into build/modelrun_<prop>.  Returns (ok, log)."""
    ex = os.path.join(COQ, "Extract", "Ex%s.v" % prop)
    drv = os.path.join(VERIF, "ocaml", "run_%s.ml" % prop)
    common = os.path.join(VERIF, "ocaml", "common.ml")
    out = os.path.join(BUILD, "modelrun_" + prop)
    d = os.path.join(BUILD, "ocaml", prop)
    with lock("ocaml_" + prop):
        deps = [ex, drv, common] + sorted(glob.glob(os.path.join(COQ, "Base", "*.vo"))) \
            + sorted(glob.glob(os.path.join(COQ, "Model", "*.vo")))
        dig = _digest(deps)
        stamp = os.path.join(d, "stamp")
        if os.path.exists(out) and os.path.exists(stamp) and open(stamp).read() == dig:
            return True, "up to date"
        shutil.rmtree(d, ignore_errors=True)
        os.makedirs(d)
        rc, log = sh("timeout 600 coqc -Q %s DV -o %s/Ex%s.vo %s" % (COQ, d, prop, ex), cwd=d, timeout=700)
        if rc:
            return False, log
        main = "open Model\n" + open(common).read() + "\n" + open(drv).read()
        open(os.path.join(d, "main.ml"), "w").write(main)
        rc, log2 = sh("ocamlfind ocamlopt -w -a -package str,unix -linkpkg "
                      "model.mli model.ml main.ml -o %s" % out, cwd=d, timeout=600)
        if rc:
            return False, log + log2
        open(stamp, "w").write(dig)
        return True, log + log2


def build_rust():
    """cargo build --offline from /repo's working tree into build/rust-target;
    stage the three extension modules in build/rustext.  Returns (ok, log)."""
    with lock("rust"):
        env = {"CARGO_TARGET_DIR": os.path.join(BUILD, "rust-target"), "CARGO_NET_OFFLINE": "true"}
        rc, log = sh("cargo build --offline 2>&1", cwd=REPO, timeout=1800, env=env)
        if rc:
            return False, log
        os.makedirs(RUSTEXT, exist_ok=True)
        suffix = ".cpython-312-x86_64-linux-gnu.so"
        for lib, mod in (("libpack_py.so", "_pack"), ("libobjects_py.so", "_objects"),
                         ("libdiff_tree_py.so", "_diff_tree")):
            src = os.path.join(BUILD, "rust-target", "debug", lib)
            dst = os.path.join(RUSTEXT, mod + suffix)
            if not os.path.exists(dst) or open(src, "rb").read() != open(dst, "rb").read():
                tmp = dst + ".tmp%d" % os.getpid()
                shutil.copyfile(src, tmp)
                os.replace(tmp, dst)
        return True, log


if __name__ == "__main__":
    what = sys.argv[1] if len(sys.argv) > 1 else "all"
    t = time.time()
    if what in ("all", "scan"):
        h = scan_forbidden()
        if h:
            print("FORBIDDEN:", h); sys.exit(1)
    if what in ("all", "coq"):
        ok, log = coq_make()
        print(log[-3000:])
        if not ok:
            sys.exit(1)
    if what in ("all", "rust"):
        ok, log = build_rust()
        print(log[-1000:])
        if not ok:
            sys.exit(1)
    if what in ("all", "ocaml"):
        for ex in sorted(glob.glob(os.path.join(COQ, "Extract", "Ex*.v"))):
            prop = os.path.basename(ex)[2:-2]
            ok, log = build_modelrun(prop)
            print(prop, "modelrun", "ok" if ok else "FAILED")
            if not ok:
                print(log[-3000:]); sys.exit(1)
    print("build %s: %.1fs" % (what, time.time() - t))
