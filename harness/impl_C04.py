"""Implementation side of C04: damaged and crafted packs, pack indexes, loose objects, packed-refs and index files fed to
every ingestion / reading path; outcome classes, store before/after, hashes of what was ingested."""
import hashlib, io, os, shutil, signal, struct, tempfile, time, zlib
from dulwich.errors import ChecksumMismatch
from dulwich.object_format import SHA1
from dulwich.object_store import DiskObjectStore, MemoryObjectStore
from dulwich.objects import Blob, Commit, Tree, object_header
from dulwich.pack import PackStreamReader, write_pack_objects
from dulwich.repo import Repo

TIME_CAP = 20


class Hang(Exception):
    pass


def _alarm(signum, frame):
    raise Hang()


signal.signal(signal.SIGALRM, _alarm)


# ---------- raw pack writer (independent of dulwich's writer) ----------
def varint_size(t, size):
    c = (t << 4) | (size & 15)
    size >>= 4
    out = bytearray()
    while size:
        out.append(c | 0x80)
        c = size & 0x7F
        size >>= 7
    out.append(c)
    return bytes(out)


def ofs_varint(n):
    out = bytearray([n & 0x7F])
    n >>= 7
    while n:
        n -= 1
        out.insert(0, 0x80 | (n & 0x7F))
        n >>= 7
    return bytes(out)


def delta_bytes(base, target):
    def sz(n):
        out = bytearray()
        while True:
            b = n & 0x7F
            n >>= 7
            out.append(b | (0x80 if n else 0))
            if not n:
                return bytes(out)
    # one insert op per 127 bytes: simple and always valid
    ops = bytearray()
    for i in range(0, len(target), 127):
        ch = target[i:i + 127]
        ops.append(len(ch))
        ops += ch
    return sz(len(base)) + sz(len(target)) + bytes(ops)


def obj_id(type_name, data):
    return hashlib.sha1(type_name + b" %d\0" % len(data) + data).digest()


def raw_pack(entries):
    """entries: list of dicts: {"kind": "full", "type": 3, "data": b} | {"kind": "ofs", "back": n (entries back) | "rawofs": n, "base_data":..., "data": b}
    | {"kind": "ref", "base": 20-byte id, "base_data": b, "data": b}.  Returns (bytes, offsets)."""
    body = bytearray(b"PACK" + struct.pack(">LL", 2, len(entries)))
    offsets = []
    for i, e in enumerate(entries):
        offsets.append(len(body))
        if e["kind"] == "full":
            body += varint_size(e["type"], len(e["data"])) + zlib.compress(e["data"])
        elif e["kind"] == "lie":            # the header announces one size, the stream inflates to another
            body += varint_size(e["type"], e["announced"]) + e["stream"]
        else:
            d = delta_bytes(e["base_data"], e["data"])
            if e["kind"] == "ofs":
                dist = e["rawofs"] if "rawofs" in e else offsets[i] - offsets[i - e["back"]]
                body += varint_size(6, len(d)) + ofs_varint(dist) + zlib.compress(d)
            else:
                body += varint_size(7, len(d)) + e["base"] + zlib.compress(d)
    return bytes(body) + hashlib.sha1(body).digest(), offsets


B0 = b"base content line\n" * 6
B1 = B0 + b"more\n"
B2 = b"second chain\n" * 3
T0 = None


def sample_pack(full=False):
    if full:
        # add_pack_data takes parsed entries whose names are known, i.e. full objects
        blob0 = B0
        tree = b"100644 f\0" + obj_id(b"blob", blob0)
        commit = b"tree " + obj_id(b"tree", tree).hex().encode() + b"\nauthor a <a@x> 0 +0000\ncommitter a <a@x> 0 +0000\n\nm\n"
        ents = [{"kind": "full", "type": 3, "data": blob0}, {"kind": "full", "type": 2, "data": tree}, {"kind": "full", "type": 1, "data": commit},
                {"kind": "full", "type": 3, "data": B2}]
        data, offs = raw_pack(ents)
        ids = [obj_id(b"blob", blob0), obj_id(b"tree", tree), obj_id(b"commit", commit), obj_id(b"blob", B2)]
        return data, [i.hex().encode() for i in ids]
    blob0 = B0
    tree = b"100644 f\0" + obj_id(b"blob", blob0)
    commit = b"tree " + obj_id(b"tree", tree).hex().encode() + b"\nauthor a <a@x> 0 +0000\ncommitter a <a@x> 0 +0000\n\nm\n"
    ents = [{"kind": "full", "type": 3, "data": blob0}, {"kind": "ofs", "back": 1, "base_data": blob0, "data": B1},
            {"kind": "full", "type": 2, "data": tree}, {"kind": "full", "type": 1, "data": commit},
            {"kind": "ref", "base": obj_id(b"blob", B1), "base_data": B1, "data": B1 + b"x\n"}]
    data, offs = raw_pack(ents)
    ids = [obj_id(b"blob", blob0), obj_id(b"blob", B1), obj_id(b"tree", tree), obj_id(b"commit", commit), obj_id(b"blob", B1 + b"x\n")]
    return data, [i.hex().encode() for i in ids]


def mutate(base, m):
    k = m[0]
    if k == "byte":
        b = bytearray(base)
        b[m[1]] = m[2]
        return bytes(b)
    if k == "bit":
        b = bytearray(base)
        b[m[1]] ^= 1 << m[2]
        return bytes(b)
    if k == "bytefix":              # damage inside the body with the trailer recomputed, so that the checksum does not catch it
        b = bytearray(base[:-20])
        b[m[1]] = m[2]
        return bytes(b) + hashlib.sha1(bytes(b)).digest()
    if k == "truncfix":             # whole entries cut off, trailer recomputed (the object count is then too high)
        b = base[:m[1]]
        return b + hashlib.sha1(b).digest()
    if k == "trunc":
        return base[:m[1]]
    if k == "tail":
        return base + bytes.fromhex(m[1])
    if k == "same":
        return base
    raise ValueError(k)


def classify(fn):
    """run fn under the time cap; outcome class and value"""
    t0 = time.time()
    signal.alarm(TIME_CAP)
    try:
        v = fn()
        return "ok", v, time.time() - t0
    except Hang:
        return "hang", None, time.time() - t0
    except (MemoryError, RecursionError) as e:
        return "resource:" + type(e).__name__, None, time.time() - t0
    except Exception as e:  # noqa: BLE001
        return "error:" + type(e).__name__, None, time.time() - t0
    except BaseException as e:  # noqa: BLE001
        return "baseexception:" + type(e).__name__, None, time.time() - t0
    finally:
        signal.alarm(0)


def listing(path):
    out = []
    for dp, dn, fn in os.walk(path):
        for n in fn:
            rel = os.path.relpath(os.path.join(dp, n), path)
            if os.path.basename(rel).startswith("tmp"):
                continue            # temporary files are invisible to readers (recorded separately)
            out.append(rel)
    return sorted(out)


def tmpfiles(path):
    return sorted(os.path.relpath(os.path.join(dp, n), path) for dp, dn, fn in os.walk(path) for n in fn if n.startswith("tmp"))


def check_store(store, before_ids, claimed):
    """every object the store now lists beyond before_ids must hash to its name"""
    bad = []
    for oid in set(store) - before_ids:
        o = store[oid]
        raw = o.as_raw_string()
        if hashlib.sha1(o.type_name + b" %d\0" % len(raw) + raw).hexdigest().encode() != oid:
            bad.append(oid.decode())
    return bad


def pack_sweep(req):
    base, ids = sample_pack(full=req["path"].endswith("add_pack_data"))
    path = req["path"]
    out = {"classes": {}, "violations": [], "tmp_leaks": 0, "slow": 0, "n": 0}
    d = tempfile.mkdtemp(prefix="verif-c04-", dir=os.environ.get("VERIF_SCRATCH") or None)
    try:
        for m in req["mutants"]:
            data = mutate(base, m)
            out["n"] += 1
            if path == "stream":
                def run():
                    f = io.BytesIO(data)
                    r = PackStreamReader(hashlib.sha1, f.read)
                    n = 0
                    for u in r.read_objects():
                        n += 1
                    return n
                cls, v, dt = classify(run)
                changed, badhash = False, []
            else:
                rp = os.path.join(d, "r%d" % out["n"])
                mem = path.startswith("memory")
                if mem:
                    store = MemoryObjectStore()
                else:
                    os.makedirs(rp)
                    store = DiskObjectStore.init(rp)
                before_ids = set(store)
                before_files = listing(rp) if not mem else []

                def run():
                    f = io.BytesIO(data)
                    if path in ("thin", "memory"):
                        store.add_thin_pack(f.read, None)
                    elif path in ("add_pack", "memory_add_pack"):
                        pf, commit, abort = store.add_pack()
                        try:
                            pf.write(data)
                        except BaseException:
                            abort()
                            raise
                        commit()
                    elif path in ("add_pack_data", "memory_add_pack_data"):
                        from dulwich.pack import PackData
                        pd = PackData.from_file(io.BytesIO(data), SHA1, len(data))
                        store.add_pack_data(len(pd), pd.iter_unpacked(include_comp=True))
                    return len(set(store) - before_ids)
                cls, v, dt = classify(run)
                try:
                    after_ids = set(store)
                    badhash = check_store(store, before_ids, ids) if cls == "ok" else []
                    changed = cls != "ok" and (after_ids != before_ids or (not mem and listing(rp) != before_files))
                    if not mem and tmpfiles(rp):
                        out["tmp_leaks"] += 1
                except Exception as e:  # noqa: BLE001
                    changed, badhash = False, ["store unreadable after the attempt: " + type(e).__name__]
                finally:
                    try:
                        store.close()
                    except Exception:  # noqa: BLE001
                        pass
                    if not mem:
                        shutil.rmtree(rp, ignore_errors=True)
            out["classes"][cls] = out["classes"].get(cls, 0) + 1
            if dt > 5:
                out["slow"] += 1
            why = None
            if cls == "hang" or cls.startswith("resource") or cls.startswith("baseexception"):
                why = cls
            elif changed:
                why = "a failed ingestion (%s) changed the store" % cls
            elif badhash:
                why = "ingested objects do not hash to their names: %s" % badhash[:2]
            if why and len(out["violations"]) < 5:
                out["violations"].append({"mutant": m, "why": why})
            elif why:
                out["violations_more"] = out.get("violations_more", 0) + 1
    finally:
        shutil.rmtree(d, ignore_errors=True)
    return out


def graph(req):
    """a crafted delta graph: entries "f" or "d<base>" / "x" (ref delta to an id that is nowhere) / "e" (ref delta to an
    object only the receiving store has); ingestion by add_thin_pack into a disk store"""
    spec = req["entries"]
    datas = [b"object number %d\n" % i * 3 for i in range(len(spec))]
    ents = []
    ext = Blob.from_string(b"external base\n" * 3)
    for i, e in enumerate(spec):
        if e == "f":
            ents.append({"kind": "full", "type": 3, "data": datas[i]})
        elif e == "x":
            ents.append({"kind": "ref", "base": hashlib.sha1(b"nowhere %d" % i).digest(), "base_data": b"whatever", "data": datas[i]})
        elif e == "e":
            ents.append({"kind": "ref", "base": bytes.fromhex(ext.id.decode()), "base_data": ext.data, "data": datas[i]})
        else:
            b = int(e[1:])
            if b < i and req.get("ofs", True):
                ents.append({"kind": "ofs", "back": i - b, "base_data": datas[b], "data": datas[i]})
            else:
                # forward / self / cyclic references can only be spelled as REF deltas naming the id the base would have
                ents.append({"kind": "ref", "base": obj_id(b"blob", datas[b]) if b < len(spec) else hashlib.sha1(b"nowhere").digest(), "base_data": datas[b] if b < len(spec) else b"", "data": datas[i]})
    data, offs = raw_pack(ents)
    d = tempfile.mkdtemp(prefix="verif-c04g-", dir=os.environ.get("VERIF_SCRATCH") or None)
    try:
        store = DiskObjectStore.init(d) if req.get("store", "disk") == "disk" else MemoryObjectStore()
        store.add_object(ext)
        before = set(store)
        files = listing(d)
        path = req.get("path", "thin")

        def ingest():
            if path == "thin":
                store.add_thin_pack(io.BytesIO(data).read, None)
            elif path == "add_pack":
                pf, commit, abort = store.add_pack()
                try:
                    pf.write(data)
                except BaseException:
                    abort()
                    raise
                commit()
            else:
                from dulwich.pack import PackData
                pd = PackData.from_file(io.BytesIO(data), SHA1, len(data))
                store.add_pack_data(len(pd), pd.iter_unpacked(include_comp=True))
        cls, v, dt = classify(ingest)
        after = set(store)
        res = {"cls": cls, "new": len(after - before), "changed_on_failure": cls != "ok" and (after != before or listing(d) != files),
               "all_present": all(obj_id(b"blob", x).hex().encode() in after for x in datas), "bad": check_store(store, before, []) if cls == "ok" else []}
        store.close()
        return res
    finally:
        shutil.rmtree(d, ignore_errors=True)


_BOMBS = {}


def bomb(req):
    """an entry announcing `announced` bytes whose zlib stream inflates to `real` bytes of zeros, delivered in reads of at
    most `seg` bytes: the reader has to give up once it has seen more than it was promised, not after inflating it all"""
    import tracemalloc
    stream = _BOMBS.get(req["real"])
    if stream is None:
        co = zlib.compressobj(9)
        stream = _BOMBS[req["real"]] = b"".join(co.compress(bytes(1 << 20)) for _ in range(req["real"] >> 20)) + co.flush()
    data, offs = raw_pack([{"kind": "full", "type": 3, "data": b"ordinary\n"}, {"kind": "lie", "type": 3, "announced": req["announced"], "stream": stream}])
    path, seg = req["path"], req["seg"]
    d = tempfile.mkdtemp(prefix="verif-c04b-", dir=os.environ.get("VERIF_SCRATCH") or None)
    try:
        f = io.BytesIO(data)

        def read_some(n):
            return f.read(min(n, seg) if seg else n)

        def read_all(n):
            return f.read(n)
        store = MemoryObjectStore() if path == "memory" else DiskObjectStore.init(d)
        before = set(store)

        def run():
            if path == "stream":
                return sum(1 for _ in PackStreamReader(hashlib.sha1, read_all, read_some).read_objects())
            if path in ("thin", "memory"):
                return store.add_thin_pack(read_all, read_some)
            pf, commit, abort = store.add_pack()
            try:
                pf.write(data)
            except BaseException:
                abort()
                raise
            return commit()
        tracemalloc.start()
        cls, v, dt = classify(run)
        peak = tracemalloc.get_traced_memory()[1]
        tracemalloc.stop()
        changed = set(store) != before
        store.close()
        return {"cls": cls, "peak": peak, "secs": round(dt, 2), "changed": changed, "stream": len(stream)}
    finally:
        shutil.rmtree(d, ignore_errors=True)


def crafted_read(req):
    """a pack whose entries are full objects or REF deltas naming one another by made-up ids, installed together with
    an index that lists those ids: reading entry i through the store must end, as the object or as an error"""
    from dulwich.pack import write_pack_index_v2
    spec = req["entries"]
    fake = [hashlib.sha1(b"entry %d" % i).digest() for i in range(len(spec) + 8)]
    datas = [b"object number %d\n" % i * 3 for i in range(len(spec))]
    ents = []
    for i, e in enumerate(spec):
        if e == "f":
            ents.append({"kind": "full", "type": 3, "data": datas[i]})
        else:
            b = int(e[1:])
            if b < i and req.get("ofs"):
                ents.append({"kind": "ofs", "back": i - b, "base_data": datas[b], "data": datas[i]})
            else:
                ents.append({"kind": "ref", "base": fake[min(b, len(fake) - 1)], "base_data": datas[b] if b < len(spec) else b"none", "data": datas[i]})
    data, offs = raw_pack(ents)
    d = tempfile.mkdtemp(prefix="verif-c04r-", dir=os.environ.get("VERIF_SCRATCH") or None)
    try:
        DiskObjectStore.init(d).close()
        base = os.path.join(d, "pack", "pack-" + hashlib.sha1(data[:-20]).hexdigest())
        with open(base + ".pack", "wb") as f:
            f.write(data)
        with open(base + ".idx", "wb") as f:
            write_pack_index_v2(f, sorted((fake[i], offs[i], 0) for i in range(len(spec))), data[-20:])
        out = []
        for i in range(len(spec)):
            store = DiskObjectStore(d)
            cls, v, dt = classify(lambda: store.get_raw(fake[i].hex().encode()))
            if cls == "ok":
                content = b"".join(v[1]) if isinstance(v[1], list) else v[1]
                cls = "ok:same" if content == datas[i] else "ok:other"
            out.append(cls)
            store.close()
        return {"reads": out}
    finally:
        shutil.rmtree(d, ignore_errors=True)


# ---------- files that are read, not ingested ----------
def _repo_with(d):
    r = Repo.init(os.path.join(d, "r"), mkdir=True)
    b = Blob.from_string(b"hello world\n")
    t = Tree()
    t.add(b"f", 0o100644, b.id)
    c = Commit()
    c.tree = t.id
    c.author = c.committer = b"a <a@x>"
    c.author_time = c.commit_time = 1700000000
    c.author_timezone = c.commit_timezone = 0
    c.message = b"m"
    r.object_store.add_objects([(b, None), (t, None), (c, None)])       # one pack + index
    loose = Blob.from_string(b"a loose object\n")
    r.object_store.add_object(loose)
    r.refs[b"refs/heads/master"] = c.id
    r.refs[b"refs/tags/v1"] = c.id
    r.refs.pack_refs(all=True)
    from dulwich.index import IndexEntry
    ix = r.open_index()
    ix[b"f"] = IndexEntry(ctime=(1, 0), mtime=(1, 0), dev=1, ino=1, mode=0o100644, uid=0, gid=0, size=12, sha=b.id, flags=0, extended_flags=0)
    ix[b"g/h"] = IndexEntry(ctime=(2, 0), mtime=(2, 0), dev=1, ino=2, mode=0o100755, uid=0, gid=0, size=12, sha=b.id, flags=0, extended_flags=0)
    ix.write()
    ids = [b.id, t.id, c.id, loose.id]
    path = r.path
    r.close()
    return path, ids, loose.id


def file_sweep(req):
    kind = req["kind"]
    d = tempfile.mkdtemp(prefix="verif-c04f-", dir=os.environ.get("VERIF_SCRATCH") or None)
    out = {"classes": {}, "violations": [], "n": 0, "size": None}
    try:
        path, ids, loose_id = _repo_with(d)
        git = os.path.join(path, ".git")
        if kind == "idx":
            pk = [n for n in os.listdir(os.path.join(git, "objects", "pack")) if n.endswith(".idx")][0]
            target = os.path.join(git, "objects", "pack", pk)
        elif kind == "loose":
            target = os.path.join(git, "objects", loose_id[:2].decode(), loose_id[2:].decode())
        elif kind == "packed-refs":
            target = os.path.join(git, "packed-refs")
        elif kind == "index":
            target = os.path.join(git, "index")
        base = open(target, "rb").read()
        out["size"] = len(base)
        if req.get("size_only"):
            return out
        for m in req["mutants"]:
            out["n"] += 1
            os.chmod(target, 0o644)
            with open(target, "wb") as f:
                f.write(mutate(base, m))

            def run():
                r = Repo(path)
                try:
                    res = []
                    if kind in ("idx", "loose"):
                        first_exc = None
                        for oid in ids:
                            try:
                                if oid in r.object_store:
                                    o = r.object_store[oid]
                                    raw = o.as_raw_string()
                                    if hashlib.sha1(o.type_name + b" %d\0" % len(raw) + raw).hexdigest().encode() != oid:
                                        res.append("object %s read back with other content" % oid[:8].decode())
                            except Exception as e:      # noqa: BLE001  an ordinary refusal; the other read paths are still tried
                                first_exc = first_exc or e
                        # the other read paths hand data out under the requested name as well
                        for oid in ids:
                            try:
                                tn, raw = r.object_store.get_raw(oid)
                            except (KeyError, OSError, ValueError, zlib.error, Exception):      # noqa: BLE001  an ordinary refusal
                                continue
                            if hashlib.sha1(object_header(tn, len(raw)) + raw).hexdigest().encode() != oid:
                                res.append("get_raw(%s) returns %d bytes that do not hash to that name" % (oid[:8].decode(), len(raw)))
                        try:
                            for o in r.object_store.iterobjects_subset(ids, allow_missing=True):
                                raw = o.as_raw_string()
                                if hashlib.sha1(o.type_name + b" %d\0" % len(raw) + raw).hexdigest().encode() != o.id:
                                    res.append("iterobjects_subset yields %s with content that does not hash to it" % o.id[:8].decode())
                        except Exception:      # noqa: BLE001
                            pass
                        for oid in r.object_store:
                            pass
                        if first_exc is not None and not res:
                            raise first_exc
                    elif kind == "packed-refs":
                        dct = r.refs.as_dict()
                        for k, v in dct.items():
                            if len(v) != 40 or any(ch not in b"0123456789abcdefABCDEF" for ch in v):       # git reads upper-case hex too
                                res.append("ref %r has the malformed value %r" % (k, v[:50]))
                    elif kind == "index":
                        ix = r.open_index()
                        for p_, e in ix.items():
                            if len(e.sha) != 40:
                                res.append("index entry %r has a malformed id" % p_)
                    return res
                finally:
                    r.close()
            cls, v, dt = classify(run)
            out["classes"][cls] = out["classes"].get(cls, 0) + 1
            why = None
            if cls == "hang" or cls.startswith("resource") or cls.startswith("baseexception"):
                why = cls
            elif cls == "ok" and v:
                why = v[0]
            if why and len(out["violations"]) < 5:
                out["violations"].append({"mutant": m, "why": why})
            elif why:
                out["violations_more"] = out.get("violations_more", 0) + 1
        return out
    finally:
        shutil.rmtree(d, ignore_errors=True)


def sample_size_full(req):
    return {"size": len(sample_pack(full=True)[0])}


def sample_size(req):
    return {"size": len(sample_pack()[0])}


from impl_C04_thin import thin_graph

HANDLERS = {"thin_graph": thin_graph, "pack_sweep": pack_sweep, "graph": graph, "file_sweep": file_sweep, "sample_size": sample_size, "crafted_read": crafted_read, "bomb": bomb, "sample_size_full": sample_size_full}
