"""Implementation side of C10: reachability (find_reachable_objects), maintenance sequences on repositories with loose
objects, packs and alternates, and a reader interleaved with a repacker under the deterministic scheduler."""
import hashlib, os, random, shutil, subprocess, tempfile, time
import sched
from dulwich.gc import find_reachable_objects, garbage_collect, prune_unreachable_objects
from dulwich.objects import Blob, Commit, Tag, Tree
from dulwich.repo import Repo

GIT_ENV = dict(os.environ, GIT_CONFIG_NOSYSTEM="1", HOME="/nonexistent", GIT_CONFIG_GLOBAL="/dev/null")


def build_objects(seed, ncommits, inrepo_gitlinks=False):
    rng = random.Random(seed)
    blobs = [Blob.from_string(b"blob %d %d\n" % (seed, i)) for i in range(6)]
    objs, commits, reach_roots = list(blobs), [], []
    deps = {b.id: [] for b in blobs}
    trees = []
    for i in range(ncommits):
        t = Tree()
        for j in rng.sample(range(len(blobs)), rng.randrange(1, 4)):
            t.add(b"f%d" % j, 0o100644, blobs[j].id)
        if trees and rng.random() < 0.4:
            t.add(b"sub", 0o040000, rng.choice(trees).id)
        if rng.random() < 0.15:
            t.add(b"module", 0o160000, hashlib.sha1(b"elsewhere %d" % i).hexdigest().encode())   # gitlink: not an object of this repository
        elif inrepo_gitlinks and commits and rng.random() < 0.3:
            # a gitlink that happens to name a commit kept in this very repository (a library branch pinned as a submodule):
            # still no edge of the object graph
            t.add(b"pinned", 0o160000, rng.choice(commits).id)
        trees.append(t)
        deps[t.id] = [e.sha for e in t.iteritems() if e.mode != 0o160000]
        c = Commit()
        c.tree = t.id
        k = 0 if not commits else rng.choice([1, 1, 1, 2, 0 if rng.random() < 0.1 else 1])
        c.parents = [x.id for x in rng.sample(commits, min(k, len(commits)))]
        c.author = c.committer = b"a <a@x>"
        c.author_time = c.commit_time = 1700000000 + i
        c.author_timezone = c.commit_timezone = 0
        c.message = b"c%d" % i
        commits.append(c)
        deps[c.id] = [c.tree] + list(c.parents)
        objs += [t, c]
    tags = []
    for i in range(rng.randrange(0, 3)):
        tg = Tag()
        target = rng.choice(commits + trees + blobs + tags)
        tg.object = (type(target), target.id)
        tg.name = b"t%d" % i
        tg.tagger = b"a <a@x>"
        tg.tag_time = 1700000000
        tg.tag_timezone = 0
        tg.message = b"tag\n"
        tags.append(tg)
        deps[tg.id] = [target.id]
        objs.append(tg)
    return rng, objs, commits, trees, blobs, tags, deps


def build_repo(d, seed, ncommits, layout):
    rng, objs, commits, trees, blobs, tags, deps = build_objects(seed, ncommits)
    r = Repo.init_bare(os.path.join(d, "r.git"), mkdir=True)
    alt = None
    if layout.get("alternate"):
        alt = Repo.init_bare(os.path.join(d, "alt.git"), mkdir=True)
    order = list(objs)
    rng.shuffle(order)
    cut1, cut2 = len(order) // 3, 2 * len(order) // 3
    groups = [order[:cut1], order[cut1:cut2], order[cut2:]]
    how = layout.get("how", ["loose", "pack", "loose"])
    for g, h in zip(groups, how):
        if not g:
            continue
        if h == "loose":
            for o in g:
                r.object_store.add_object(o)
        elif h == "pack":
            r.object_store.add_objects([(o, None) for o in g])
        elif h == "alt" and alt is not None:
            alt.object_store.add_objects([(o, None) for o in g])
        else:
            for o in g:
                r.object_store.add_object(o)
    if layout.get("dup") and groups[0]:
        r.object_store.add_objects([(o, None) for o in groups[0][:3]])      # the same objects again in another pack
    if alt is not None:
        r.object_store.add_alternate_path(alt.object_store.path)
        alt.close()
    # refs: a few commits and tags; the rest is unreachable
    heads = rng.sample(commits, min(len(commits), rng.randrange(1, 3)))
    for i, c in enumerate(heads):
        r.refs[b"refs/heads/b%d" % i] = c.id
    for i, t in enumerate(tags[:1]):
        r.refs[b"refs/tags/t%d" % i] = t.id
    if layout.get("detached"):
        r.refs[b"HEAD"] = rng.choice(commits).id
    else:
        r.refs.set_symbolic_ref(b"HEAD", b"refs/heads/b0")
    return r, objs, deps


def _roots(r):
    out = []
    for k in r.refs.allkeys():
        try:
            out.append(r.refs[k])
        except KeyError:
            pass
    return out


def _closure(deps, roots):
    seen, todo = set(), list(roots)
    while todo:
        x = todo.pop()
        if x in seen:
            continue
        seen.add(x)
        todo += deps.get(x, [])
    return seen


def reach(req):
    d = tempfile.mkdtemp(prefix="verif-gc-", dir=os.environ.get("VERIF_SCRATCH") or None)
    try:
        r, objs, deps = build_repo(d, req["seed"], req["n"], req["layout"])
        try:
            num = {o.id: i for i, o in enumerate(objs)}
            roots = _roots(r)
            got = find_reachable_objects(r.object_store, r.refs)
            want = _closure(deps, roots)
            return {"deps": ";".join("%d:%s" % (num[k], ".".join(str(num[x]) for x in v if x in num) or "") for k, v in deps.items()),
                    "roots": ".".join(str(num[x]) for x in roots), "got": ".".join(map(str, sorted(num[x] for x in got if x in num))) or "_",
                    "extra": sorted(x.decode()[:8] for x in got if x not in num and x in r.object_store), "closure": ".".join(map(str, sorted(num[x] for x in want if x in num))) or "_",
                    "n": len(objs)}
        finally:
            r.close()
    finally:
        shutil.rmtree(d, ignore_errors=True)


def _readable(r, objs):
    ok = {}
    for o in objs:
        try:
            got = r.object_store[o.id]
            raw = got.as_raw_string()
            ok[o.id] = hashlib.sha1(got.type_name + b" %d\0" % len(raw) + raw).hexdigest().encode() == o.id
        except KeyError:
            pass
        except Exception as e:  # noqa: BLE001
            ok[o.id] = "exc:" + type(e).__name__
    return ok


def maintain(req):
    """a sequence of maintenance operations; after each one the readable objects are compared with those before"""
    d = tempfile.mkdtemp(prefix="verif-gcm-", dir=os.environ.get("VERIF_SCRATCH") or None)
    try:
        r, objs, deps = build_repo(d, req["seed"], req["n"], req["layout"])
        num = {o.id: i for i, o in enumerate(objs)}
        if req.get("age"):
            # make everything look a month old so that grace periods let unreachable objects go
            old = time.time() - 40 * 86400
            for dp, dn, fn in os.walk(r.object_store.path):
                for n in fn:
                    os.utime(os.path.join(dp, n), (old, old))
        steps = []
        try:
            for op in req["ops"]:
                before = _readable(r, objs)
                reachable = _closure(deps, _roots(r))
                exc = None
                try:
                    if op == "pack_loose":
                        r.object_store.pack_loose_objects()
                    elif op == "repack":
                        r.object_store.repack()
                    elif op == "gc0":
                        garbage_collect(r, grace_period=0)
                    elif op == "gcnone":
                        garbage_collect(r, grace_period=None)
                    elif op == "gcdefault":
                        garbage_collect(r)
                    elif op == "prune0":
                        prune_unreachable_objects(r.object_store, r.refs, grace_period=0)
                    elif op == "prunedefault":
                        prune_unreachable_objects(r.object_store, r.refs, grace_period=1209600)
                    elif op == "pack_refs":
                        r.refs.pack_refs(all=True)
                    elif op == "del_ref":
                        ks = sorted(k for k in r.refs.allkeys() if k.startswith(b"refs/heads/b") and k != b"refs/heads/b0")
                        if ks:
                            del r.refs[ks[-1]]
                    elif op == "reopen":
                        path = r.path
                        r.close()
                        r = Repo(path)
                except Exception as e:  # noqa: BLE001
                    exc = type(e).__name__ + ":" + str(e)[:80]
                # what a fresh process sees
                r2 = Repo(r.path)
                try:
                    after = _readable(r2, objs)
                    after_same = _readable(r, objs)
                finally:
                    r2.close()
                reach_now = _closure(deps, _roots(r))
                lost = sorted(num[i] for i in before if before[i] is True and after.get(i) is not True and i in reachable and i in reach_now)
                lost_same = sorted(num[i] for i in before if before[i] is True and after_same.get(i) is not True and i in reachable and i in reach_now)
                gone = sorted(num[i] for i in before if before[i] is True and i not in after)
                steps.append({"op": op, "exc": exc, "lost_reachable": lost, "lost_reachable_same_process": lost_same, "gone": gone,
                              "gone_unreachable_only": all(objs[g].id not in reachable for g in gone),
                              "recent_gone": bool(gone) and not req.get("age") and op in ("gcdefault", "prunedefault")})
            fsck = None
            if req.get("fsck"):
                p = subprocess.run(["git", "--git-dir", r.path, "fsck", "--connectivity-only"], env=GIT_ENV, capture_output=True)
                fsck = p.returncode if p.returncode == 0 else (p.stdout + p.stderr).decode("latin1")[-200:]
            return {"steps": steps, "fsck": fsck}
        finally:
            r.close()
    finally:
        shutil.rmtree(d, ignore_errors=True)


def concurrent(req):
    """a reader with a repository object opened before the repack starts, reading every reachable object, interleaved with a repacker"""
    runs = []
    d0 = tempfile.mkdtemp(prefix="verif-gcc-", dir=os.environ.get("VERIF_SCRATCH") or None)
    try:
        r0, objs, deps = build_repo(d0, req["seed"], req["n"], req["layout"])
        reachable = [i for i in _closure(deps, _roots(r0))]
        r0.close()
        template = os.path.join(d0, "r.git")
        wanted = [o.id for o in objs if o.id in reachable][: req.get("reads", 4)]

        def make():
            d = tempfile.mkdtemp(prefix="verif-gccr-", dir=os.environ.get("VERIF_SCRATCH") or None)
            path = os.path.join(d, "r.git")
            shutil.copytree(template, path)
            reader_repo = Repo(path)
            if req.get("warm"):
                for x in wanted[:1]:
                    reader_repo.object_store[x]          # pack list cached before the repack
            s = sched.Sched(root=os.path.join(path, "objects"), points=("open", "replace", "rename", "remove", "unlink", "listdir", "scandir", "stat"), file_points=False)

            def reader():
                out = []
                for x in wanted:
                    try:
                        o = reader_repo.object_store[x]
                        out.append(o.id == x)
                    except KeyError:
                        out.append("KeyError")
                    except Exception as e:  # noqa: BLE001
                        out.append(type(e).__name__)
                return out

            def repacker():
                rr = Repo(path)
                try:
                    if req["op"] == "repack":
                        rr.object_store.repack()
                    elif req["op"] == "pack_loose":
                        rr.object_store.pack_loose_objects()
                    elif req["op"] == "gc":
                        garbage_collect(rr, grace_period=None)
                    elif req["op"] == "git-repack":
                        subprocess.run(["git", "--git-dir", path, "repack", "-a", "-d", "-q"], env=GIT_ENV, check=True)
                finally:
                    rr.close()
                return True

            def finish(res):
                try:
                    reader_repo.close()
                finally:
                    shutil.rmtree(d, ignore_errors=True)
                return None
            return s, [reader, repacker], finish

        for prefix, res, _ in sched.explore(make, max_runs=req.get("max_runs", 300), preemption_bound=req.get("preempt", 2)):
            rd = res["results"][0]
            runs.append({"sched": ".".join(str(c[1]) for c in res["choices"]), "reader": rd[1] if rd and rd[0] == "ok" else "exc:" + str(rd),
                         "repacker": res["results"][1][0] if res["results"][1] else None,
                         "trace": ["%d:%s:%s:%s" % (a, c.replace("os.", ""), "/".join(map(str, ar[:1])), o) for (a, c, ar, o) in res["trace"]][-40:]})
    finally:
        shutil.rmtree(d0, ignore_errors=True)
    return {"runs": runs, "reads": len(wanted)}


from impl_C10_lookup import lookup_cosim

HANDLERS = {"reach": reach, "maintain": maintain, "concurrent": concurrent, "lookup_cosim": lookup_cosim}
