"""Implementation side of the thin-pack completion tie (C04 / C02): a crafted pack of full objects and REF deltas whose
bases are other entries, objects only the receiving store has, both, or nothing, through DiskObjectStore.add_thin_pack;
what the completed pack holds (the names in its index, with repetitions) goes back to the harness."""
import io, os, shutil, tempfile
from dulwich.object_store import DiskObjectStore
from dulwich.objects import Blob


def thin_graph(req):
    from impl_C04 import raw_pack, obj_id, classify
    spec = req["entries"]                 # "f" | "r<j>" (REF delta on entry j) | "e<k>" (REF delta on external object k)
    datas = [b"object number %d\n" % i * 3 for i in range(len(spec))]
    exts = [Blob.from_string(b"external base %d\n" % k * 3) for k in range(3)]
    names = [obj_id(b"blob", x) for x in datas]
    ents = []
    for i, e in enumerate(spec):
        if e == "f":
            ents.append({"kind": "full", "type": 3, "data": datas[i]})
        elif e[0] == "r":
            b = int(e[1:])
            ents.append({"kind": "ref", "base": names[b], "base_data": datas[b], "data": datas[i]})
        else:
            k = int(e[1:])
            ents.append({"kind": "ref", "base": bytes.fromhex(exts[k].id.decode()), "base_data": exts[k].data, "data": datas[i]})
    data, _ = raw_pack(ents)
    d = tempfile.mkdtemp(prefix="verif-c04t-", dir=os.environ.get("VERIF_SCRATCH") or None)
    try:
        store = DiskObjectStore.init(d)
        for k in req["ext_present"]:
            store.add_object(exts[k])
        for i in req["also"]:                       # entries of the pack that the receiver holds already (loose)
            store.add_object(Blob.from_string(datas[i]))
        res = {"names": [n.hex() for n in names], "ext_names": [x.id.decode() for x in exts]}

        def ingest():
            return store.add_thin_pack(io.BytesIO(data).read, None)
        cls, v, dt = classify(ingest)
        res["cls"] = cls
        if cls == "ok":
            packs = [p for p in store.packs]
            res["index"] = sorted(e[0].hex() for p in packs for e in p.index.iterentries())
            bad = []
            for i, (n, x) in enumerate(zip(names, datas)):
                try:
                    if store.get_raw(n.hex().encode())[1] != x:
                        bad.append([i, "other content"])
                except Exception as e:  # noqa: BLE001
                    bad.append([i, type(e).__name__])
            res["unreadable"] = bad
        store.close()
        return res
    finally:
        shutil.rmtree(d, ignore_errors=True)


HANDLERS = {"thin_graph": thin_graph}
