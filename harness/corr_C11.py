"""C11 — index file: Model/Index.v vs dulwich.index and git."""
import hashlib
from common import Model, Impl, hx, unhx, compare

PROP = "C11"
LEVEL = "proof"
SHA = "e69de29bb2d1d6434b8b29ae775ad8c2e48c5391"


def ent(name, cs=1, cns=2, ms=3, mns=4, dev=5, ino=6, mode=0o100644, uid=7, gid=8, size=9, sha=SHA, flags=0, xflags=0):
    return ":".join([hx(name)] + ["%x" % x for x in (cs, cns, ms, mns, dev, ino, mode, uid, gid, size)] + [sha, "%x" % flags, "%x" % xflags])


def names(rng, tier):
    base = [b"a", b"a/b", b"a.b", b"a-", b"a0", b"a/b/c", b"a/b/d", b"src/" + b"x" * 130 + b"/f1", b"src/" + b"x" * 130 + b"/f2",
            b"src/y", b"\xff\xfe", b"caf\xc3\xa9", b"sp ace", b"z" * 200, b"z" * 200 + b"/q", b"q" * 16500, b"q" * 16500 + b"1"]
    for L in (0xFFE, 0xFFF, 0x1000, 0x1001):
        base.append(b"long/" + b"n" * (L - 5))
        base.append(b"long/" + b"n" * (L - 6) + b"m")
    for _ in range(30 if tier == "quick" else 600):
        depth = rng.randrange(1, 5)
        base.append(b"/".join(bytes(rng.choice(b"abcxyz.-_\xe9") for _ in range(rng.choice([1, 2, 5, 40, 140]))) for _ in range(depth)))
    return list(dict.fromkeys(base))


def run(rep):
    rng = rep.rng
    thorough = rep.tier == "thorough"
    rep.extra["rule"] = ("helper level: git varint on boundary values (0,127,128,16511,16512,2^21..), path compression on name "
                         "pairs with shared prefixes / long predecessors; entries in versions 2,3,4 with boundary stat values "
                         "(2^32-1, 2^32, 2^40), every flag combination, names of length 0xFFE..0x1001; whole files through "
                         "Index.write (sorting, version bump, trailer) vs model bytes, read back by dulwich and listed by git; "
                         "git-written indexes (versions 2,3,4, stages, skip-worktree) read by dulwich.  distinct non-trivial = "
                         "distinct model request lines")
    rep.trusted += ["C git 2.39.5 ls-files --stage/--debug and update-index --index-info as reference reader/writer"]
    ns = names(rng, rep.tier)
    items = []
    # 1. varint
    vals = [0, 1, 126, 127, 128, 129, 255, 256, 16383, 16384, 16511, 16512, 16513, 2**21 - 1, 2**21, 2113663, 2113664, 2**28, 2**32, 2**35]
    vals += [rng.randrange(0, 2**40) for _ in range(50 if not thorough else 2000)]
    for n in vals:
        items.append(dict(kind="varint", line="gv_enc %x" % n, req={"fn": "helpers", "what": "gv_enc", "n": "%x" % n}))
    # 2. path compression (writer) and decompression (reader) on pairs
    pairs = []
    for a in ns:
        for b in rng.sample(ns, 6 if not thorough else 25):
            pairs.append((a, b))
    pairs += [(b"", b""), (b"a", b""), (b"", b"a"), (b"a", b"a"), (b"ab", b"a" * 300), (b"a" * 300, b"ab")]
    for p, prev in pairs:
        items.append(dict(kind="compress-path", line="compress %s %s" % (hx(p), hx(prev)),
                          req={"fn": "helpers", "what": "compress", "p": hx(p), "prev": hx(prev)}))
    res = compare(rep, PROP, items)
    items = []
    for (it, m, r), (p, prev) in zip(res[len(vals):], pairs):
        if isinstance(r, dict) and r.get("v") and not r.get("missing"):
            s = r["v"]
            items.append(dict(kind="decompress-path", line="decompress %s %s" % (s + "ccdd" if s != "-" else "ccdd", hx(prev)),
                              req={"fn": "helpers", "what": "decompress", "s": (s if s != "-" else "") + "ccdd", "prev": hx(prev)},
                              want=hx(p) + " ccdd"))
    for it, m, r in compare(rep, PROP, items):
        if r.get("v") != it["want"]:
            rep.fail("path-roundtrip", "decompress(compress(path, prev), prev) != path", it["req"], got=r.get("v"))
    # malformed compressed paths
    items = []
    for s in (b"", b"\x80", b"\x05abc\0", b"\x00abc", b"\x81\x00x\0", b"\xff\xff\xff\x7fq\0"):
        items.append(dict(kind="decompress-malformed", line="decompress %s %s" % (hx(s), hx(b"abc")),
                          req={"fn": "helpers", "what": "decompress", "s": hx(s), "prev": hx(b"abc")}))
    compare(rep, PROP, items)
    # 3. single entries, versions 2/3/4
    items = []
    big = [0, 1, 2**31, 2**32 - 1]
    over = [2**32, 2**32 + 5, 2**40 + 7]
    flagsets = [0, 0x1000, 0x2000, 0x3000, 0x8000, 0x9000]
    xflagsets = [0, 0x4000, 0x2000, 0x6000]
    for v in (2, 3, 4):
        for name in ns:
            prev = rng.choice(ns + [b""])
            e = ent(name, cs=rng.choice(big), cns=rng.choice(big), ms=rng.choice(big), mns=rng.choice(big),
                    dev=rng.choice(big + over), ino=rng.choice(big + over), mode=rng.choice([0o100644, 0o100755, 0o120000, 0o160000, 0o40000]),
                    uid=rng.choice(big), gid=rng.choice(big), size=rng.choice(big + over),
                    sha=hashlib.sha1(name).hexdigest(), flags=rng.choice(flagsets), xflags=rng.choice(xflagsets))
            items.append(dict(kind="entry-v%d" % v, line="entry %x %s %s" % (v, hx(prev), e),
                              req={"fn": "entry", "v": "%x" % v, "prev": hx(prev), "e": e}, e=e, v=v, outcome=False,
                              sample={"version": v, "name_len": len(name)}))
    for it, m, r in compare(rep, PROP, items):
        v = r.get("v", "")
        if v.startswith("exc"):
            rep.fail("entry-write", "write_cache_entry raised %s" % v, it["req"])
        elif " " in v:
            parts = v.split(" ")
            # round trip on the implementation: all fields come back (dev/ino/size modulo 2^32, EXTENDED bit derived)
            f = it["e"].split(":")
            want = list(f)
            for k in (5, 6, 10):
                want[k] = "%x" % (int(f[k], 16) % 2**32)
            fl, xf = int(f[12], 16), int(f[13], 16)
            want[12] = "%x" % ((fl & 0xF000) | (0x4000 if xf else 0))
            if parts[1] != ":".join(want) or parts[2] != "aabb":
                rep.fail("entry-roundtrip", "read_cache_entry(write_cache_entry(e)) != e", it["req"], got=parts[1][-120:], want=":".join(want)[-120:])
    # 4. whole files
    reqs, meta = [], []
    nfiles = 40 if not thorough else 800
    for k in range(nfiles):
        v = rng.choice([2, 3, 4])
        chosen = rng.sample(ns, rng.randrange(0, 9))
        es = []
        for name in chosen:
            if rng.random() < 0.2:
                for st in rng.sample([1, 2, 3], rng.randrange(1, 4)):
                    es.append(ent(name, sha=hashlib.sha1(name + bytes([st])).hexdigest(), flags=st << 12, size=rng.choice([0, 5, 2**32 + 3])))
            else:
                es.append(ent(name, sha=hashlib.sha1(name).hexdigest(), xflags=rng.choice([0, 0, 0, 0x4000, 0x2000]) if v >= 2 else 0,
                              mode=rng.choice([0o100644, 0o100755, 0o120000, 0o160000]), size=rng.choice([0, 9, 2**32 - 1, 2**33 + 1])))
        reqs.append({"fn": "index_file", "v": "%x" % v, "es": ",".join(es) or "_", "skip_hash": rng.random() < 0.2, "git": k < (25 if not thorough else 400)})
        meta.append((v, es))
    impl = Impl(PROP, workers=8, case_timeout=120)
    ires = impl.run(reqs)
    model = Model(PROP)
    # the model is given the entries in git order (sorted by the harness; checked by sorted_entries)
    def sortkey(e):
        f = e.split(":")
        return (unhx(f[0]), (int(f[12], 16) >> 12) & 3)
    mres = model.run(["index %x %s" % (v, ",".join(sorted(es, key=sortkey)) or "_") for v, es in meta])
    for q, (v, es), r, m in zip(reqs, meta, ires, mres):
        rep.case("index-file", key=q["es"] + q["v"], nontrivial=len(es) > 1, sample={"version": v, "entries": len(es)})
        if "file" not in r:
            rep.fail("index-write", "Index.write failed: %r" % (r,), q)
            continue
        data = unhx(r["file"])
        body, trailer = data[:-20], data[-20:]
        mbytes, msorted = m.split(" ") if " " in m else (m, "")
        if mbytes != hx(body):
            rep.disagree("Index.write bytes vs Index.write_index", {"v": v, "es": q["es"][:3000]}, mbytes[:400], hx(body)[:400])
        if msorted != "sorted":
            rep.disagree("harness sort vs Index.sorted_entries", {"es": q["es"][:2000]}, msorted, "sorted")
        want_tr = b"\0" * 20 if q["skip_hash"] else hashlib.sha1(body).digest()
        if trailer != want_tr:
            rep.fail("index-trailer", "index trailer is not the SHA-1 of the body", q)
        # dulwich reads back what it wrote, in git order
        back = r.get("back", "")
        wantback = []
        for e in sorted(es, key=sortkey):
            f = e.split(":")
            for k in (5, 6, 10):
                f[k] = "%x" % (int(f[k], 16) % 2**32)
            fl, xf = int(f[12], 16), int(f[13], 16)
            f[12] = "%x" % ((fl & 0xF000) | (0x4000 if xf else 0))
            wantback.append(":".join(f))
        if back != (",".join(wantback) or "_"):
            rep.fail("index-roundtrip", "index written and read back differs (or is not in git order)", {"v": v, "es": q["es"][:2000]}, got=back[:300])
        if "git" in r:
            want = ",".join("%s:%o:%s:%d" % (e.split(":")[0], int(e.split(":")[7], 16), e.split(":")[11], (int(e.split(":")[12], 16) >> 12) & 3)
                            for e in sorted(es, key=sortkey)) or "_"
            if r.get("gitrc") != 0 or r["git"] != want:
                rep.fail("git-reads-dulwich-index", "git ls-files on the index dulwich wrote differs: %s" % r.get("giterr", "")[:100],
                         {"v": v, "es": q["es"][:2000]}, git=r["git"][:300], want=want[:300])
    # 5. git-written indexes
    reqs = []
    for k in range(25 if not thorough else 500):
        v = rng.choice([2, 3, 4])
        chosen = rng.sample([n for n in ns if b"\n" not in n and b"\t" not in n], rng.randrange(1, 8))
        its, skip = [], []
        for name in chosen:
            if rng.random() < 0.2:
                for st in rng.sample([1, 2, 3], rng.randrange(1, 4)):
                    its.append([hx(name), "100644", hashlib.sha1(name + bytes([st])).hexdigest(), st])
            else:
                its.append([hx(name), rng.choice(["100644", "100755", "120000", "160000"]), hashlib.sha1(name).hexdigest(), 0])
                if rng.random() < 0.2 and all(32 < c < 127 for c in name):
                    skip.append(hx(name))
        reqs.append({"fn": "git_index", "v": v, "items": its, "skip": skip})
    nskip = 0
    for q, r in zip(reqs, impl.run(reqs)):
        rep.case("git-index", key=repr(q), nontrivial=len(q["items"]) > 1)
        if "giterr" in r:
            rep.note("git update-index refused a generated entry: %s" % r["giterr"][:80])
            continue
        if "exc" in r or r.get("got") != r.get("want"):
            rep.fail("dulwich-reads-git-index", "dulwich reads a git-written index differently from git ls-files", q, got=str(r)[:400])
        elif r.get("git_skipped") != r.get("skipped") and q["v"] >= 2:
            rep.fail("dulwich-reads-git-index", "skip-worktree bits differ", q, got=r.get("skipped"))
        else:
            nskip += len(r.get("skipped") or [])
    rep.extra["skip_worktree_entries_compared"] = nskip
    # model reads the git-written files (entries only; extensions/trailer are the unread rest)
    files = [r["file"] for r in impl.run(reqs[:10]) if isinstance(r, dict) and "file" in r and "got" in r]
    for f, m in zip(files, model.run(["read_index " + f for f in files])):
        rep.case("model-reads-git-index", key=f[:200], nontrivial=True)
        if m == "none":
            rep.disagree("git-written index vs Index.read_index", {"file": f[:2000]}, m, "parsed by dulwich")
    # extensions through a rewrite: unknown ones kept, git's layout tables and the cache tree dropped, git reads the result
    import corr_C11_ext
    corr_C11_ext.run(rep)


def replay(rep, body):
    run(rep)
