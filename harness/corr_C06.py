"""C06 — push status is truthful: Model/Receive.v vs a real ReceivePackHandler and LocalGitClient.send_pack."""
import itertools
from common import Model, Impl, hx

PROP = "C06"
LEVEL = "proof"
REFS = [b"refs/heads/m", b"refs/heads/n", b"refs/tags/t"]


def run(rep):
    rng = rep.rng
    thorough = rep.tier == "thorough"
    rep.extra["rule"] = ("server states: every assignment of {absent, A, B} to three refs; command lists of length 1..3 over those "
                         "refs with old in {zero, A, B, C} and new in {zero (delete), A, B, C (sent in the pack), D (in no pack "
                         "and not in the store)}; capability sets {atomic} x {side-band-64k}; sampled in quick, complete for "
                         "lists up to 2 in thorough; duplicate refs in one push included (outside the theorem's NoDup, compared "
                         "with the model's rollback).  Real ReceivePackHandler over an in-memory pkt-line pipe on a bare disk "
                         "repository; LocalGitClient.send_pack on the same states.  distinct non-trivial = distinct (state, commands, caps)")
    rep.trusted += ["report-status lines are parsed by the harness with dulwich's own Protocol reader"]
    impl = Impl(PROP, case_timeout=120)
    ids = impl.run([{"fn": "ids"}])[0]
    model = Model(PROP)
    states = list(itertools.product(["-", "A", "B"], repeat=3))
    olds, news = ["Z", "A", "B", "C"], ["Z", "A", "B", "C", "D"]
    allcmds = [(o, n, r) for o in olds for n in news for r in range(3) if not (o == "Z" and n == "Z")]
    cases = []
    if thorough:
        for st in states:
            for c in allcmds:
                cases.append((st, [c]))
            for c1 in rng.sample(allcmds, 25):
                for c2 in rng.sample(allcmds, 12):
                    cases.append((st, [c1, c2]))
    n = 700 if not thorough else 6000
    for _ in range(n):
        st = rng.choice(states)
        k = rng.choice([1, 2, 2, 3])
        cs = [rng.choice(allcmds) for _ in range(k)]
        if rng.random() < 0.7:
            # mostly plausible commands: old value = current value
            cs = [((st[r] if st[r] != "-" else "Z") if rng.random() < 0.7 else o, nn, r) for (o, nn, r) in cs]
            cs = [c for c in cs if not (c[0] == "Z" and c[1] == "Z")] or [("Z", "A", 0)]
        cases.append((st, cs))
    reqs, lines, meta = [], [], []
    for st, cs in cases:
        atomic = rng.random() < 0.5
        sideband = rng.random() < 0.3
        refs = [[hx(REFS[i]), v] for i, v in enumerate(st) if v != "-"]
        cmds = [[o, nn, hx(REFS[r])] for o, nn, r in cs]
        reqs.append({"fn": "push", "refs": refs, "cmds": cmds, "atomic": atomic, "sideband": sideband,
                     "layout": rng.choice(["loose", "loose", "packed", "stale-packed"])})
        enc = lambda x: hx(ids[x].encode())
        objs = ",".join(enc(x) for x in ("A", "B") + (("C",) if any(c[1] == "C" for c in cs) else ()))
        mrefs = ",".join("%s=%s" % (hx(REFS[i]), enc(v)) for i, v in enumerate(st) if v != "-") or "_"
        mcmds = ",".join("%s:%s:%s" % (enc(o), enc(nn), hx(REFS[r])) for o, nn, r in cs)
        lines.append("push %d %s %s %s" % (atomic, objs, mrefs, mcmds))
        meta.append((st, cs, atomic, sideband))
    ires = impl.run(reqs)
    mres = model.run(lines)
    lreqs = [dict(q, fn="local_push") for q in reqs[::4] if len({c[2] for c in q["cmds"]}) == len(q["cmds"])]
    for q, r, m, (st, cs, atomic, sideband) in zip(reqs, ires, mres, meta):
        case = {"state": dict(zip([x.decode() for x in REFS], st)), "cmds": [(o, nn, REFS[r].decode()) for o, nn, r in cs], "atomic": atomic, "sideband": sideband}
        dup = len({c[2] for c in cs}) != len(cs)
        rep.case("receive-pack", key=repr(case), nontrivial=True, outcome=",".join(r.get("status", ["exc"])) if isinstance(r, dict) else "worker", sample=case)
        if not isinstance(r, dict) or "status" not in r:
            rep.fail("receive-pack-crashed", "ReceivePackHandler raised: %r" % (r,), case)
            continue
        got = ",".join(r["status"]) + " " + r["refs"]
        if got != m:
            rep.disagree("ReceivePackHandler vs Receive.apply_pack", case, m, got)
        # the property on the implementation
        final = dict(x.split("=") for x in r["refs"].split(",")) if r["refs"] != "_" else {}
        before = {hx(REFS[i]): hx(ids[v].encode()) for i, v in enumerate(st) if v != "-"}
        if r["dangling"]:
            rep.fail("dangling-ref", "after the push the server has refs naming objects it does not have: %s" % r["dangling"], case)
        if not dup:
            for (o, nn, ri), s in zip(cs, r["status"]):
                name = hx(REFS[ri])
                want = None if nn == "Z" else hx(ids[nn].encode())
                if s == "ok" and final.get(name) != want:
                    rep.fail("ok-but-not-updated", "ref reported ok does not hold the requested value", case)
                if s != "ok" and final.get(name) != before.get(name):
                    rep.fail("rejected-but-changed", "ref reported as rejected was changed", case)
                cur = st[ri] if st[ri] != "-" else "Z"
                if s == "ok" and cur != o:
                    rep.fail("stale-old-accepted", "update with a stale old value was reported ok", case)
            if atomic and len(set(x == "ok" for x in r["status"])) > 1:
                rep.fail("atomic-partial", "atomic push reported a mix of ok and failed refs", case)
            if atomic and not all(x == "ok" for x in r["status"]) and final != before:
                rep.fail("atomic-partial", "atomic push failed but changed refs", case)
    for q, r in zip(lreqs, impl.run(lreqs)):
        case = {"refs": q["refs"], "cmds": q["cmds"], "atomic": q["atomic"], "layout": q.get("layout")}
        rep.case("local-send-pack", key=repr(case), nontrivial=True)
        if "status" not in r:
            rep.fail("local-push-crashed", "LocalGitClient.send_pack raised: %r" % (r,), case)
            continue
        if r["dangling"]:
            rep.fail("dangling-ref", "local push left refs naming missing objects: %s" % r["dangling"], case)
        final = dict(x.split("=") for x in r["refs"].split(",")) if r["refs"] != "_" else {}
        for (o, nn, name), s in zip(q["cmds"], r["status"]):
            want = None if nn == "Z" else hx(ids[nn].encode())
            if s == "ok" and final.get(name) != want and nn != "D":
                rep.fail("ok-but-not-updated", "local push: ref reported ok does not hold the requested value", case)
    # the status report on the wire, against Model/ReportStatus.v
    import corr_C06_report
    corr_C06_report.run(rep)


def replay(rep, body):
    run(rep)
