"""C08 — ref updates are atomic compare-and-swap: histories of the real DiskRefsContainer under the deterministic
scheduler, checked for linearizability against the atomic map; Model/RefsFs.v for the single-ref protocol."""
import itertools
from common import Model, Impl

PROP = "C08"
LEVEL = "proof"

INITS = {
    "absent": {"pack_other": True},
    "loose0": {"loose": 0},
    "packed0": {"packed": 0},
    "loose1+packed0": {"loose": 1, "packed": 0},
    "loose0+head": {"loose": 0, "head": True},
}
INITS["wt-loose0"] = {"loose": 0, "nonbare": True}
INITS["wt-absent"] = {"pack_other": True, "nonbare": True}
PACKED_INIT = {"loose0": (0, None), "packed0": (None, 0), "loose1+packed0": (1, 0)}
INIT_VALUE = {"absent": None, "loose0": 0, "packed0": 0, "loose1+packed0": 1, "loose0+head": 0, "wt-loose0": 0, "wt-absent": None}
MODELLED = ("absent", "loose0", "wt-loose0", "wt-absent")


def model_schedule(actors, trace):
    """the interleaving of the model's steps (read, [second read of add_if_new], lock, check under lock, write, unlock)
    read off the real trace"""
    stage = [0] * len(actors)
    need_add = [False] * len(actors)
    out = []
    for t in trace:
        a, call, arg, outcome = t.split(":", 3)
        a = int(a)
        if "logs/" in arg:
            continue
        is_ref = arg.endswith("refs/heads/main")
        is_lock = arg.endswith("refs/heads/main.lock")
        if is_lock and call == "open":
            if outcome not in ("ok", "FileExistsError"):
                return None             # the directory vanished under the actor (another actor's clean-up): not modelled
            if stage[a] == 0:
                out.append(a)           # the model's initial read step (a no-op for operations that do not read first)
            if need_add[a]:
                return None
            out.append(a)
            stage[a] = 2 if outcome == "ok" else 9
        elif is_ref and call in ("open", "stat", "lstat"):
            if stage[a] == 0:
                out.append(a); stage[a] = 1
                need_add[a] = actors[a][0] == "commit" and outcome != "ok"
            elif stage[a] == 1 and need_add[a]:
                out.append(a); need_add[a] = False
                if outcome == "ok":
                    stage[a] = 9        # add_if_new gives up without locking
            elif stage[a] == 2:
                out.append(a); stage[a] = 3
        elif (is_lock and call == "replace") or (is_ref and call in ("remove", "unlink")):
            if stage[a] == 3:
                out.append(a); stage[a] = 4
        elif is_lock and call in ("remove", "unlink"):
            if stage[a] in (3, 4):
                out.append(a); stage[a] = 9
    return out


def packed_schedule(actors, trace):
    """the interleaving of the steps of Model/PackedRefs.v (pack_refs: lock packed-refs, read the ref, rewrite, lock the ref,
    prune, unlock; updates: lock the ref, compare, write | unlock) read off the real trace; None where the trace leaves the
    model (a directory that vanished under an actor, a ref that has no value)"""
    R, RL, P, PL = "refs/heads/main", "refs/heads/main.lock", "packed-refs", "packed-refs.lock"
    stage = [0] * len(actors)
    out = []
    END = 99
    for t in trace:
        a, call, arg, outcome = t.split(":", 3)
        a = int(a)
        if "logs/" in arg:
            continue
        name = arg.split("r.git/", 1)[-1]
        kind = actors[a][0]
        st = stage[a]
        if kind == "pack":
            if st == 0 and name == PL and call == "open":
                if outcome not in ("ok", "FileExistsError"):
                    return None
                out.append(a); stage[a] = 1 if outcome == "ok" else END
            elif st == 1 and name == R and call == "open":
                out.append(a); stage[a] = 2
            elif st in (1, 2) and name == PL and call == "replace":
                if st == 1:
                    return None             # the ref was not listed: nothing of it to pack
                out.append(a); stage[a] = 3
            elif st == 1 and name == PL and call in ("remove", "unlink"):
                return None
            elif st == 3 and name == RL and call == "open":
                if outcome == "FileNotFoundError":
                    # no directory for the loose file, hence no loose file and nobody holding its lock: the model's
                    # lock / compare / unlock steps happen at once and change nothing
                    out += [a, a, a]; stage[a] = END
                    continue
                if outcome not in ("ok", "FileExistsError"):
                    return None
                out.append(a); stage[a] = 4 if outcome == "ok" else END
            elif st == 4 and name == R and call == "open":
                out.append(a); stage[a] = 5
            elif st in (4, 5) and name == RL and call in ("remove", "unlink"):
                if st == 4:
                    return None
                out.append(a); stage[a] = END
        elif kind in ("cas", "set"):
            if st == 0 and name == RL and call == "open":
                if outcome not in ("ok", "FileExistsError"):
                    return None
                out.append(a); stage[a] = 1 if outcome == "ok" else END
            elif st == 1 and name == R and call == "open":
                out.append(a); stage[a] = 2
            elif st in (1, 2) and name == RL and call == "replace":
                if st == 1:
                    out.append(a)           # an unconditional update compares nothing: the model's check step is a no-op
                out.append(a); stage[a] = END
            elif st in (1, 2) and name == RL and call in ("remove", "unlink"):
                if st == 1:
                    return None
                out.append(a); stage[a] = END
        elif kind == "read":
            if st == 0 and name == R and call == "open":
                out.append(a); stage[a] = END
        else:
            return None
    if any(stage[a] != END for a in range(len(actors)) if actors[a][0] != "read"):
        return None
    return out


def packed_ops(actors):
    out = []
    for a in actors:
        k = a[0]
        out.append({"pack": "0:0:0", "cas": "1:%s:%s", "set": "2:%s:0", "read": "4:0:0"}[k] % tuple(x for x in a[1:3] if isinstance(x, int)))
    return ",".join(out)


def model_ops(actors):
    out = []
    for a in actors:
        k = a[0]
        out.append({"cas": "cas:%s:%s", "add": "add:%s", "set": "set:%s", "del": "del:%s", "commit": "commit:%s", "read": "read"}[k] %
                   tuple(100 + x if k == "commit" else x for x in a[1:3] if isinstance(x, int)))
    return ",".join(out)


def spec_apply(cur, op):
    k = op[0]
    if k == "cas":
        return (op[2], True) if cur == op[1] else (cur, False)
    if k == "set":
        return op[1], True
    if k == "add":
        return (op[1], True) if cur is None else (cur, False)
    if k == "del":
        return (None, True) if cur == op[1] and cur is not None else (cur, False)
    if k == "delu":
        return None, True
    if k == "pack":
        return cur, True
    if k == "commit":
        return 100 + op[1], True        # checked separately (the outcome depends on what the committer read)
    if k in ("read", "dict"):
        return cur, cur
    if k == "keys":
        return cur, cur is not None
    raise ValueError(k)


def spec_apply_sym(state, op):
    """the atomic map with a second ref: state = (R is symbolic -> other?, R's own value, other's value)"""
    sym, rv, ov = state
    cur = ov if sym else rv
    k = op[0]
    put = (lambda v: (sym, rv, v)) if sym else (lambda v: (sym, v, ov))
    if k == "sym":
        return (True, rv, ov), True
    if k == "cas":
        return (put(op[2]), True) if cur == op[1] else (state, False)
    if k == "set":
        return put(op[1]), True
    if k == "read":
        return state, cur
    raise ValueError(k)


def linearizable_sym(init, actors, ops, final, final_sym, final_other):
    """as linearizable(), over (R, other) with set_symbolic_ref(R, other) among the operations"""
    n = len(actors)
    for perm in itertools.permutations(range(n)):
        pos = {a: i for i, a in enumerate(perm)}
        if any(ops[a]["resp"] <= ops[b]["inv"] and pos[a] > pos[b] for a in range(n) for b in range(n) if a != b):
            continue
        state, ok = (False, init, 4), True
        for a in perm:
            if ops[a]["res"] == "locked":
                continue
            state, res = spec_apply_sym(state, actors[a])
            if res != ops[a]["res"]:
                ok = False
                break
        if ok and state[0] == final_sym and (state[2] if state[0] else state[1]) == final and state[2] == final_other:
            return perm
    return None


def linearizable(init, actors, ops, final):
    n = len(actors)
    for perm in itertools.permutations(range(n)):
        pos = {a: i for i, a in enumerate(perm)}
        if any(ops[a]["resp"] <= ops[b]["inv"] and pos[a] > pos[b] for a in range(n) for b in range(n) if a != b):
            continue
        cur, ok = init, True
        for a in perm:
            if ops[a]["res"] == "locked":
                continue        # refused with an error: no effect
            cur, res = spec_apply(cur, actors[a])
            if res != ops[a]["res"]:
                ok = False
                break
        if ok and cur == final:
            return perm
    return None


def scenarios(thorough):
    S = []
    def add(init, *actors):
        S.append((init, [list(a) for a in actors]))
    for init in ("loose0", "packed0", "loose0+head"):
        add(init, ("cas", 0, 1), ("cas", 0, 2))
        add(init, ("cas", 0, 1), ("read",))
        add(init, ("cas", 0, 1), ("del", 0))
        add(init, ("del", 0), ("read",))
        add(init, ("pack",), ("read",))
        add(init, ("pack",), ("cas", 0, 1))
        add(init, ("pack",), ("del", 0))
        add(init, ("pack",), ("cas", 0, 1), ("read",))
        add(init, ("pack",), ("del", 0), ("read",))
        add(init, ("set", 1), ("set", 2))
        add(init, ("cas", 0, 1), ("keys",))
        add(init, ("pack",), ("dict",))
    add("loose1+packed0", ("del", 1), ("read",))
    add("loose1+packed0", ("delu",), ("read",))
    add("loose1+packed0", ("cas", 1, 2), ("read",))
    add("loose1+packed0", ("pack",), ("read",))
    add("loose1+packed0", ("pack",), ("del", 1), ("read",))
    add("absent", ("add", 1), ("add", 2))
    add("absent", ("add", 1), ("read",))
    add("absent", ("add", 1), ("cas", 1, 2))
    add("absent", ("add", 1), ("del", 1), ("read",))
    add("loose0+head", ("cas", 0, 1, "via-head"), ("cas", 0, 2))
    add("loose0+head", ("cas", 0, 1, "via-head"), ("read", "via-head"))
    for init in ("wt-loose0", "wt-absent"):
        add(init, ("commit", 1), ("commit", 2))
        add(init, ("commit", 1), ("commit", 2), ("read",))
    add("wt-loose0", ("commit", 1), ("cas", 0, 3))
    add("wt-loose0", ("commit", 1), ("commit", 2), ("commit", 3))
    # a name turned symbolic while an update of it is under way (refs/heads/other holds value 4)
    for init in ("loose0", "packed0"):
        add(init, ("set", 1), ("sym",))
        add(init, ("cas", 0, 1), ("sym",))
        add(init, ("set", 1), ("sym",), ("read",))
    # two maintenance processes and one writer: every single pre-emption
    add("packed0", ("pack",), ("set", 1), ("pack",))
    add("loose0", ("pack",), ("cas", 0, 1), ("pack",))
    if thorough:
        for init in ("loose0", "packed0"):
            add(init, ("cas", 0, 1), ("cas", 0, 2), ("cas", 1, 3))
            add(init, ("cas", 0, 1), ("cas", 1, 2), ("read",))
            add(init, ("pack",), ("pack",), ("cas", 0, 1))
            add(init, ("pack",), ("set", 1), ("del", 1))
    return S


def run(rep):
    thorough = rep.tier == "thorough"
    rep.extra["rule"] = ("2-3 actors, each with its own Repo object on one repository, one operation each drawn from {set_if_equals, "
                         "unconditional set, add_if_new, remove_if_equals (conditional / unconditional), pack_refs, read, allkeys, as_dict, "
                         "WorkTree.commit}, from initial states {absent, loose, packed, loose + stale packed, loose behind "
                         "HEAD}; every interleaving at the granularity of os.open / builtins.open / os.replace / os.remove / os.stat / "
                         "os.scandir ... with at most 2 pre-emptions (3 in thorough), capped per scenario; each history (invocation / "
                         "response positions, results, final value) is checked for linearizability against the atomic map by brute force; "
                         "commit scenarios: every commit reported successful is an ancestor of the final tip; for loose-only scenarios the "
                         "model's steps (read, lock, check under lock, write, unlock) are read off the real trace and the model is run on "
                         "that interleaving.  An operation that raises counts as an error without effect (the statement lets losers fail). "
                         "distinct non-trivial = distinct (initial state, actors, schedule)")
    rep.trusted += ["harness/sched.py interposition", "the brute-force linearizability checker in corr_C08.py (search for failing input only)"]
    impl = Impl(PROP, case_timeout=1200)
    model = Model(PROP)
    scen = scenarios(thorough)
    reqs = [{"fn": "explore", "init": INITS[i], "actors": a, "preempt": 2 if not thorough else 3, "max_runs": 220 if not thorough else 2500} for i, a in scen]
    for q in reqs:
        if sum(1 for a in q["actors"] if a[0] == "pack") >= 2 and len(q["actors"]) == 3:
            q.update(preempt=1, max_runs=3000 if not thorough else 12000)
    total, unclean = 0, {}
    lines, plan = [], []
    packed_cases = []
    for (iname, actors), q, r in zip(scen, reqs, impl.run(reqs)):
        if "runs" not in r:
            rep.fail("explore-worker", "exploration failed: %r" % (r,), {"init": iname, "actors": actors})
            continue
        spec_actors = [[x for x in a if x not in ("via-head", "base")] for a in actors]
        has_commit = any(a[0] == "commit" for a in actors)
        for x in r["runs"]:
            total += 1
            case = {"init": iname, "actors": actors, "schedule": x["sched"]}
            rep.case("history", key=(iname, repr(actors), x["sched"]), nontrivial=True, outcome=repr([o["res"] for o in x["ops"]]), sample=case)
            full = dict(case, results=[o["res"] for o in x["ops"]], final=x["final"], loose=x["loose"], packed=x["packed"], trace=x["trace"])
            for o in x["ops"]:
                if isinstance(o["res"], str) and o["res"].startswith("exc:"):
                    k = o["res"].split(":")[1]
                    unclean[k] = unclean.get(k, 0) + 1
                    o["res"] = "locked"        # an error: must have had no effect, which the checks below verify
            if x["locks"]:
                rep.fail("lock-left-behind", "lock files left after all actors finished: %s" % x["locks"], full)
            if has_commit:
                won = [100 + a[1] for a, o in zip(actors, x["ops"]) if a[0] == "commit" and o["res"] is True]
                lost = [c for c in won if c not in x["anc"]]
                if lost:
                    rep.fail("lost-commit", "commit %s was reported successful but is not in the history of the final tip %s (history %s)" % (lost, x["final"], x["anc"]), full)
            elif any(a[0] == "sym" for a in actors):
                is_sym = isinstance(x["loose"], str) and x["loose"].startswith("ref:")
                if linearizable_sym(INIT_VALUE[iname], spec_actors, x["ops"], x["final"], is_sym, x.get("other")) is None:
                    rep.fail("not-linearizable", "no order of the operations explains results %s with %s = %s (%s), refs/heads/other = %s" % (
                        [o["res"] for o in x["ops"]], "refs/heads/main", x["final"], "symbolic" if is_sym else "direct", x.get("other")), full)
            elif linearizable(INIT_VALUE[iname], spec_actors, x["ops"], x["final"]) is None:
                deleted = any(a[0] in ("del", "delu") and o["res"] is True for a, o in zip(actors, x["ops"]))
                packing = any(a[0] == "pack" for a in actors)
                if deleted and packing and x["final"] is not None and x["final"] == x["packed"] and x["loose"] is None:
                    cls = "pack-refs-resurrects-deleted-ref"
                else:
                    cls = "not-linearizable"
                rep.fail(cls, "no order of the operations consistent with real time explains results %s and final value %s (initial %s)" % (
                    [o["res"] for o in x["ops"]], x["final"], INIT_VALUE[iname]), full)
            if iname in PACKED_INIT and any(a[0] == "pack" for a in actors) and all(a[0] in ("pack", "cas", "set", "read") and "via-head" not in a for a in actors):
                packed_cases.append(full)
            if iname in MODELLED and all(a[0] in ("cas", "add", "set", "del", "commit", "read") for a in actors):
                ms = model_schedule(actors, x["trace"])
                if ms is None:
                    continue
                r0 = INIT_VALUE[iname]
                lines.append("run %s %s %s" % ("-" if r0 is None else r0, model_ops(spec_actors), ".".join(map(str, ms)) or "_"))
                res = ",".join("T" if o["res"] is True else "F" if o["res"] is False else "L" if o["res"] == "locked" else "S" + ("-" if o["res"] is None else str(o["res"])) for o in x["ops"])
                plan.append((full, "%s | %s" % (res, "-" if x["final"] is None else x["final"])))
    # the loose + packed-refs model on the interleavings of scenarios made of pack_refs, updates and reads
    plines, pplan = [], []
    for full in packed_cases:
        ms = packed_schedule(full["actors"], full["trace"])
        if ms is None:
            continue
        l0, p0 = PACKED_INIT[full["init"]]
        plines.append("prun %s %s %s %s" % ("-" if l0 is None else l0, "-" if p0 is None else p0, packed_ops(full["actors"]), ".".join(map(str, ms)) or "_"))
        res = ",".join("*" if a[0] == "read" else "1" if r is True else "2" if r is False else "3" if r == "locked" else "?" for a, r in zip(full["actors"], full["results"]))
        pplan.append((full, "%s | %s | %s" % (res, "-" if full["loose"] is None else full["loose"], "-" if full["packed"] is None else full["packed"])))
    for (full, want), m in zip(pplan, model.run(plines)):
        parts = [x.strip() for x in m.split("|")]
        if len(parts) == 3:
            codes = parts[0].split(",")
            parts[0] = ",".join("*" if a[0] == "read" else c for a, c in zip(full["actors"], codes))
        got = " | ".join(parts)
        if got != want:
            rep.disagree("pack_refs / updates under schedule vs PackedRefs.run", full, got, want)
    rep.extra["histories_run_through_packed_model"] = len(plines)
    for (full, want), m in zip(plan, model.run(lines)):
        parts = [p.strip() for p in m.split("|")]
        got = "%s | %s" % (parts[0], parts[1]) if len(parts) >= 2 else m
        if got != want:
            rep.disagree("ref operations under schedule vs RefCas.run", full, got, want)
    rep.extra["histories"] = total
    rep.extra["histories_run_through_model"] = len(lines)
    rep.extra["operations_that_raised_without_effect"] = unclean


def replay(rep, body):
    run(rep)
