"""Regenerates /verif/MANIFEST.json from the CLAIMS table below."""
import json, os
V = os.path.dirname(os.path.dirname(os.path.abspath(__file__)))
NOTE = ("Trusted: Coq 8.16.1 kernel; extraction with ExtrOcamlBasic only; OCaml driver; Python harness; the hand "
        "reading of the code into Gallina (attacked on every run by the correspondence check). ")
TECH = "Coq proof over a hand-written Gallina model + differential correspondence (extracted OCaml model vs /repo working tree)"
CLAIMS = {
 "C03": dict(ref="7/C03",
   text="Proof (Coq): for all bases < 4 GiB, targets and valid opcode lists apply(create)=target; every byte string as delta either yields output of the declared length made of base/delta slices or the delta error; the Rust decoder (modelled with usize arithmetic and dev-profile panics) equals the Python decoder on all inputs, so it never panics; allocation bounds for both. Tied to /repo by a correspondence check of the extracted model against the pure-Python and rebuilt Rust codecs and C git. Partial: wall-clock/RSS of the real process is measured (child under RLIMIT_AS), not proved.",
   note="difflib/similar outputs are checked inputs (valid_opcodesb); C git is a third codec. All six theorems closed under the global context."),
 "C19": dict(ref="7/C19",
   text="Proof (Coq): length-prefix round trip for all 16-bit lengths; pkt_line frames are well-formed (<= 65520, 4 hex digits) or refused exactly above 65516 bytes; pkt_seq/read_pkt_seq round trip for every payload sequence incl. empty payloads and any trailing bytes; ReceivableProtocol.read and read_pkt_line are functions of the remaining stream for every recv schedule; PktLineParser delivers the same events for every fragmentation; side-band split/demux round trip; buffered writer = concatenation. Correspondence: model vs dulwich.protocol on all 65536 prefixes + non-hex alphabet, every schedule/partition of short streams, boundary sizes. Partial: capability/ref-line round trip is checked on the implementation only (no theorem).",
   note="Nine theorems closed under the global context. An independent 3-line encoder in the harness builds input streams."),
 "C20": dict(ref="7/C20",
   text="Proof (Coq): for every byte string v the bytes dulwich writes for v after 'key =' are read back as v by dulwich's _parse_string and by git's parse_value (transcribed from config.c 2.39 incl. CRLF folding and whitespace-to-space rule); every subsection name the writer accepts is read back unchanged. Correspondence: writer and both readers vs dulwich and the git binary, exhaustive over the quantifier's 11-symbol alphabet to length 4/5 plus VT/FF/0x80 mixes and random values; dulwich reads files git wrote. Partial: whole-file behaviour (section headers, key case rules, multi-value order, set/add sequences) is checked on the implementation and against git config --list, without a theorem.",
   note="Three theorems closed under the global context. git 2.39.5 is the reference reader/writer; its parse_value is transcribed by hand and validated against the binary on every run."),
 "C16": dict(ref="7/C16",
   text="Proof (Coq): (1) dulwich's check_ref_format and git's check_refname_format (refs.c, transcribed) accept exactly the same names, for every NUL-free byte string of any length — bisimulation of the two automata over all 255 bytes with the 1843 reachable product states enumerated by vm_compute (finite state space, unbounded names). (2) files backend as a two-level store (loose + packed): pack_refs changes no visible ref and no resolution through symbolic refs, in every state; set_if_equals / add_if_new / remove_if_equals / set_symbolic_ref change exactly the resolved name and succeed exactly when their condition holds, otherwise leave the store unchanged; a deleted ref cannot resurface from packed-refs. Correspondence: names exhaustive to length 3-4 over a 21-symbol class alphabet vs dulwich and the git binary; operation sequences (loose/packed/symbolic/HEAD, D/F collisions, reopen) on a real DiskRefsContainer vs the model step by step, git for-each-ref/symbolic-ref on the resulting directory, Dict and Reftable backends on the restricted sequence class. Partial: directory bookkeeping is abstracted to the collision rule; packed-refs file codec, peeled values and NamespacedRefsContainer are exercised, not proved; names with NUL cannot be given to the git binary.",
   note="Nine theorems closed under the global context. git 2.39.5 check-ref-format / for-each-ref / symbolic-ref are oracles."),
 "C11": dict(ref="7/C11",
   text="Proof (Coq): git's offset varint round-trips for every n; v4 path prefix compression round-trips against any previous path; one cache entry written in version 2, 3 or 4 reads back with every field (names of any length incl. the saturated 12-bit length field, all flag / extended-flag combinations, dev/ino/size modulo 2^32); a whole file (header, any number of entries, v4 chaining, version bump) reads back as the same entry list followed by the untouched remainder (extensions, trailer). Correspondence: helper level (varint, compression), entries on boundary stat values and names of length 0xFFE..0x1001, whole files through Index.write vs model bytes; git ls-files on dulwich-written indexes; git-written indexes (versions 2-4, conflict stages, skip-worktree) read by dulwich and by the model. Partial: sort order, SHA trailer check and extension round trip are checked on the implementation and against git each run, not proved; float times are not modelled.",
   note="Four theorems closed under the global context. git 2.39.5 ls-files / update-index are oracles."),
 "C15": dict(ref="7/C15",
   text="Proof (Coq) over Gallina twins of both implementations: parse_tree (Python order of checks vs Rust order, u32 overflow, digits-only modes) returns the same entries or fails in both for every byte string, id length and strict flag; key_entry's byte comparison and Rust's cmp_with_suffix order every pair of entries alike (names without NUL and '/'); apply_delta Rust = Python on every delta (C03's theorem, usize arithmetic and dev-profile panics modelled); bisect_find_sha twins agree and the Rust i64 arithmetic cannot overflow for indexes below 2^62. Differential check on the implementation with the extension rebuilt from the working tree: exhaustive short mode strings, truncations, both id lengths; dictionaries with prefix collisions; virtual id tables with indexes around 2^31; C03's delta sets; _merge_entries/_count_blocks/_is_tree on random trees and blobs (no model: compared twin against twin only). Partial: repository-level invariance is not stated as a theorem; names containing NUL or '/' and probes that are not 20/32 bytes are outside the stated domain.",
   note="Four theorems closed under the global context."),
 "C13": dict(ref="7/C13",
   text="Proof (Coq): _find_lcas (flags, _DNC propagation, final redundancy filter) returns exactly the maximal common ancestors of c1 and c2s for every DAG, every query and every order in which the work list is popped (the pop position is an arbitrary function, which covers every assignment of timestamps, ties and backwards clocks, since timestamps only order the heap); can_fast_forward is exactly the ancestor test. Invariant proof over the loop (soundness of the three flag maps, propagation closure for nodes off the work list, candidates) plus completeness along ancestor paths and existence of a maximal common ancestor above any common ancestor. Correspondence: every DAG up to 4 commits (5 in thorough) x timestamp vectors over {0,1,2} x all query pairs vs the implementation and an independent closure-based reference; random DAGs to 300 commits with skewed/negative stamps through find_merge_base / can_fast_forward / independent on a MemoryRepo; git merge-base --all/--is-ancestor on a sample. Partial: the theorem is conditional on the fuelled model loop finishing (never observed to run out: the runner would report 'fuel'); independent/find_octopus_base and the history walker (Walker, topo order) are checked on the implementation only; commit-graph-backed parents are C14's concern.",
   note="Two theorems; axiom used: Classical_Prop.classic (standard library), for the existence of a maximal element."),
 "C01": dict(ref="7/C01",
   text="Proof (Coq): (a) the ShaFile cache automaton — after any sequence of setters, raw-content replacements, Blob.chunked assignments and observations (as_raw, id, get_id(SHA-256), copy) every observation belongs to the current field values; (b) header folding: every header list (multi-line values: mergetag, gpgsig, extra headers) and body read back unchanged through _format_message/_parse_message; (c) trees: entries serialised with %04o modes are parsed back unchanged for every NUL-free name, every 32-bit mode, both id lengths. Correspondence: objects drawn from git's grammar (odd identities, negative / >2^32 times, -0000, half-hour zones, encoding, mergetags, PGP/SSH signatures, empty and newline-less messages, tags of every target type, trees with prefix collisions, chunked blobs): id vs hashlib SHA-1/SHA-256, parse(serialise)=fields, forced re-serialisation byte-exact, one field changed leaves all other headers alone (compared through the model's parser), git hash-object agrees on every id; setter/observation sequences on live objects; helper-level _format_message/_parse_message/serialize_tree vs the model. Partial: parse/format_time_entry and timezone arithmetic (float division in format_timezone) are exercised, not proved; SHA itself is hashlib's; tree sort order is checked by the model's tree_sorted on every run, not proved about Python's sorted().",
   note="Three theorems closed under the global context. Known finding: message=None parses back as b''."),
}
props = [json.loads(l) for l in open(os.path.join(V, "properties.jsonl"))]
base = json.load(open("/root/.vp/BASELINE.json"))
checks = []
for p in props:
    pid = p["id"]
    if pid in CLAIMS:
        c = CLAIMS[pid]
        checks.append({"property_id": pid, "quick_cmd": "./check %s --tier quick" % pid,
                       "thorough_cmd": "./check %s --tier thorough" % pid,
                       "evidence_file": "/verif/evidence/%s.json" % pid,
                       "replay_cmd_template": "./check %s --replay {path}" % pid,
                       "engine": "coq-model-correspondence",
                       "level_claimed": {"category": c.get("category", "proof"), "text": c["text"], "design_ref": "DESIGN.md section " + c["ref"]},
                       "level_note": NOTE + c["note"], "technique": c.get("tech", TECH)})
na = [{"property_id": p["id"], "reason": "not yet built in this round (design in DESIGN.md section 7); no check is registered, nothing is claimed"}
      for p in props if p["id"] not in CLAIMS]
fixes = os.popen("git -C /repo log --format='%h %s' 671b511..HEAD").read().strip().split("\n")
m = {"version": 1, "setup_cmd": "./setup.sh",
     "hooks": {"guard": "DULWICH_VERIF",
               "enable": "no source hooks: the implementation is observed from child interpreters (harness/implworker.py) that import /repo's working tree and the Rust crates rebuilt by cargo build --offline into /verif/build",
               "baseline_off_cmd": base["cmd"], "source_commits": [], "add_only": True},
     "engines": [{"name": "coq-model-correspondence", "path": "/verif/check", "serves_properties": [c["property_id"] for c in checks],
                  "kind_free_text": "Coq 8.16 theorems over a hand-written Gallina model (coq/), extracted to OCaml and compared on every run with /repo's working tree (harness/corr_*.py)"}],
     "checks": checks,
     "notes": "fix: commits in /repo (unguarded repairs of genuine defects): " + "; ".join(fixes) + ". known_findings.json lists fixed and known findings.",
     "not_applicable": na}
json.dump(m, open(os.path.join(V, "MANIFEST.json"), "w"), indent=1)
print("claimed:", [c["property_id"] for c in checks])
