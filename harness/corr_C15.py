"""C15 — Rust extensions vs pure-Python fallbacks: differential test of every
twin pair on the implementation (extension rebuilt from the working tree), with
the Gallina twins of Model/RustTwins.v and Model/Delta.v as a third voice."""
import hashlib, itertools
from common import Model, Impl, hx, unhx
import gen_delta as GD

PROP = "C15"
LEVEL = "proof"
MODE_ALPHA = [b"0", b"1", b"4", b"7", b"8", b"9", b"+", b"-", b"_", b"o", b"x", b" ", b"\t"]


def twins(rep, kind, case, r, cmpkeys=("py", "rs")):
    """record a case and flag a divergence between the two implementations"""
    if not isinstance(r, dict) or "py" not in r:
        rep.fail("worker-died", "%s: worker died or raised: %r" % (kind, r), case)
        return
    py, rs = r["py"], r["rs"]
    rep.case(kind, key=repr(sorted(case.items())), nontrivial=py not in ("fail",), outcome="same" if py == rs else "differ", sample=case)
    if rs == "absent":
        rep.note("Rust twin absent for %s" % kind)
        return
    for who, v in (("py", py), ("rs", rs)):
        if str(v).startswith("baseexc"):
            rep.fail("twin-panic", "%s %s raised a non-Exception (%s)" % (kind, who, v), case)
    if py != rs:
        rep.fail("twins-differ:" + kind, "%s: Python and Rust disagree" % kind, case, py=str(py)[:200], rs=str(rs)[:200])


def tree_payloads(rep):
    rng = rep.rng
    out = []
    sha1 = bytes(range(1, 21)); sha2 = bytes(range(101, 133))
    k = 3 if rep.tier == "quick" else 4
    # every short mode string over the alphabet, one well-formed entry around it
    for n in range(0, k + 1):
        for t in itertools.product(MODE_ALPHA, repeat=n):
            m = b"".join(t)
            out.append((20, m + b" name\0" + sha1))
    for m in (b"100644", b"0100644", b"00100644", b"40000", b"040000", b"+100644", b"-100644", b"1_00644", b"0o100644", b" 100644", b"100644 ",
              b"\t100644", b"37777777777", b"40000000000", b"777777777777777777777777", b"100644\xff", b"\xef\xbb\xbf100644", b"1e3", b"0x1F", "०१".encode()):
        for sl, sha in ((20, sha1), (32, sha2)):
            out.append((sl, m + b" f\0" + sha))
            out.append((sl, b"100644 a\0" + sha + m + b" f\0" + sha))
    valid = b"100644 a\0" + sha1 + b"40000 dir\0" + sha1 + b"120000 l\0" + sha1
    for c in range(len(valid) + 1):
        out.append((20, valid[:c]))                    # every truncation: missing terminators, short ids
    out += [(20, b""), (20, b"100644"), (20, b"100644 "), (20, b"100644 a"), (20, b"100644 a\0"), (32, b"100644 a\0" + sha1),
            (20, b" a\0" + sha1), (20, b"100644  \0" + sha1), (20, b"100644 \0" + sha1), (20, b"100644 a b\0" + sha1),
            ]
    for _ in range(300 if rep.tier == "quick" else 6000):
        b = bytearray(valid)
        for _ in range(rng.randrange(1, 3)):
            b[rng.randrange(len(b))] = rng.choice(b" \0017+-_9a\xff")
        out.append((20, bytes(b)))
    return out


def run(rep):
    rng = rep.rng
    thorough = rep.tier == "thorough"
    rep.extra["rule"] = ("parse_tree: every mode string up to length 3/4 over {0,1,4,7,8,9,+,-,_,o,x,space,tab}, odd spellings, every "
                         "truncation of a valid tree, both id lengths, strict on/off; sorted_tree_items: dictionaries with prefix "
                         "collisions and directory/file twins; bisect: virtual sorted tables incl. indexes around 2^31 and start>end; "
                         "apply_delta/create_delta: the C03 exhaustive and mutation sets; _merge_entries/_count_blocks/_is_tree: random "
                         "trees and blobs.  distinct non-trivial = distinct cases whose Python result is not a failure")
    rep.trusted += ["Rust extension rebuilt from /repo/crates with cargo build --offline (dev profile)"]
    impl = Impl(PROP, case_timeout=120)
    model = Model(PROP)
    # ---- parse_tree
    pays = tree_payloads(rep)
    reqs, lines = [], []
    for sl, t in pays:
        for strict in ("0", "1"):
            reqs.append({"fn": "parse_tree", "text": hx(t), "shalen": str(sl), "strict": strict})
            lines.append("parse %d %s %s" % (sl, strict, hx(t)))
    ires = impl.run(reqs)
    mres = model.run(lines)
    for q, r, m in zip(reqs, ires, mres):
        twins(rep, "parse_tree", q, r)
        if isinstance(r, dict) and "py" in r:
            mpy, mrs = m.split(" ")
            canon = lambda s: s if s in ("fail", "_", "absent") else ",".join(":".join([p.split(":")[0], p.split(":")[1], hx(bytes.fromhex(p.split(":")[2]))]) for p in s.split(","))
            if canon(r["py"]) != mpy:
                rep.disagree("parse_tree (Python) vs RustTwins.py_parse_tree", q, mpy[:200], r["py"][:200])
            if r["rs"] != "absent" and canon(r["rs"]) != mrs:
                rep.disagree("parse_tree (Rust) vs RustTwins.rs_parse_tree", q, mrs[:200], r["rs"][:200])
    # ---- sorted_tree_items
    names = [b"a", b"a.b", b"a-", b"a0", b"a/", b"ab", b"A", b"a b", b"\xff", b"b", b"a.", b"a-b", b"aa", b"a\x01", b"a\x2e", b"a\x30",
             b"a/b", b"a/0", b"a\x00", b"a\x00b", b"a//", b"/a"]
    # names parse_tree lets through although no valid tree holds them ("/" and NUL inside) are part of the domain
    pool = sorted({p + sep + t for p in (b"a", b"ab", b"foo") for sep in (b"", b"/", b"\x00", b".", b"-", b"0") for t in (b"", b"a", b"b", b"/", b"\x00", b"z")})
    reqs = []
    for k in range(150 if not thorough else 3000):
        if k % 5 == 4:
            # large dictionaries: a comparator that is not a total order shows up as a panic in Rust's sort only on long slices
            chosen = rng.sample(pool, rng.randrange(25, len(pool)))
        else:
            chosen = rng.sample(names, rng.randrange(1, 9))
        ents = [[hx(n), "%x" % rng.choice([0o100644, 0o40000, 0o120000, 0o160000, 0o100755]), hx(b"1" * 40)] for n in chosen]
        rng.shuffle(ents)
        reqs.append({"fn": "sorted_items", "entries": ents, "name_order": rng.random() < 0.3})
    ires = impl.run(reqs)
    cmplines, cmpmeta = [], []
    for q, r in zip(reqs, ires):
        twins(rep, "sorted_tree_items", {"entries": q["entries"], "name_order": q["name_order"]}, r)
        for who in ("py", "rs"):
            # each twin's output, pair by pair, against the model's comparator for that twin
            if isinstance(r, dict) and not q["name_order"] and r.get(who) not in (None, "fail", "absent") and "," in r[who] and not r[who].startswith("baseexc"):
                seq = r[who].split(",")
                for a, b in zip(seq, seq[1:]):
                    cmplines.append("cmp %s %s %s %s" % (a.split(":")[0], a.split(":")[1], b.split(":")[0], b.split(":")[1]))
                    cmpmeta.append((who, a, b))
    for (who, a, b), m in zip(cmpmeta, model.run(cmplines)):
        rep.case("tree-order-pair", key=(who, a, b), nontrivial=True)
        if m.split(" ")[0 if who == "py" else 1] not in ("lt", "eq"):
            rep.disagree("sorted_tree_items (%s) order vs RustTwins.%s_tree_cmp" % (who, who), {"pair": [a, b]}, m, "adjacent entries in ascending order")
    # ---- bisect
    reqs = []
    for sl in (20, 32):
        for n, base, step in ((0, 5, 3), (1, 5, 3), (2, 5, 3), (7, 10, 10), (1000, 0, 2), (2**31 + 5, 0, 1), (2**33, 7, 3)):
            probes = [base + i * step for i in (0, 1, n // 2, max(n - 1, 0), n)] + [base - 1, base + 1, base + step * n + 1, base + (n // 2) * step + 1]
            for pr in probes:
                if pr < 0:
                    continue
                for (s, e) in ((0, n - 1), (0, n), (n // 2, n - 1), (max(n - 3, 0), max(n - 1, 0)), (2**31 - 2, 2**31 + 2), (3, 1)):
                    if e < -1 or (n < 2**31 and e > n + 1 and s < 2**31) or e >= max(n, 1) + 2:
                        if not (s == 3 and e == 1):
                            continue
                    reqs.append({"fn": "bisect", "n": str(n), "base": str(base), "step": str(step), "shalen": str(sl), "probe": str(pr),
                                 "start": str(s), "end": str(e)})
    # probes that are not ids (other lengths) are refused by both twins
    for pl in (0, 1, 19, 21, 31, 33, 40):
        for (s, e) in ((0, 6), (3, 1), (0, -1)):
            reqs.append({"fn": "bisect", "n": "7", "base": "10", "step": "10", "shalen": "20", "probe": "0", "probelen": str(pl), "start": str(s), "end": str(e)})
    for q, r in zip(reqs, impl.run(reqs)):
        twins(rep, "bisect_find_sha", q, r)
    # ---- apply_delta / create_delta (inputs of C03)
    import corr_C03
    cases = corr_C03.gen_exhaustive(rep)
    if not thorough:
        cases = cases[::3]
    seeds = [("hello", GD.enc(11) + GD.enc(13) + b"\x90\x06" + b"\x02!!" + b"\x91\x06\x05"), ("one", GD.enc(1) + GD.enc(1) + b"\x90\x01\x90\x01"),
             ("b300", GD.enc(300) + GD.enc(305) + b"\x90\x64" + b"\x05abcde" + b"\x91\x64\xc8"), ("empty", b"\x00\x00\x01")]
    for name, d in seeds:
        cases += corr_C03.mutate(rep, name, d, 60 if not thorough else 2000)
    ires = impl.run([{"fn": "apply_both", "src": s, "delta": hx(d)} for _, s, d in cases])
    for (kind, s, d), r in zip(cases, ires):
        if isinstance(r, dict) and "py" in r and r["py"] is not None:
            r2 = {"py": corr_C03.canon_impl(r["py"]), "rs": corr_C03.canon_impl(r["rs"])}
            if r2["py"] != "err" or r2["rs"] != "err" or rng.random() < 0.05:
                twins(rep, "apply_delta", {"src": s, "delta": hx(d)}, r2)
            else:
                rep.evaluations += 1
        else:
            twins(rep, "apply_delta", {"src": s, "delta": hx(d)}, r)
    pairs = corr_C03.gen_pairs(rep)[:40 if not thorough else 600]
    for (b, t), r in zip(pairs, impl.run([{"fn": "create_both", "base": hx(b), "target": hx(t)} for b, t in pairs])):
        rep.case("create_delta", key=(b, t), nontrivial=True)
        if not isinstance(r, dict) or "py" not in r:
            rep.fail("worker-died", "create_delta worker died: %r" % (r,), {"base": hx(b)[:200]})
    # (that both encoders' output decodes to the target under both decoders is checked by C03's matrix)
    # ---- diff_tree helpers
    reqs = []
    tnames = [b"a", b"a.b", b"a-", b"b", b"c", b"a0", b"dir", b"z", b"/abs", b"a/", b"a/b"]
    for _ in range(120 if not thorough else 2500):
        def tree():
            if rng.random() < 0.1:
                return None
            return [[hx(n), "%x" % rng.choice([0o100644, 0o40000, 0o120000]), hx(hashlib.sha1(n + bytes([rng.randrange(3)])).hexdigest().encode())]
                    for n in rng.sample(tnames, rng.randrange(0, 6))]
        reqs.append({"fn": "merge_entries", "path": hx(rng.choice([b"", b"sub", b"a/b", b"sub/", b"/"])), "t1": tree(), "t2": tree()})
    for q, r in zip(reqs, impl.run(reqs)):
        twins(rep, "_merge_entries", q, r)
    reqs = []
    fixed = [b"", b"\n", b"\r", b"a\rb\rc\r", b"a\r\nb", b"x" * 63 + b"\n", b"x" * 64, b"x" * 64 + b"\n", b"x" * 65, b"x" * 128, b"\n" * 70,
             b"a\x0bb\x0cc\x1cd\x1de\x1ef\x85g", bytes(range(256)), b"one\rtwo\rthree\r"]
    for data in fixed:
        reqs.append({"fn": "count_blocks", "data": hx(data), "chunks": None})
    for _ in range(150 if not thorough else 3000):
        n = rng.choice([0, 1, 5, 63, 64, 65, 200, 1000])
        alpha = rng.choice([b"ab\n\n x", b"ab\r\n\r x", bytes(range(256)), b"\n\r\x0b\x0c\x1c\x85ab"])
        data = bytes(rng.choice(alpha) for _ in range(n))
        reqs.append({"fn": "count_blocks", "data": hx(data), "chunks": rng.choice([None, 1, 7, 64])})
    cres = impl.run(reqs)
    mblocks = model.run(["blocks " + q["data"] for q in reqs])
    eres = impl.run([{"fn": "blocks_expected", "blocks": m} for m in mblocks])
    for q, r, m, e in zip(reqs, cres, mblocks, eres):
        twins(rep, "_count_blocks", q, r)
        if isinstance(r, dict) and "py" in r and isinstance(e, dict) and "v" in e:
            for who in ("py", "rs"):
                if r[who] not in ("absent",) and r[who] != e["v"]:
                    rep.disagree("_count_blocks (%s) vs RustTwins.count_blocks" % who, {"data": q["data"][:400], "chunks": q["chunks"]},
                                 e["v"][:200], str(r[who])[:200])
    reqs = [{"fn": "is_tree", "mode": m} for m in (None, "None", "4000", "81a4", "a000", "e000", "0", "c000", "4001", "14000", "ffffffff")]
    for q, r in zip(reqs, impl.run(reqs)):
        twins(rep, "_is_tree", q, r)


def replay(rep, body):
    run(rep)
