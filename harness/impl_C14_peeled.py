"""Implementation side of the peeled-value cache (C14): loose writes, deletions, add_packed_refs, pack_refs and
`git pack-refs --all` on a real repository; after each operation what DiskRefsContainer.get_peeled answers for every ref
(from the container that has been open all along and from a fresh one) and what the ref currently is."""
import os, shutil, subprocess, tempfile
from dulwich.objects import Blob, Commit, Tag, Tree
from dulwich.repo import Repo

GIT_ENV = dict(os.environ, GIT_CONFIG_NOSYSTEM="1", HOME="/nonexistent", GIT_CONFIG_GLOBAL="/dev/null", LC_ALL="C")
REFS = [b"refs/tags/a", b"refs/tags/b", b"refs/heads/x", b"refs/tags/n/e"]


def _objects(store):
    b = Blob.from_string(b"x")
    t = Tree(); t.add(b"f", 0o100644, b.id)
    out = {}
    objs = [b, t]
    for k in (1, 2):
        c = Commit(); c.tree = t.id; c.parents = []; c.author = c.committer = b"a <a@b>"
        c.author_time = c.commit_time = 1700000000 + k; c.author_timezone = c.commit_timezone = 0; c.message = b"c%d" % k
        objs.append(c); out[k] = c

    def tag(n, target):
        g = Tag(); g.name = b"t%d" % n; g.tagger = b"a <a@b>"; g.tag_time = 1700000100 + n; g.tag_timezone = 0
        g.message = b"tag %d" % n; g.object = (type(target), target.id)
        objs.append(g); out[n] = g
    tag(11, out[1]); tag(12, out[2]); tag(13, out[11])
    for o in objs:
        store.add_object(o)
    return {k: v.id for k, v in out.items()}


def peeled_session(req):
    d = tempfile.mkdtemp(prefix="verif-c14p-", dir=os.environ.get("VERIF_SCRATCH") or None)
    try:
        path = os.path.join(d, "r.git")
        r = Repo.init_bare(path, mkdir=True)
        ids = _objects(r.object_store)
        num = {v: k for k, v in ids.items()}
        steps = []
        for op in req["ops"]:
            try:
                k = op[0]
                if k == "s":
                    r.refs[REFS[op[1]]] = ids[op[2]]
                elif k == "d":
                    r.refs.remove_if_equals(REFS[op[1]], None)
                elif k == "a":
                    r.refs.add_packed_refs({REFS[a]: ids[v] for a, v in op[1]})
                elif k == "p":
                    r.refs.pack_refs(all=True)
                elif k == "g":
                    p = subprocess.run(["git", "pack-refs", "--all", "--prune"], cwd=path, env=GIT_ENV, capture_output=True)
                    if p.returncode:
                        return {"err": "git pack-refs: " + p.stderr.decode("latin1")[:200]}
                err = None
            except Exception as e:  # noqa: BLE001
                err = type(e).__name__ + ":" + str(e)[:80]
            fresh = Repo(path)
            try:
                def view(c):
                    out = []
                    for name in REFS:
                        try:
                            cur = num.get(c.refs[name], "?")
                        except KeyError:
                            cur = None
                        try:
                            gp = c.refs.get_peeled(name)
                            gp = None if gp is None else num.get(gp, "?")
                        except KeyError:
                            gp = None
                        out.append([cur, gp])
                    return out
                steps.append({"same": view(r), "fresh": view(fresh), "err": err})
            finally:
                fresh.close()
        r.close()
        return {"steps": steps}
    finally:
        shutil.rmtree(d, ignore_errors=True)


HANDLERS = {"peeled_session": peeled_session}
