"""Implementation side of C07: the real _GitFile under the deterministic scheduler (harness/sched.py), every
interleaving of a few writers / readers with fault injection; fault injection at every scheduling point inside the
dulwich routines that write through the lock protocol."""
import os, shutil, tempfile
import sched
from dulwich.file import FileLocked, GitFile

CALLNO = {"os.open": "os.open", "f.write": "f.write", "f.flush": "f.flush", "os.fsync": "os.fsync", "f.close": "f.close",
          "os.replace": "os.replace", "os.remove": "os.remove", "open": "open"}


class CallerAbort(Exception):
    pass


def data(n):
    return b"data-%d" % n


def undata(b):
    return "?" if not b.startswith(b"data-") or not b[5:].isdigit() else b[5:].decode()


def explore(req):
    """all schedules (bounded pre-emptions, at most one fault) of the given actors on one path"""
    spec = req["actors"].split(",")
    t0 = req["t0"]
    runs = []

    def make():
        d = tempfile.mkdtemp(prefix="verif-lk-", dir=os.environ.get("VERIF_SCRATCH") or None)
        p = os.path.join(d, "f")
        if t0 is not None:
            with open(p, "wb") as f:
                f.write(data(t0))

        def writer(n, aborts):
            def run():
                try:
                    with GitFile(p, "wb") as f:
                        f.write(data(n))
                        if aborts:
                            raise CallerAbort()
                    return "C"
                except FileLocked:
                    return "L"
                except CallerAbort:
                    return "A"
            return run

        def reader():
            try:
                with GitFile(p, "rb") as f:
                    return "S" + undata(f.read())
            except FileNotFoundError:
                return "S-"

        actors = [writer(int(a[1:]), a[0] == "a") if a[0] in "wa" else reader for a in spec]
        s = sched.Sched(root=d)

        def finish(r):
            try:
                c = undata(open(p, "rb").read()) if os.path.exists(p) else "-"
                return c, os.path.exists(p + ".lock"), sorted(os.listdir(d))
            finally:
                shutil.rmtree(d, ignore_errors=True)
        return s, actors, finish

    for prefix, r, (content, locked, names) in sched.explore(make, max_runs=req.get("max_runs", 5000), faults=tuple(req.get("faults", ())),
                                                             max_faults=1, preemption_bound=req.get("preempt")):
        tr = ["%d:%s%s" % (a, call, "x" if o.startswith("raise") else "") for (a, call, args, o) in r["trace"]]
        sch = ["%d%s" % (a, "x" if o.startswith("raise") else "") for (a, call, args, o) in r["trace"]]
        outs = []
        for x in r["results"]:
            outs.append(x[1] if x and x[0] == "ok" else "F" if x and x[0] == "exc" else "@")
        # mutual exclusion read off the real trace: an os.open(O_EXCL) succeeding while another actor is between its
        # own successful open and its replace / remove
        holders, overlap = set(), None
        for (a, call, args, o) in r["trace"]:
            if call == "os.open" and o == "ok":
                if holders:
                    overlap = (a, sorted(holders))
                holders.add(a)
            elif call in ("os.replace", "os.remove") and a in holders and (o == "ok" or call == "os.remove"):
                holders.discard(a)
        runs.append({"sched": ".".join(sch) or "_", "trace": ",".join(tr), "out": ",".join(outs), "target": content, "lock": locked,
                     "overlap": overlap, "extra": [n for n in names if n not in ("f", "f.lock")],
                     "excs": [x[1] for x in r["results"] if x and x[0] == "exc"]})
    return {"runs": runs}


# ---------- callers of the lock protocol under fault injection ----------
def _snapshot(root):
    out = {}
    for dp, dn, fn in os.walk(root):
        for n in fn:
            p = os.path.join(dp, n)
            rel = os.path.relpath(p, root)
            if rel.startswith("logs" + os.sep) or "/logs/" in rel or n.startswith("tmp"):
                continue
            try:
                with open(p, "rb") as f:
                    out[rel] = f.read()
            except OSError:
                out[rel] = None
    return out


def _mkrepo(d):
    from dulwich.repo import Repo
    from dulwich.objects import Blob, Commit, Tree
    r = Repo.init_bare(os.path.join(d, "r.git"), mkdir=True)
    b = Blob.from_string(b"x")
    t = Tree()
    t.add(b"f", 0o100644, b.id)
    cs = []
    for i in range(3):
        c = Commit()
        c.tree = t.id
        c.parents = [cs[-1].id] if cs else []
        c.author = c.committer = b"a <a@x>"
        c.author_time = c.commit_time = 1700000000 + i
        c.author_timezone = c.commit_timezone = 0
        c.message = b"c%d" % i
        cs.append(c)
    r.object_store.add_objects([(b, None), (t, None)] + [(c, None) for c in cs])
    r.refs[b"refs/heads/main"] = cs[0].id
    r.refs[b"refs/heads/side"] = cs[1].id
    r.refs[b"refs/tags/t"] = cs[0].id
    r.refs.pack_refs(all=True) if hasattr(r.refs, "pack_refs") else None
    r.refs[b"refs/heads/loose"] = cs[1].id
    return r, [c.id for c in cs], t, b


def _ops():
    from dulwich.config import ConfigFile
    from dulwich.index import Index, IndexEntry

    def idx_write(r, ids, t, b):
        p = os.path.join(r.path, "index")
        ix = Index(p, read=False)
        ix[b"f"] = IndexEntry(ctime=(1, 0), mtime=(1, 0), dev=1, ino=1, mode=0o100644, uid=0, gid=0, size=1, sha=b.id, flags=0, extended_flags=0)
        ix.write()

    def idx_rewrite(r, ids, t, b):
        p = os.path.join(r.path, "index")
        ix = Index(p)
        ix[b"g"] = IndexEntry(ctime=(2, 0), mtime=(2, 0), dev=1, ino=2, mode=0o100755, uid=0, gid=0, size=1, sha=b.id, flags=0, extended_flags=0)
        ix.write()

    def cfg_write(r, ids, t, b):
        c = ConfigFile.from_path(os.path.join(r.path, "config"))
        c.set((b"user",), b"name", b"somebody")
        c.write_to_path()

    def locked_idx(r, ids, t, b):
        from dulwich.index import locked_index
        with locked_index(os.path.join(r.path, "index")) as ix:
            ix[b"h"] = IndexEntry(ctime=(3, 0), mtime=(3, 0), dev=1, ino=3, mode=0o100644, uid=0, gid=0, size=1, sha=b.id, flags=0, extended_flags=0)

    return {
        "locked-index": (idx_write, locked_idx),
        "index-write-new": (None, idx_write),
        "index-rewrite": (idx_write, idx_rewrite),
        "config-write": (None, cfg_write),
        "ref-set-loose": (None, lambda r, ids, t, b: r.refs.set_if_equals(b"refs/heads/loose", ids[1], ids[2])),
        "ref-set-packed": (None, lambda r, ids, t, b: r.refs.set_if_equals(b"refs/heads/main", ids[0], ids[2])),
        "ref-add-new": (None, lambda r, ids, t, b: r.refs.add_if_new(b"refs/heads/new", ids[2])),
        "ref-remove-loose": (None, lambda r, ids, t, b: r.refs.remove_if_equals(b"refs/heads/loose", ids[1])),
        "ref-remove-packed": (None, lambda r, ids, t, b: r.refs.remove_if_equals(b"refs/heads/side", ids[1])),
        "symref-set": (None, lambda r, ids, t, b: r.refs.set_symbolic_ref(b"HEAD", b"refs/heads/side")),
        "pack-refs": (None, lambda r, ids, t, b: r.refs.pack_refs(all=True)),
        "put-named-file": (None, lambda r, ids, t, b: r._put_named_file("description", b"a description\n")),
        "shallow-update": (None, lambda r, ids, t, b: r.update_shallow([ids[1]], [])),
        "add-alternate": (None, lambda r, ids, t, b: r.object_store.add_alternate_path("/nonexistent/objects")),
        "commit-graph": (None, lambda r, ids, t, b: r.object_store.write_commit_graph([ids[2]])),
    }


def callers(req):
    """one caller, a fault at scheduling point k of its run (every k, every fault kind): afterwards no lock file is left
    and every file is either what it was or what the undisturbed run produces"""
    name = req["op"]
    prep, op = _ops()[name]
    out = []

    def fresh():
        d = tempfile.mkdtemp(prefix="verif-cl-", dir=os.environ.get("VERIF_SCRATCH") or None)
        r, ids, t, b = _mkrepo(d)
        if prep:
            prep(r, ids, t, b)
        return d, r, ids, t, b

    d, r, ids, t, b = fresh()
    try:
        before = _snapshot(r.path)
        s = sched.Sched(root=d, points=("open", "replace", "rename", "remove", "unlink", "fsync", "chmod"))
        res = s.run([lambda: op(r, ids, t, b)], [])
        after = _snapshot(r.path)
        npoints = len(res["trace"])
        calls = [c for (_, c, _, _) in res["trace"]]
        clean_trace = res["trace"]
        ok = res["results"][0]
    finally:
        r.close()
        shutil.rmtree(d, ignore_errors=True)
    if not ok or ok[0] != "ok":
        return {"clean_run_failed": repr(ok), "calls": calls}
    locks_clean = [p for p in after if p.endswith(".lock")]
    for k in range(npoints):
        if clean_trace[k][1] in ("os.remove", "os.unlink") and str(clean_trace[k][2][0]).endswith(".lock"):
            # releasing the lock is this very call: if the environment refuses it nothing can release the lock
            continue
        for fault in req["faults"]:
            d, r, ids, t, b = fresh()
            try:
                s = sched.Sched(root=d, points=("open", "replace", "rename", "remove", "unlink", "fsync", "chmod"))
                res = s.run([lambda: op(r, ids, t, b)], [(0, None)] * k + [(0, fault)])
                snap = _snapshot(r.path)
                bad = []
                for p in set(snap) | set(before) | set(after):
                    if p.endswith(".lock"):
                        if p in snap:
                            bad.append("lock file left behind: " + p)
                        continue
                    if snap.get(p) != before.get(p) and snap.get(p) != after.get(p):
                        bad.append("%s is neither the old nor the new content (%d bytes; old %s, new %s)" % (
                            p, len(snap.get(p) or b""), len(before[p]) if before.get(p) is not None else None, len(after[p]) if after.get(p) is not None else None))
                hit = [x for x in res["trace"] if x[3].startswith("raise")]
                out.append({"k": k, "fault": fault, "at": hit[0][1] + " " + str(hit[0][2]) if hit else None, "result": res["results"][0][0],
                            "exc": res["results"][0][1] if res["results"][0][0] == "exc" else None, "bad": bad})
            finally:
                r.close()
                shutil.rmtree(d, ignore_errors=True)
    return {"points": npoints, "calls": calls, "runs": out, "locks_after_clean_run": locks_clean}


HANDLERS = {"explore": explore, "callers": callers}
