"""Implementation side of C20: dulwich.config codecs and file round trip."""
from io import BytesIO
import gen_delta
from dulwich import config as C

R = gen_delta.resolve


def hx(b):
    return bytes(b).hex() or "-"


def fmt(req):
    return {"v": hx(C._format_string(R(req["v"])))}


def parse(req):
    try:
        return {"v": "some " + hx(C._parse_string(R(req["s"])))}
    except ValueError:
        return {"v": "none"}


def escsub(req):
    try:
        return {"v": "some " + hx(C._escape_subsection(R(req["s"])))}
    except ValueError:
        return {"v": "none"}


def unescsub(req):
    return {"v": hx(C._unescape_subsection(R(req["s"])))}


def file_roundtrip(req):
    """entries: list of [section(list of hex), key hex, value hex] set in order
    (repeated keys = multi-values via add).  Returns the file bytes and what
    reading it back gives."""
    cf = C.ConfigFile()
    for sec, key, val, how in req["entries"]:
        s = tuple(R(x) for x in sec)
        if how == "add":
            cf.add(s, R(key), R(val))
        else:
            cf.set(s, R(key), R(val))
    f = BytesIO()
    cf.write_to_file(f)
    data = f.getvalue()
    try:
        back = C.ConfigFile.from_file(BytesIO(data))
    except Exception as e:
        return {"file": hx(data), "err": type(e).__name__ + ":" + str(e)[:100]}

    def dump(c):
        out = []
        for sec in c.sections():
            for k, v in c.items(sec):
                out.append([[hx(x) for x in sec], hx(k), hx(v)])
        return out
    return {"file": hx(data), "orig": dump(cf), "back": dump(back), "eq": back == cf}


def read_file(req):
    try:
        c = C.ConfigFile.from_file(BytesIO(R(req["data"])))
    except Exception as e:
        return {"err": type(e).__name__}
    out = []
    for sec in c.sections():
        for k, v in c.items(sec):
            out.append([[hx(x) for x in sec], hx(k), hx(v)])
    return {"items": out}


def md(req):
    """op sequence on CaseInsensitiveOrderedMultiDict and, in parallel, on a
    ConfigFile section through set/add/remove; the file is then written and read back."""
    d = C.CaseInsensitiveOrderedMultiDict()
    cf = C.ConfigFile()
    errs = []
    for o in req["ops"].split(";"):
        if o == "_":
            continue
        p = o.split(":")
        k = R(p[1])
        e = "0"
        if p[0] == "a":
            d[k] = R(p[2]); cf.add((b"sec",), k, R(p[2]))
        elif p[0] == "s":
            d.set(k, R(p[2])); cf.set((b"sec",), k, R(p[2]))
        else:
            try:
                del d[k]
            except KeyError:
                e = "1"
            try:
                cf.remove((b"sec",), k)
                e2 = "0"
            except KeyError:
                e2 = "1"
            if e != e2:
                e = "X"
        errs.append(e)
    items = ",".join(hx(k) + "=" + hx(v) for k, v in d.items())
    pr = []
    for k in req["probes"].split(","):
        k = R(k)
        g = d.get(k)
        pr.append(("none" if g is None else hx(g)) + "/" + "+".join(hx(v) for v in d.get_all(k)))
    out = {"v": items + " " + "".join(errs) + " " + ",".join(pr) + " " + str(len(d))}
    # the ConfigFile view: items of the section, then write + read back
    cfitems = ",".join(hx(k) + "=" + hx(v) for k, v in cf.items((b"sec",)))
    f = BytesIO(); cf.write_to_file(f)
    try:
        back = C.ConfigFile.from_file(BytesIO(f.getvalue()))
        backitems = ",".join(hx(k) + "=" + hx(v) for k, v in back.items((b"sec",)))
    except Exception as ex:
        backitems = "exc:" + type(ex).__name__
    out.update(cfitems=cfitems, backitems=backitems, file=hx(f.getvalue()))
    return out


HANDLERS = dict(md=md, format=fmt, parse=parse, escsub=escsub, unescsub=unescsub, file_roundtrip=file_roundtrip, read_file=read_file)
for k in ("format", "parse", "escsub", "unescsub"):
    def wrap(f):
        def g(req):
            try:
                return f(req)
            except Exception as e:
                return {"v": "exc:" + type(e).__name__}
        return g
    HANDLERS[k] = wrap(HANDLERS[k])
