"""Shared machinery of the correspondence checks: seeded PRNG, model runner
(extracted OCaml), implementation workers (child interpreters importing
/repo's working tree with the freshly built Rust extensions), verdict
bookkeeping, replays, known findings and the evidence writer."""
import hashlib, json, os, random, signal, subprocess, sys, time, collections

sys.path.insert(0, os.path.dirname(os.path.abspath(__file__)))
import build as B

VERIF, REPO, BUILD, PY = B.VERIF, B.REPO, B.BUILD, B.PY
NPROC = min(16, os.cpu_count() or 4)


def hx(b):
    return bytes(b).hex() or "-"


def unhx(s):
    return b"" if s == "-" else bytes.fromhex(s)


def hexint(n):
    return ("-%x" % -n) if n < 0 else ("%x" % n)


# ----------------------------------------------------------------- model side
class Model:
    """Runs build/modelrun_<prop> over a batch of request lines (in parallel
    chunks).  Answers come back in order, one string per request."""

    def __init__(self, prop):
        self.prop = prop
        self.exe = os.path.join(BUILD, "modelrun_" + prop)

    def run(self, lines, chunk=None, preamble=()):
        """preamble: request lines (e.g. `define name hex`) sent to every chunk
        process first; their answers are dropped."""
        if not lines:
            return []
        preamble = list(preamble)
        n = len(lines)
        chunk = chunk or max(1, (n + NPROC - 1) // NPROC)
        procs = []
        for i in range(0, n, chunk):
            part = lines[i:i + chunk]
            p = subprocess.Popen(["/bin/sh", "-c", "ulimit -s unlimited 2>/dev/null; exec " + self.exe],
                                 stdin=subprocess.PIPE, stdout=subprocess.PIPE)
            procs.append((p, part))
        # feed and collect (threads keep the pipes from blocking)
        import threading
        outs = [None] * len(procs)

        def work(k):
            p, part = procs[k]
            o, _ = p.communicate(("\n".join(preamble + part) + "\n").encode())
            outs[k] = (o.decode().split("\n")[:-1] if o else [])[len(preamble):]
        ths = [threading.Thread(target=work, args=(k,)) for k in range(len(procs))]
        [t.start() for t in ths]
        [t.join() for t in ths]
        res = []
        for k, (p, part) in enumerate(procs):
            o = outs[k]
            if len(o) != len(part):
                o = o + ["EXN model runner died (rc=%s)" % p.returncode] * (len(part) - len(o))
            res += o
        return res


# -------------------------------------------------------- implementation side
class Impl:
    """Pool of child interpreters running harness/implworker.py with the
    handler module impl_<prop>.  A request is a JSON-able dict with key 'fn';
    the answer is whatever the handler returns (JSON-able) or
    {'died': <signal/returncode>} when the child was killed by the call."""

    def __init__(self, prop, workers=None, mem_gb=4, case_timeout=60, env=None):
        self.prop, self.workers = prop, workers or NPROC
        self.mem_gb, self.case_timeout = mem_gb, case_timeout
        self.env = env or {}

    def _spawn(self):
        env = dict(os.environ)
        env.update({"PYTHONPATH": REPO, "PYTHONHASHSEED": "0", "VERIF_RUSTEXT": B.RUSTEXT,
                    "VERIF_MEM_GB": str(self.mem_gb), "DULWICH_VERIF": "1"})
        env.update(self.env)
        return subprocess.Popen([PY, os.path.join(VERIF, "harness", "implworker.py"), self.prop],
                                stdin=subprocess.PIPE, stdout=subprocess.PIPE, env=env, cwd="/")

    def run(self, reqs):
        import threading
        n = len(reqs)
        res = [None] * n
        if n == 0:
            return res
        w = min(self.workers, n)
        idx = [list(range(k, n, w)) for k in range(w)]

        def work(k):
            p = self._spawn()
            for i in idx[k]:
                try:
                    p.stdin.write((json.dumps(reqs[i]) + "\n").encode())
                    p.stdin.flush()
                    line = _readline_timeout(p, self.case_timeout)
                except (BrokenPipeError, OSError):
                    line = None
                if line is None or line == b"TIMEOUT":
                    timed_out = line == b"TIMEOUT"
                    try:
                        p.kill()
                    except OSError:
                        pass
                    rc = p.wait()
                    res[i] = {"died": "timeout" if timed_out else rc}
                    p = self._spawn()
                else:
                    try:
                        res[i] = json.loads(line)
                    except ValueError:
                        res[i] = {"died": "garbage:" + line[:200].decode("latin1")}
            try:
                p.stdin.close(); p.wait(timeout=30)
            except Exception:
                p.kill()
        ths = [threading.Thread(target=work, args=(k,)) for k in range(w)]
        [t.start() for t in ths]
        [t.join() for t in ths]
        return res


def _readline_timeout(p, timeout):
    import select
    fd = p.stdout
    r, _, _ = select.select([fd], [], [], timeout)
    if not r:
        return b"TIMEOUT"
    line = fd.readline()
    if not line:
        return None
    return line.rstrip(b"\n")


# ------------------------------------------------------------------- verdicts
def _bounded_outcomes(counter, keep=80, width=100):
    """the distribution of outcomes as a small table: the most frequent ones by (shortened) name, the rest summed up"""
    out = {}
    common = counter.most_common()
    for k, v in common[:keep]:
        k = str(k)
        k = k if len(k) <= width else k[:width] + "...(%d chars)" % len(k)
        out[k] = out.get(k, 0) + v
    rest = common[keep:]
    if rest:
        out["(%d further distinct outcomes)" % len(rest)] = sum(v for _, v in rest)
    return out


def load_known():
    p = os.path.join(VERIF, "known_findings.json")
    if not os.path.exists(p):
        return []
    return json.load(open(p)).get("findings", [])


class Report:
    def __init__(self, prop, tier, seed):
        self.prop, self.tier, self.seed = prop, tier, seed
        self.rng = random.Random(seed)
        self.t0 = time.time()
        self.evaluations = 0
        self.distinct = set()
        self.kinds = collections.Counter()
        self.outcomes = collections.Counter()
        self.samples = []
        self.disagreements = []      # model vs implementation
        self.failures = []           # property predicate false on the implementation
        self.notes = []
        self.extra = {}
        self.traces_validated = 0
        self.proof = None
        self.assumptions = []
        self.trusted = []

    # -- counting
    def case(self, kind, key=None, nontrivial=True, outcome=None, sample=None):
        self.evaluations += 1
        self.kinds[kind] += 1
        if outcome is not None:
            self.outcomes[outcome] += 1
        if nontrivial and key is not None:
            self.distinct.add(hashlib.sha1(repr((kind, key)).encode()).digest()[:8])
        if sample is not None and (self.kinds[kind] <= 2) and len(self.samples) < 24:
            self.samples.append({"kind": kind, "case": sample})

    def disagree(self, function, case, model, impl):
        self.disagreements.append(dict(function=function, case=case, model=model, impl=impl))

    def fail(self, cls, what, case, **kw):
        d = dict(cls=cls, what=what, case=case)
        d.update(kw)
        self.failures.append(d)

    def note(self, s):
        self.notes.append(s)

    # -- output
    def _write_replay(self, kind, body):
        os.makedirs(os.path.join(VERIF, "replays"), exist_ok=True)
        blob = json.dumps(body, sort_keys=True, default=str)
        h = hashlib.sha1(blob.encode()).hexdigest()[:12]
        path = os.path.join("replays", "%s-%s.json" % (self.prop, h))
        body = dict(body)
        body.update(property=self.prop, kind=kind, seed=self.seed, tier=self.tier,
                    rerun="./check %s --replay %s" % (self.prop, path))
        json.dump(body, open(os.path.join(VERIF, path), "w"), indent=1, default=str)
        return path

    def finish(self, level="proof"):
        known = [k for k in load_known() if k.get("property") == self.prop]
        known_by_cls = {k["id"]: k for k in known if k.get("status") == "known"}
        violations = 0
        lines = []
        seen_known = collections.Counter()
        # 1. failing inputs of the property itself
        new_failures = []
        for f in self.failures:
            if f["cls"] in known_by_cls:
                seen_known[f["cls"]] += 1
            else:
                new_failures.append(f)
        for cls, n in seen_known.items():
            lines.append("KNOWN-FINDING: property=%s %s [%s, %d failing case(s) this run]"
                         % (self.prop, known_by_cls[cls]["what"], cls, n))
        by_cls = collections.OrderedDict()
        for f in new_failures:
            by_cls.setdefault(f["cls"], []).append(f)
        for cls, fs in by_cls.items():
            path = self._write_replay("failing-input", dict(cls=cls, first=fs[0], count=len(fs),
                                                            others=fs[1:4]))
            lines.append("VIOLATION property=%s replay=%s" % (self.prop, path))
            violations += 1
        # 2. proof obligations
        pr = self.proof or {}
        if pr and not pr.get("ok"):
            if not new_failures:
                path = self._write_replay("no-failing-input", dict(
                    broken="proof obligation", theorems=pr.get("theorems"), log=pr.get("log", "")[-3000:]))
                lines.append("VIOLATION property=%s replay=%s no-failing-input-found" % (self.prop, path))
            violations += 1
        # 3. model/implementation disagreements
        if self.disagreements:
            fns = collections.OrderedDict()
            for d in self.disagreements:
                fns.setdefault(d["function"], []).append(d)
            if not new_failures:
                for fn, ds in fns.items():
                    path = self._write_replay("no-failing-input", dict(
                        broken="correspondence", function=fn, first=ds[0], count=len(ds)))
                    lines.append("VIOLATION property=%s replay=%s no-failing-input-found" % (self.prop, path))
            else:
                self._write_replay("correspondence-with-failing-input",
                                   dict(functions={k: v[0] for k, v in fns.items()}))
            violations += 1
        cov = {
            "obligations": pr.get("obligations", 0),
            "discharged": pr.get("discharged", 0),
            "checker_cmd": "cd /verif/coq && make (full .vo build) && coqc -Q . DV Props/%s.v  # Print Assumptions parsed by harness/build.py" % self.prop,
            "trusted_base": TRUSTED_COMMON + self.trusted,
            "theorems": pr.get("theorems", []),
            "axioms_reported": pr.get("axioms", []),
            "evaluations": self.evaluations,
            "distinct_nontrivial": len(self.distinct),
            "rule": self.extra.pop("rule", "see DESIGN.md section 7"),
            "samples": self.samples[:24],
            "traces_validated_against_impl": self.traces_validated,
            "case_kinds": dict(self.kinds),
            "outcome_distribution": _bounded_outcomes(self.outcomes),
            "model_impl_disagreements": len(self.disagreements),
            "property_failures_new": len(new_failures),
            "property_failures_known": dict(seen_known),
            "notes": self.notes[:50],
        }
        cov.update(self.extra)
        ev = {
            "property_id": self.prop, "tier": self.tier, "seed": self.seed, "level": level,
            "coverage": cov, "assumptions": self.assumptions,
            "wall_s": round(time.time() - self.t0, 2), "violations": violations,
        }
        os.makedirs(os.path.join(VERIF, "evidence"), exist_ok=True)
        json.dump(ev, open(os.path.join(VERIF, "evidence", self.prop + ".json"), "w"), indent=1, default=str)
        for l in lines:
            print(l)
        print("%s %s: %d obligations/%d discharged, %d evaluations (%d distinct non-trivial), "
              "%d disagreement(s), %d new failure(s), %.1fs"
              % (self.prop, self.tier, cov["obligations"], cov["discharged"], self.evaluations,
                 len(self.distinct), len(self.disagreements), len(new_failures), time.time() - self.t0))
        return 1 if violations else 0


TRUSTED_COMMON = [
    "Coq 8.16.1 kernel and coqc (vm_compute used in finite sweeps; native_compute not used)",
    "extraction with ExtrOcamlBasic only (bool, option, unit, list, prod, sumbool, sumor; no Extract Constant of our own); Z/positive/nat stay inductive",
    "OCaml 4.13.1 compiler and ocaml/common.ml + ocaml/run_<prop>.ml (hex line protocol)",
    "Python harness (generators, canonicalisers, workers) — can cause false alarms or misses, cannot make a false theorem check",
    "the hand reading of Python/Rust into Gallina, attacked on every run by the correspondence check against /repo's working tree",
]


def load_corpus(prop):
    d = os.path.join(VERIF, "corpus", prop)
    out = []
    if os.path.isdir(d):
        for f in sorted(os.listdir(d)):
            if f.endswith(".json"):
                out.append((f, json.load(open(os.path.join(d, f)))))
    return out


def compare(rep, prop, items, impl=None, model=None, what="model vs implementation"):
    """items: list of dict(kind, line, req, key, [sample], [nontrivial]).  Runs the
    model line and the implementation request, records a disagreement when
    the canonical strings differ.  Returns list of (item, model_str, impl_result)."""
    model = model or Model(prop)
    impl = impl or Impl(prop)
    mres = model.run([it["line"] for it in items])
    ires = impl.run([it["req"] for it in items])
    out = []
    for it, m, r in zip(items, mres, ires):
        v = r.get("v") if isinstance(r, dict) else None
        if isinstance(r, dict) and r.get("missing"):
            rep.extra["helpers_missing"] = rep.extra.get("helpers_missing", 0) + 1
            out.append((it, m, r))
            continue
        if v is None:
            v = "worker:" + json.dumps(r)[:200]
        rep.case(it["kind"], key=it.get("key", it["line"]), nontrivial=it.get("nontrivial", True),
                 outcome=(v.split(" ")[0].split(":")[0] if it.get("outcome", True) else None),
                 sample=it.get("sample", {"model_request": it["line"][:300], "model": m[:200], "impl": v[:200]}))
        if m != v:
            rep.disagree("%s [%s]" % (what, it["kind"]), {"request": it["line"][:2000], "impl_request": it["req"]},
                         m[:500], v[:500])
        out.append((it, m, r))
    return out
