"""Implementation side of the status report on the wire (C06): ReceivePackHandler._report_status writing a list of
statuses, with and without side-band-64k, and the client's ReportStatusParser reading packets."""
import io, os, shutil, tempfile
from dulwich.client import ReportStatusParser, _read_side_band64k_data
from dulwich.protocol import PktLineParser, Protocol
from dulwich.repo import Repo
from dulwich.server import DictBackend, ReceivePackHandler


def _un(h):
    return b"" if h == "-" else bytes.fromhex(h)


def _hx(b):
    return b.hex() or "-"


def report_status(req):
    """status: [[name-hex, msg-hex]] with the first entry named 'unpack' (hex of b'unpack')"""
    d = tempfile.mkdtemp(prefix="verif-c06r-", dir=os.environ.get("VERIF_SCRATCH") or None)
    try:
        repo = Repo.init_bare(os.path.join(d, "r.git"), mkdir=True)
        out = {}
        status = [(_un(n), _un(m)) for n, m in req["status"]]
        for sideband in (False, True):
            buf = io.BytesIO()
            proto = Protocol(lambda n: b"", buf.write)
            h = ReceivePackHandler(DictBackend({b"/": repo}), [b"/"], proto)
            h.set_client_capabilities([b"report-status"] + ([b"side-band-64k"] if sideband else []))
            h._report_status(status)
            wire = buf.getvalue()
            # read it back the way the client does
            rd = io.BytesIO(wire)
            p2 = Protocol(rd.read, lambda b: None)
            pkts = []
            parser = ReportStatusParser()
            if sideband:
                pp = PktLineParser(lambda pkt: (pkts.append(pkt), parser.handle_packet(pkt)))
                for chan, data in _read_side_band64k_data(p2.read_pkt_seq()):
                    if chan == 1:
                        pp.parse(data)
            else:
                for pkt in p2.read_pkt_seq():
                    pkts.append(pkt)
                    parser.handle_packet(pkt)
            try:
                entries = [[_hx(r), None if e is None else _hx(e.encode("utf-8"))] for r, e in parser.check()]
                res = {"entries": entries}
            except Exception as e:  # noqa: BLE001
                res = {"exc": type(e).__name__}
            res["packets"] = [_hx(p) for p in pkts if p is not None]
            res["unpack"] = None if parser._pack_status is None else _hx(parser._pack_status)
            out["sideband" if sideband else "plain"] = res
        repo.close()
        return out
    finally:
        shutil.rmtree(d, ignore_errors=True)


def parse_packets(req):
    """the client's parser on arbitrary packets (the first one is the unpack line)"""
    parser = ReportStatusParser()
    try:
        for h in req["packets"]:
            parser.handle_packet(_un(h))
        parser._pack_status = b"unpack ok"          # (the refs are of interest here; an unpack failure raises before them)
        return {"entries": [[_hx(r), None if e is None else _hx(e.encode("utf-8"))] for r, e in parser.check()]}
    except Exception as e:  # noqa: BLE001
        return {"exc": type(e).__name__}


HANDLERS = {"report_status": report_status, "parse_packets": parse_packets}
