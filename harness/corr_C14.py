"""C14 — acceleration data never changes an answer: the same questions asked of a repository with and without
commit-graph, multi-pack-index and bitmaps (written by dulwich and by C git), fresh, stale and mismatched."""
from common import Model, Impl

PROP = "C14"
LEVEL = "proof"
VARIANTS = [["cg", "dulwich"], ["midx", "dulwich"], ["bitmap", "dulwich"], ["cg+midx+bitmap", "dulwich"],
            ["cg", "git"], ["midx", "git"], ["bitmap", "git"], ["cg+midx+bitmap", "git"], ["cg-direct", "dulwich"]]
STALE = ["loose", "pack", "repack", "prune", "shallow", "retag"]


def run(rep):
    rng = rep.rng
    thorough = rep.tier == "thorough"
    rep.extra["rule"] = ("random histories stored as two packs plus loose objects; answers = {membership and raw content of every object "
                         "and of an absent id, iteration of the store, merge bases and fast-forward tests of 10 commit pairs, the history "
                         "walk from all branches, the reachable-object set, the objects selected for two transfers, all refs, what "
                         "get_reachability_provider() answers for four (heads, exclude) choices}; for every "
                         "subset of {commit-graph, multi-pack-index, bitmaps} written by dulwich or by C git the answers must equal those "
                         "of the same repository with the acceleration files removed — right after writing, and after the history was "
                         "continued with loose commits, with a new pack, after a repack, and after branches were deleted and gc pruned; "
                         "with files copied from another repository the answers must equal those without; where the commit-graph knows "
                         "a commit its parents must be the commit's own (the theorem's hypothesis); merge bases with a commit-graph in "
                         "place vs the model run on the parents read from that file; the file as a codec: parent lists (0-8 parents, octopus "
                         "merges sharing one extra edge list, parents absent from the file) written by dulwich, slots and edges found by an "
                         "independent chunk parser vs encode_graph, dulwich's reader vs decode_graph, and the same for files C git wrote.  distinct non-trivial = (repository, variant, staleness)")
    rep.trusted += ["C git 2.39.5 commit-graph / multi-pack-index / repack -b as second writer"]
    impl = Impl(PROP, case_timeout=1200)
    model = Model(PROP)
    reqs = [{"fn": "scenario", "seed": rng.randrange(1 << 30), "n": rng.choice([4, 8, 14]), "variants": VARIANTS, "stale": STALE, "mismatch": rng.choice(["foreign", "same-objects-other-layout", "same-objects-other-layout"])}
            for _ in range(6 if not thorough else 60)]
    for q, r in zip(reqs, impl.run(reqs)):
        base = {"seed": q["seed"], "commits": q["n"]}
        if "variants" not in r:
            rep.fail("scenario-worker", "scenario failed: %r" % (r,), base)
            continue
        if r["truth_has_accel"]:
            rep.note("the baseline repository already had acceleration files")
        for v in r["variants"]:
            case = dict(base, accelerators=v["which"], written_by=v["writer"])
            if "write_failed" in v:
                rep.fail("writer-failed", "writing %s with %s failed: %s" % (v["which"], v["writer"], v["write_failed"]), case)
                continue
            rep.case("fresh", key=(q["seed"], v["which"], v["writer"]), nontrivial=True, sample=dict(case, files=v.get("files")))
            if v["which"] == "cg-direct":
                # write_commit_graph(refs, reachable=False): recorded finding, see known_findings.json
                if v["fresh_diff"] or v["graph_parents_wrong"]:
                    rep.fail("commit-graph-of-direct-refs-drops-parents", "a commit-graph written with reachable=False: answers to %s differ, parents wrong for %s"
                             % (v["fresh_diff"], v["graph_parents_wrong"]), case)
                continue
            if v["fresh_diff"]:
                rep.fail("answers-change-with-accelerator", "with %s written by %s the answers to %s differ from those without" % (v["which"], v["writer"], v["fresh_diff"]), case)
            if v["graph_parents_wrong"]:
                rep.fail("commit-graph-parents-wrong", "the commit-graph gives other parents than the commits %s themselves" % v["graph_parents_wrong"], case)
            if v.get("writer_changed_answers"):
                rep.fail("writing-accelerator-changed-repository", "writing %s changed the answers to %s even with the files removed again" % (v["which"], v["writer_changed_answers"]), case)
            for how, d in (v.get("stale") or {}).items():
                rep.case("stale:" + how, key=(q["seed"], v["which"], v["writer"], how), nontrivial=True)
                if d:
                    rep.fail("stale-accelerator-changes-answers:" + how, "%s by %s, then %s: the answers to %s differ from those without the stale files" % (v["which"], v["writer"], how, d), dict(case, then=how))
        rep.case("mismatched", key=(q["seed"], "mismatch"), nontrivial=True)
        if r.get("mismatch_diff"):
            rep.fail("foreign-accelerator-trusted", "with commit-graph and multi-pack-index copied from another repository the answers to %s differ" % r["mismatch_diff"], base)
    codec(rep, impl, model, rng, thorough)
    # the peeled values cached in packed-refs, against Model/PeeledCache.v
    import corr_C14_peeled
    corr_C14_peeled.run(rep)
    # merge bases through the commit-graph vs the model on the parents read from the file
    reqs = [{"fn": "graph_lcas", "seed": rng.randrange(1 << 30), "n": rng.choice([5, 9, 16]), "writer": rng.choice(["dulwich", "git"])} for _ in range(12 if not thorough else 150)]
    lines, plan = [], []
    for q, r in zip(reqs, impl.run(reqs)):
        if "dag" not in r:
            rep.note("no commit-graph was loaded for seed %s: %s" % (q["seed"], str(r)[:80]))
            continue
        for (a, b), g in zip(r["queries"], r["got"]):
            lines.append("lcas %s %s %d %d" % (r["dag"], ",".join(str(max(s, 0)) for s in r["stamps"]), a, b))
            plan.append((q, (a, b), g))
    for (q, ab, g), m in zip(plan, model.run(lines)):
        rep.case("merge-base-through-commit-graph", key=(q["seed"], ab), nontrivial=True)
        if m != g:
            rep.disagree("find_merge_base with a commit-graph vs Lca.find_lcas on the file's parents", {"seed": q["seed"], "query": ab, "writer": q["writer"]}, m, g)


def codec(rep, impl, model, rng, thorough):
    """the commit-graph file as a codec of parent lists: dulwich's writer vs CommitGraph.encode_graph (slots and extra edge
    list, as found in the bytes by an independent parser), dulwich's reader vs decode_graph; files written by C git"""
    def gen(n, absent):
        cs = []
        for i in range(n):
            k = 0 if i == 0 else rng.choice([0, 1, 1, 1, 2, 2, 3, 4, 5, 8])
            ps = rng.sample(range(i), min(i, k))
            if absent and ps and rng.random() < 0.3:
                ps[rng.randrange(len(ps))] = "x"
            cs.append(ps)
        return cs
    def spec(cs):
        return ";".join(".".join(map(str, ps)) or "_" for ps in cs)
    reqs = [{"fn": "cg_codec", "commits": gen(rng.choice([1, 2, 5, 9, 20]), False)} for _ in range(40 if not thorough else 600)]
    reqs += [{"fn": "cg_codec", "commits": gen(rng.choice([2, 5, 9]), True), "absent": True} for _ in range(10 if not thorough else 100)]
    lines = ["cgenc " + spec(q["commits"]) for q in reqs]
    wide = 0
    for q, r, m in zip(reqs, impl.run(reqs), model.run(lines)):
        case = {"commits": q["commits"], "codec": True}
        wide += sum(1 for ps in q["commits"] if len(ps) > 2)
        rep.case("commit-graph-codec" + (":absent-parents" if q.get("absent") else ""), key=spec(q["commits"]), nontrivial=any(len(ps) > 1 for ps in q["commits"]), sample=case)
        if "rows" not in r:
            rep.fail("commit-graph-writer-failed", "writing the commit-graph failed: %r" % (r,), case)
            continue
        mrows, medges, mread = [x.strip() for x in m.split("|")]
        if (r["rows"], r["edges"]) != (mrows, medges):
            rep.disagree("CommitGraph.write_to_file vs CommitGraph.encode_graph", case, "%s | %s" % (mrows, medges), "%s | %s" % (r["rows"], r["edges"]))
        if r["read"] != mread:
            rep.disagree("commit-graph reader vs CommitGraph.decode_graph", case, mread, r["read"])
        if not q.get("absent"):
            want = spec(q["commits"])
            if r["read"] != want:
                rep.fail("commit-graph-parents-wrong", "parents written %s, read back %s" % (want, r["read"]), case)
    rep.extra["octopus_commits_in_codec_cases"] = wide
    reqs = [{"fn": "cg_git", "commits": gen(rng.choice([3, 6, 12]), False), "seed": rng.randrange(1 << 20)} for _ in range(8 if not thorough else 80)]
    res = impl.run(reqs)
    lines, plan = [], []
    for q, r in zip(reqs, res):
        case = {"commits": q["commits"], "writer": "git"}
        rep.case("commit-graph-codec:git", key=spec(q["commits"]) + str(q["seed"]), nontrivial=True, sample=case)
        if "rows" not in r:
            rep.note("git commit-graph write failed: %s" % str(r)[:100])
            continue
        if r["read"] != r["truth"]:
            rep.fail("commit-graph-parents-wrong", "git-written commit-graph: dulwich reads parents %s, the commits have %s" % (r["read"], r["truth"]), case)
        lines.append("cgdec %s %s" % (r["rows"], r["edges"]))
        plan.append((case, r["read"]))
    for (case, want), m in zip(plan, model.run(lines)):
        if m != want:
            rep.disagree("commit-graph reader vs CommitGraph.decode_graph (git-written file)", case, m, want)


def replay(rep, body):
    run(rep)
