#!/bin/sh
# run every archived seeded change against its property's quick check; /repo must be otherwise idle
cd /verif
: > /tmp/seedreg.log
for d in seeded/C*; do
  id=$(basename $d); p=$(echo $id | cut -c1-3)
  out=$(harness/seedtest.sh /verif/$d $p 2>&1 | head -1)
  echo "$id $out" >> /tmp/seedreg.log
done
echo done >> /tmp/seedreg.log
