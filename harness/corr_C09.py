"""C09 — crash consistency: Model/CrashFs.v vs snapshots of the repository taken after every file-system call."""
from common import Model, Impl

PROP = "C09"
LEVEL = "proof"
NAMES = ["commit-loose", "commit-packed-start", "add-objects-then-ref", "add-pack-then-ref", "set-ref-packed-start", "delete-loose", "delete-packed",
         "delete-stale-packed", "locked-ref-delete-stale-packed", "pack-refs", "pack-refs-stale-packed", "pack-loose-objects", "repack", "gc-prune", "gc-repack-packed-start",
         "fsync-add-pack-then-ref", "fsync-thin-pack-then-ref", "fsync-commit-loose"]


def run(rep):
    rep.extra["rule"] = ("18 scenarios (commit from loose and packed starting states, objects then ref, add_pack then ref, ref update over packed-refs, "
                         "ref deletion loose / packed / loose over stale packed, pack_refs, pack_loose_objects, repack, garbage_collect with prune): "
                         "the operation runs under the scheduler and the repository directory is copied after every os-level call (open, "
                         "replace, rename, remove, fsync, mkdir, rmdir, link, utime, chmod) and every write / flush / close of a file; every copy "
                         "is re-opened with Repo(): it must open, every ref must hold its old or new value and reach only readable, intact "
                         "objects, every object readable before must still be, index and configuration must parse; the sequence of distinct "
                         "visible states (readable objects, resolved refs) must equal the model's sequence for the operation.  Process-crash "
                         "model: what is copied is what completed system calls left on disk; data still in user-space buffers is absent.  "
                         "Power-loss model (three scenarios with core.fsyncObjectFiles = true): in addition every file written since the "
                         "operation began is cut back to the content it had at its last fsync (empty if never synced; renames durable).  "
                         "distinct non-trivial = snapshots")
    rep.trusted += ["harness/sched.py interposition and the directory copy as the crash image"]
    impl = Impl(PROP, case_timeout=900)
    model = Model(PROP)
    reqs = [{"fn": "scenario", "name": n} for n in NAMES]
    res = impl.run(reqs)
    lines, plan = [], []
    nsnap = 0
    for q, r in zip(reqs, res):
        if "snaps" not in r:
            rep.fail("scenario-failed", "scenario %s did not run: %r" % (q["name"], r), q)
            continue
        if r["result"] != "ok":
            rep.fail("operation-raised", "the undisturbed operation of %s raised %s" % (q["name"], r["exc"]), q)
        states = []
        for sn in r["snaps"]:
            nsnap += 1
            rep.case("snapshot:" + q["name"], key=(q["name"], sn["k"]), nontrivial=True, outcome=sn["state"], sample={"scenario": q["name"], "after_call": sn["k"], "call": sn["after"]})
            kind = "power loss" if sn.get("power_loss") else "crash"
            for p in sn["problems"]:
                rep.fail(("power-loss" if sn.get("power_loss") else "crash") + "-inconsistent:" + q["name"], "%s after call %d (%s) of %s: %s" % (kind, sn["k"], sn["after"], q["name"], p),
                         {"scenario": q["name"], "after_call": sn["k"], "call": sn["after"], "state": sn["state"], "model": kind})
            if not sn.get("power_loss") and (not states or states[-1] != sn["state"]):
                states.append(sn["state"])
        if r["model"]:
            c, l, p = r["initial"]
            lines.append("states %s %s %s 0.1.2.3.4.5.6 0.1 %s" % (c, l, p, r["model"]))
            plan.append((q["name"], " > ".join(states)))
    for (name, want), m in zip(plan, model.run(lines)):
        # the model's universe includes object 6 (the unreachable blob) only where the scenario has it; refs printed for both names
        if m != want:
            rep.disagree("visible states of %s vs CrashFs" % name, {"scenario": name}, m, want)
    rep.extra["snapshots"] = nsnap
    rep.extra["scenarios_with_model_program"] = len(lines)


def replay(rep, body):
    run(rep)
