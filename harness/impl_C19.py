"""Implementation side of C19: dulwich.protocol framing."""
from io import BytesIO
import gen_delta
from dulwich import protocol as P
from dulwich.errors import GitProtocolError, HangupException

R = gen_delta.resolve


def hx(b):
    return bytes(b).hex() or "-"


def lst(s):
    return [] if s == "_" else [R(x) for x in s.split(",")]


def showl(l):
    return "_" if not l else ",".join(hx(x) for x in l)


def guard(f):
    def g(req):
        try:
            return f(req)
        except HangupException:
            return {"v": "hangup"}
        except GitProtocolError:
            return {"v": "err"}
        except ValueError:
            return {"v": "valueerror"}
        except Exception as e:
            return {"v": "exc:" + type(e).__name__, "msg": str(e)[:200]}
    return g


@guard
def pkt_line(req):
    d = None if req["p"] == "NONE" else R(req["p"])
    return {"v": "ok " + hx(P.pkt_line(d))}


@guard
def pkt_seq(req):
    return {"v": "ok " + hx(P.pkt_seq(*lst(req["l"])))}


@guard
def parse_len(req):
    f = getattr(P, "_parse_pkt_line_length", None)
    if f is None:
        return {"missing": True}
    try:
        return {"v": "some %d" % f(R(req["s"]))}
    except GitProtocolError:
        return {"v": "none"}


def _show(r):
    return "none" if r is None else "frame:" + hx(r)


def read_pkt_line(req):
    b = BytesIO(R(req["s"]))
    p = P.Protocol(b.read, None)
    try:
        r = _show(p.read_pkt_line())
    except HangupException:
        r = "hangup"
    except GitProtocolError:
        r = "err"
    except Exception as e:
        r = "exc:" + type(e).__name__
    return {"v": r + " " + hx(b.read())}


def read_pkt_seq(req):
    b = BytesIO(R(req["s"]))
    p = P.Protocol(b.read, None)
    out, end = [], "end"
    try:
        for x in p.read_pkt_seq():
            out.append(x)
    except HangupException:
        end = "hangup"
    except GitProtocolError:
        end = "err"
    except Exception as e:
        end = "exc:" + type(e).__name__
    return {"v": showl(out) + " " + end + " " + hx(b.read())}


def rp(req):
    wire = BytesIO(R(req["s"]))
    sched = [] if req["sc"] == "_" else [int(x) for x in req["sc"].split(",")]
    calls = []

    def recv(k):
        want = max(1, min(sched.pop(0), k)) if sched else k
        calls.append((k, want))
        return wire.read(want)
    p = P.ReceivableProtocol(recv, None)
    out = []
    n = int(req["maxn"])
    while n > 0:
        n -= 1
        try:
            out.append(_show(p.read_pkt_line()))
        except HangupException:
            out.append("hangup"); break
        except GitProtocolError:
            out.append("err"); break
        except Exception as e:
            out.append("exc:" + type(e).__name__); break
    rb = p._rbuf
    rest = rb.read() + wire.read()
    return {"v": ";".join(out) + " " + hx(rest)}


def pp_feed(req):
    ev = []
    parser = P.PktLineParser(lambda x: ev.append("flush" if x is None else "f" + hx(x)))
    err = "ok"
    try:
        for frag in lst(req["l"]):
            parser.parse(frag)
    except GitProtocolError:
        err = "err"
    except Exception as e:
        err = "exc:" + type(e).__name__
    return {"v": (",".join(ev) or "_") + " " + hx(parser.get_tail()) + " " + err}


@guard
def sideband(req):
    frames = []
    p = P.Protocol(None, frames.append)
    p.write_sideband(int(req["ch"]), R(req["blob"]))
    payloads = []
    for f in frames:
        n = int(f[:4], 16)
        assert len(f) == n and len(f[:4]) == 4, "malformed frame"
        payloads.append(f[4:])
    return {"v": showl(payloads), "maxframe": max([len(f) for f in frames] or [0]), "raw": hx(b"".join(frames))[:0]}


@guard
def demux(req):
    from dulwich.client import _read_side_band64k_data
    r = list(_read_side_band64k_data(iter(lst(req["l"]))))
    return {"v": ",".join("%d:%s" % (c, hx(d)) for c, d in r) or "_"}


@guard
def bw(req):
    outs = []
    w = P.BufferedPktLineWriter(outs.append, bufsize=int(req["bufsize"]))
    for p in lst(req["l"]):
        w.write(p)
    return {"v": showl(outs) + " " + hx(w._wbuf.getvalue())}


@guard
def caps(req):
    """capability / ref-line round trip on the implementation"""
    ref, sha, caps = R(req["ref"]), R(req["sha"]), lst(req["caps"])
    line = P.format_ref_line(ref, sha, caps)
    text, got = P.extract_capabilities(line)
    ok = got == caps and text == sha + b" " + ref
    return {"v": "ok" if ok else "mismatch", "got": [hx(text), showl(got)]}


@guard
def wantcaps(req):
    sha, caps = R(req["sha"]), lst(req["caps"])
    line = b"want " + sha + b"".join(b" " + c for c in caps) + b"\n"
    text, got = P.extract_want_line_capabilities(line)
    ok = got == caps and text.rstrip(b"\n") == b"want " + sha
    return {"v": "ok" if ok else "mismatch", "got": [hx(text), showl(got)]}


def _showcaps(t, cs):
    return (bytes(t).hex() or "_") + " " + (",".join(bytes(c).hex() or "-" for c in cs) or "_")


@guard
def capline(req):
    """format_ref_line / extract_capabilities / extract_want_line_capabilities, printed as run_C19.ml prints the model's"""
    w = req["what"]
    if w == "refline":
        caps = None if req["caps"] == "NONE" else lst(req["caps"])
        return {"v": P.format_ref_line(bytes.fromhex(req["ref"]), bytes.fromhex(req["sha"]), caps).hex()}
    line = bytes.fromhex(req["line"]) if req["line"] != "_" else b""
    if w == "extract":
        return {"v": _showcaps(*P.extract_capabilities(line))}
    return {"v": _showcaps(*P.extract_want_line_capabilities(line))}


HANDLERS = dict(capline=capline, pkt_line=pkt_line, pkt_seq=pkt_seq, parse_len=parse_len, read_pkt_line=read_pkt_line,
                read_pkt_seq=read_pkt_seq, rp=rp, pp_feed=pp_feed, sideband=sideband, demux=demux, bw=bw,
                caps=caps, wantcaps=wantcaps)
