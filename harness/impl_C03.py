"""Implementation side of C03: the pure-Python and Rust delta codecs."""
import difflib
from dulwich.errors import ApplyDeltaError

purepack = verif_load_pure("pack")  # noqa: F821
import dulwich.pack as rspack
try:
    import dulwich._pack as _rs
except ImportError:
    _rs = None


def hx(b):
    return bytes(b).hex() or "-"


def unhx(s):
    import gen_delta
    return gen_delta.resolve(s)


def _unhx_old(s):
    return b"" if s == "-" else bytes.fromhex(s)


def _apply(fn, src, delta):
    try:
        out = fn(src, delta)
    except ApplyDeltaError:
        return {"r": "err"}
    except Exception as e:  # any other exception class is not "the delta error"
        return {"r": "exc", "exc": type(e).__name__, "msg": str(e)[:200]}
    except BaseException as e:
        return {"r": "baseexc", "exc": type(e).__name__, "msg": str(e)[:200]}
    chunks = [bytes(c) for c in out]
    return {"r": "ok", "out": hx(b"".join(chunks)), "nchunks": len(chunks),
            "pieces": all((c in src) or (c in delta) for c in chunks) if len(chunks) < 64 else None}


def apply_both(req):
    src, delta = unhx(req["src"]), unhx(req["delta"])
    return {"py": _apply(purepack.apply_delta, src, delta),
            "rs": _apply(_rs.apply_delta, src, delta) if _rs else None,
            "public_is_rust": rspack.apply_delta is getattr(_rs, "apply_delta", None)}


def opcodes(req):
    base, target = unhx(req["base"]), unhx(req["target"])
    ops = difflib.SequenceMatcher(isjunk=None, a=base, b=target).get_opcodes()
    return {"ops": [[t, a, b, c, d] for (t, a, b, c, d) in ops]}


def create_both(req):
    base, target = unhx(req["base"]), unhx(req["target"])
    py = b"".join(purepack._create_delta_py(base, target))
    rs = bytes(_rs.create_delta(base, target)) if _rs and hasattr(_rs, "create_delta") else None
    ops = difflib.SequenceMatcher(isjunk=None, a=base, b=target).get_opcodes()
    pub = b"".join(rspack.create_delta(base, target))
    return {"py": hx(py), "rs": hx(rs) if rs is not None else None, "pub": hx(pub),
            "ops": [[t, a, b, c, d] for (t, a, b, c, d) in ops]}


def helpers(req):
    k = req["what"]
    if k == "enc_size":
        f = getattr(purepack, "_delta_encode_size", None)
        return {"missing": True} if f is None else {"v": hx(f(int(req["n"], 16)))}
    if k == "enc_copy":
        f = getattr(purepack, "_encode_copy_operation", None)
        return {"missing": True} if f is None else {"v": hx(f(int(req["a"], 16), int(req["b"], 16)))}
    raise KeyError(k)


def apply_mem(req):
    """peak of the memory the pure-Python decoder allocates while it decodes (tracemalloc sees every chunk it slices out)"""
    import tracemalloc
    src, delta = unhx(req["src"]), unhx(req["delta"])
    tracemalloc.start()
    try:
        tracemalloc.reset_peak()
        before = tracemalloc.get_traced_memory()[0]
        try:
            out = purepack.apply_delta(src, delta)      # (only the decoder: what the harness does with the result is not its memory)
            r = "ok"
        except ApplyDeltaError:
            out, r = None, "err"
        except Exception as e:
            out, r = None, "exc:" + type(e).__name__
        peak = tracemalloc.get_traced_memory()[1] - before
        del out
    finally:
        tracemalloc.stop()
    return {"r": r, "peak": peak}


HANDLERS = {"apply_mem": apply_mem, "apply_both": apply_both, "create_both": create_both, "opcodes": opcodes, "helpers": helpers}


def big_offset(req):
    n = (1 << 24) + 4096
    base = bytes((i * 31 + (i >> 11)) & 0xFF for i in range(0, n, 1))
    off = (1 << 24) + 5
    import gen_delta
    delta = gen_delta.enc(n) + gen_delta.enc(10) + bytes(purepack._encode_copy_operation(off, 10))
    want = base[off:off + 10]
    py = b"".join(purepack.apply_delta(base, delta))
    rs = b"".join(_rs.apply_delta(base, delta)) if _rs else want
    return {"ok": py == want and rs == want, "py": hx(py), "rs": hx(rs), "want": hx(want)}


HANDLERS["big_offset"] = big_offset
