"""C16 part 2 — ref backends: Model/Refs.v (two-level files store) vs the real
DiskRefsContainer on operation sequences; git's view of the resulting directory;
in-memory and reftable backends on the restricted class of sequences."""
from common import Model, Impl, hx, unhx

PROP = "C16"
NAMES = [b"refs/heads/a", b"refs/heads/a/b", b"refs/heads/main", b"refs/tags/t", b"refs/heads/s", b"HEAD", b"refs/heads/s2"]


def gen_seq(rng, ids, n, restricted=False):
    ops = []
    syms = set()
    for _ in range(n):
        k = rng.random()
        name = rng.choice(NAMES)
        if restricted:
            name = rng.choice([b"refs/heads/a", b"refs/heads/main", b"refs/tags/t", b"refs/heads/c"])
        old = rng.choice(["NONE", "NONE", hx(rng.choice(ids)), hx(b"0" * 40)])
        if k < 0.35:
            ops.append("set:%s:%s:%s" % (hx(name), old, hx(rng.choice(ids))))
        elif k < 0.5:
            ops.append("add:%s:%s" % (hx(name), hx(rng.choice(ids))))
        elif k < 0.7:
            if name == b"HEAD":
                name = b"refs/heads/main"      # deleting HEAD un-makes the repository
            ops.append("del:%s:%s" % (hx(name), old))
        elif k < 0.82 and not restricted:
            tgt = rng.choice(NAMES[:5] + [b"refs/heads/s", b"refs/heads/s2"])
            ops.append("sym:%s:%s" % (hx(rng.choice([b"refs/heads/s", b"refs/heads/s2", b"HEAD", b"refs/heads/a"])), hx(tgt)))
        elif k < 0.94 and not restricted:
            ops.append("pack:%d" % rng.randrange(2))
        else:
            ops.append("reopen")
    return ops


def run(rep):
    rng = rep.rng
    impl = Impl(PROP, workers=8, case_timeout=120)
    ids = [i.encode() for i in impl.run([{"fn": "refs_ids"}])[0]["ids"]]
    model = Model(PROP)
    nseq = 250 if rep.tier == "quick" else 5000
    seqs = [
        ["set:%s:NONE:%s" % (hx(b"refs/heads/a"), hx(ids[0])), "pack:1", "add:%s:%s" % (hx(b"refs/heads/a/b"), hx(ids[1]))],
        ["set:%s:NONE:%s" % (hx(b"refs/heads/a/b"), hx(ids[0])), "pack:1", "set:%s:NONE:%s" % (hx(b"refs/heads/a"), hx(ids[1]))],
        ["set:%s:NONE:%s" % (hx(b"refs/heads/main"), hx(ids[0])), "sym:%s:%s" % (hx(b"refs/heads/s"), hx(b"refs/heads/main")), "pack:1",
         "set:%s:NONE:%s" % (hx(b"refs/heads/s"), hx(ids[1]))],
        ["set:%s:NONE:%s" % (hx(b"refs/heads/a"), hx(ids[0])), "pack:1", "set:%s:NONE:%s" % (hx(b"refs/heads/a"), hx(ids[1])),
         "del:%s:%s" % (hx(b"refs/heads/a"), hx(ids[1]))],
        ["sym:%s:%s" % (hx(b"refs/heads/s"), hx(b"refs/heads/s2")), "sym:%s:%s" % (hx(b"refs/heads/s2"), hx(b"refs/heads/s")), "pack:1",
         "set:%s:NONE:%s" % (hx(b"refs/heads/s"), hx(ids[0]))],
    ]
    # add_if_new through a symbolic ref that has a stale packed entry of its own, and one whose target exists only packed
    seqs.append(["set:%s:NONE:%s" % (hx(b"refs/heads/s2"), hx(ids[0])), "pack:1", "sym:%s:%s" % (hx(b"refs/heads/s2"), hx(b"refs/heads/main")),
                 "add:%s:%s" % (hx(b"refs/heads/s2"), hx(ids[1])), "add:%s:%s" % (hx(b"refs/heads/s2"), hx(ids[2]))])
    seqs.append(["set:%s:NONE:%s" % (hx(b"refs/heads/main"), hx(ids[0])), "pack:1", "sym:%s:%s" % (hx(b"refs/heads/s"), hx(b"refs/heads/main")),
                 "add:%s:%s" % (hx(b"refs/heads/s"), hx(ids[1]))])
    # writes through a symbolic ref whose target collides (file vs directory) with a packed or loose ref
    for (exist, target) in ((b"refs/heads/a", b"refs/heads/a/b"), (b"refs/heads/a/b", b"refs/heads/a")):
        for packed in (True, False):
            for via in (b"HEAD", b"refs/heads/s"):
                for op in ("set:%s:NONE:%s", "add:%s:%s"):
                    seqs.append(["set:%s:NONE:%s" % (hx(exist), hx(ids[0]))] + (["pack:1"] if packed else []) +
                                ["sym:%s:%s" % (hx(via), hx(target)), op % (hx(via), hx(ids[1])), "reopen",
                                 "set:%s:NONE:%s" % (hx(target), hx(ids[2]))])
    for _ in range(nseq):
        seqs.append(gen_seq(rng, ids, rng.randrange(2, 14 if rep.tier == "quick" else 30)))
    head = "sym:%s:%s" % (hx(b"HEAD"), hx(b"refs/heads/main"))
    lines = ["refs " + ";".join([head] + [o for o in s if o != "reopen"]) for s in seqs]
    mres = model.run(lines)
    ngit = 60 if rep.tier == "quick" else 1200
    ires = impl.run([{"fn": "refs_disk", "ops": ";".join(s), "git": k < ngit} for k, s in enumerate(seqs)])
    for s, m, r in zip(seqs, mres, ires):
        case = {"ops": [o if o in ("reopen",) else ":".join(unhx(x).decode("latin1") if (len(x) % 2 == 0 and x not in ("NONE", "set", "add", "del", "sym", "pack", "0", "1") and all(c in "0123456789abcdef" for c in x)) else x for x in o.split(":")) for o in s]}
        rep.case("ref-ops-disk", key=tuple(s), nontrivial=len(s) > 2, sample=case)
        rep.traces_validated += 1
        v = r.get("v") if isinstance(r, dict) else None
        m = "|".join(m.split("|")[1:])          # drop the HEAD set-up step
        if v is None:
            rep.fail("refs-worker", "ref backend worker failed: %r" % (r,), case)
            continue
        if m != v:
            msteps, isteps = m.split("|"), v.split("|")
            k = next((i for i, (a, b) in enumerate(zip(msteps, isteps)) if a != b), min(len(msteps), len(isteps)))
            rep.disagree("DiskRefsContainer vs Refs.rstep", dict(case, first_diff_step=k),
                         msteps[k] if k < len(msteps) else None, (isteps[k] if k < len(isteps) else None, r.get("excs")))
        # the property itself: no two refs may collide as file versus directory, at any step
        for k, stepdump in enumerate(v.split("|")):
            present = [unhx(x.split("=")[0]) for x in (stepdump.split(" ", 1) + [""])[1].split(",") if "=" in x]
            hit = [(a, b) for a in present for b in present if b.startswith(a + b"/")]
            if hit:
                rep.fail("df-collision", "refs %r and %r exist together (file/directory collision not refused)" % hit[0],
                         dict(case, step=k))
                break
        if "git" in r:
            # git lists resolvable refs under refs/ (dangling symrefs are omitted) and HEAD
            fin = sorted(x for x in r["final"].split(",") if x != "_")
            git = sorted(x for x in r["git"].split(",") if x != "_")
            gd = dict(x.split("=", 1) for x in git)
            dd = dict(x.split("=", 1) for x in fin)
            for n, val in gd.items():
                if val.startswith("Y"):
                    # compare the fully resolved target
                    if r["resolved"].get(n) != val[1:] and n != hx(b"HEAD"):
                        rep.fail("git-view-differs", "git resolves symref %s to %s, dulwich to %s" % (unhx(n), unhx(val[1:]), r["resolved"].get(n)), case)
                        break
                    if n == hx(b"HEAD") and dd.get(n) != val:
                        rep.fail("git-view-differs", "git reads HEAD as %s, dulwich as %s" % (val, dd.get(n)), case)
                        break
                    continue
                if dd.get(n) != val:
                    rep.fail("git-view-differs", "git lists %s=%s but dulwich reads %s" % (unhx(n), val[:12], dd.get(n)), case)
                    break
            for n, val in dd.items():
                if n not in gd and val.startswith("S"):
                    rep.fail("git-view-differs", "dulwich lists direct ref %s that git does not list (%s)" % (unhx(n), r.get("giterr")), case)
                    break
    # other backends on sequences without symbolic writes or colliding names
    rseqs = [gen_seq(rng, ids, rng.randrange(2, 12), restricted=True) for _ in range(120 if rep.tier == "quick" else 2500)]
    dres = impl.run([{"fn": "refs_disk", "ops": ";".join(s)} for s in rseqs])
    ores = impl.run([{"fn": "refs_other", "ops": ";".join(s)} for s in rseqs])
    for s, d, o in zip(rseqs, dres, ores):
        rep.case("ref-ops-backends", key=("b",) + tuple(s), nontrivial=len(s) > 2)
        dv = d.get("v")
        strip_packs = lambda t: t
        for name in ("dict", "reftable"):
            if name not in o:
                if name + "_error" in o:
                    rep.fail("backend-" + name, "%s backend failed to run a plain sequence: %s" % (name, o[name + "_error"]), {"ops": s})
                continue
            if o[name] != dv:
                ds, os_ = dv.split("|"), o[name].split("|")
                k = next((i for i, (a, b) in enumerate(zip(ds, os_)) if a != b), 0)
                rep.fail("backend-" + name, "%s backend differs from the files backend at step %d" % (name, k), {"ops": s},
                         files=ds[k] if k < len(ds) else None, other=os_[k] if k < len(os_) else None)
