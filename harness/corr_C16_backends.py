def run(rep):
    rep.note("ref backend correspondence not built yet")
