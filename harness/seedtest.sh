#!/bin/sh
# seedtest.sh <seeddir> <prop> [tier]: apply a seeded defect to /repo, run the check, undo it.
d=$1; p=$2; t=${3:-quick}
git -C /repo status --short | grep -v '^??' | grep -q . && { echo "/repo not clean"; exit 2; }
git -C /repo apply "$d/patch.diff" || { echo "patch does not apply"; exit 2; }
cd /verif && timeout 3000 ./check $p --tier $t > /tmp/seedtest-$p.log 2>&1; rc=$?
git -C /repo checkout -- .
grep -c '^VIOLATION' /tmp/seedtest-$p.log | sed "s|^|$d: rc=$rc violations=|"
grep '^VIOLATION' /tmp/seedtest-$p.log | head -3
tail -1 /tmp/seedtest-$p.log
