"""Implementation side of the lookup / maintenance co-simulation (C10): DiskObjectStore.get_raw for one object, stopped at
every step that touches the repository (each probe of a cached pack, each reading of the pack directory, the look at the
loose file); before each such step the scripted operations of the maintenance process are carried out on the real
directory (a pack appears, a pack is deleted, the loose file is deleted).  The log of the steps, the order in which the
cache lists the packs after each directory read and the answer go back to the harness, which runs the model on them."""
import os, shutil, tempfile
from dulwich.object_store import DiskObjectStore
from dulwich.objects import Blob
from dulwich.object_format import SHA1
from dulwich.pack import Pack, write_pack


def _blob(i):
    return Blob.from_string(b"object %d\n" % i)


def lookup_cosim(req):
    base = tempfile.mkdtemp(prefix="verif-c10l-", dir=os.environ.get("VERIF_SCRATCH") or None)
    try:
        staging = os.path.join(base, "staging")
        os.mkdir(staging)
        odir = os.path.join(base, "objects")
        DiskObjectStore.init(odir).close()
        pdir = os.path.join(odir, "pack")
        names = {}                              # model id -> basename
        for w, objs in req["packs"].items():
            tmpn = os.path.join(staging, "p%s" % w)
            write_pack(tmpn, [(_blob(i), None) for i in objs], SHA1)
            p = Pack(tmpn, object_format=SHA1)
            nm = "pack-" + p.name().decode()
            p.close()
            for ext in (".pack", ".idx"):
                os.rename(tmpn + ext, os.path.join(staging, nm + ext))
            names[int(w)] = nm
        ids = {v: k for k, v in names.items()}
        if len(ids) != len(names):
            return {"skip": "two packs with the same content"}

        def appear(w):
            for ext in (".pack", ".idx"):
                shutil.copyfile(os.path.join(staging, names[w] + ext), os.path.join(pdir, names[w] + ext))

        def vanish(w):
            for ext in (".idx", ".pack"):
                os.remove(os.path.join(pdir, names[w] + ext))

        target = _blob(0)
        store = DiskObjectStore(odir)
        # the reader's past: everything it has cached was there once, some of it was opened
        for w in req["cache"]:
            appear(w)
        store._update_pack_cache()
        for w in req["iopen"]:
            store._pack_cache[names[w]].index
        for w in req["dopen"]:
            store._pack_cache[names[w]].index
            store._pack_cache[names[w]].data
        cache0 = [ids[b] for b in store._pack_cache]
        # the present: the directory as the lookup finds it
        for w in req["cache"]:
            if w not in req["disk"]:
                vanish(w)
        for w in req["disk"]:
            if w not in req["cache"]:
                appear(w)
        if req["loose"]:
            store.add_object(target)
        loose_path = store._get_shafile_path(target.id)
        log, done = [], []
        envs = req["envs"]

        def hook(ev):
            k = len([e for e in log if e[0] != "env"])
            if k < len(envs):
                for op in envs[k]:
                    if op == "l":
                        os.remove(loose_path)
                    elif op[0] == "a":
                        appear(int(op[1:]))
                    else:
                        vanish(int(op[1:]))
                    log.append(["env", op])
            log.append(ev)

        orig_get_raw = Pack.get_raw
        orig_update = store._update_pack_cache
        orig_loose = store._get_loose_object

        def get_raw(self, sha):
            hook(["probe", ids.get(os.path.basename(self._basename), -1)])
            return orig_get_raw(self, sha)

        def update():
            hook(["rescan"])
            r = orig_update()
            log[-1].append([ids.get(b, -1) for b in store._pack_cache])
            return r

        def loose(sha):
            hook(["loose"])
            return orig_loose(sha)

        Pack.get_raw = get_raw
        store._update_pack_cache = update
        store._get_loose_object = loose
        try:
            try:
                tn, raw = store.get_raw(target.id)
                res = "Found" if raw == target.as_raw_string() else "wrong-content"
            except KeyError:
                res = "Missing"
            except Exception as e:  # noqa: BLE001
                res = "exc:" + type(e).__name__ + ":" + str(e)[:80]
        finally:
            Pack.get_raw = orig_get_raw
            store.close()
        return {"result": res, "log": log, "cache0": cache0}
    finally:
        shutil.rmtree(base, ignore_errors=True)


HANDLERS = {"lookup_cosim": lookup_cosim}
