"""C05 — transfer completeness and minimality: Model/Mof.v vs MissingObjectFinder; whole transfers between
repositories over every transport available offline, with C git in either role."""
from common import Model, Impl

PROP = "C05"
LEVEL = "proof"
MODES = ["local-fetch", "clone", "local-push", "git-upload-pack", "git-receive-pack", "git-fetches-from-dulwich-files",
         "git-client-tcp-fetch", "dulwich-client-tcp-fetch", "git-client-tcp-push", "dulwich-client-tcp-push"]


def run(rep):
    rng = rep.rng
    thorough = rep.tier == "thorough"
    rep.extra["rule"] = ("random histories (merges, several roots, trees sharing blobs and subtrees, gitlinks, tags of commits / trees / "
                         "blobs / tags); (haves, wants) drawn from commits and tags, the receiver holding the closure of the haves, "
                         "sometimes a have the sender does not know: MissingObjectFinder's selection vs the model (equal as sets), and "
                         "evaluated directly: closure(wants) is covered by receiver + selection, nothing selected lies outside "
                         "closure(wants), nothing selected twice.  Whole transfers: LocalGitClient fetch / clone / push, SubprocessGitClient "
                         "against C git upload-pack / receive-pack, C git fetching from the files dulwich wrote, and TCPGitServer on the "
                         "loopback interface with C git and TCPGitClient fetching and pushing; afterwards every object of closure(wants) is "
                         "in the receiver byte for byte, nothing outside closure(wants) (tags of transferred objects aside) arrived, "
                         "git fsck --connectivity-only passes.  Depth-limited receivers: a depth 1..3 fetch of one head followed by an ordinary fetch of "
                         "other heads, through C git upload-pack and LocalGitClient; after each step everything reachable from the fetched heads "
                         "down to the receiver's shallow boundary is present, byte for byte, and git fsck passes.  distinct non-trivial = queries and transfers")
    rep.trusted += ["C git 2.39.5 upload-pack / receive-pack / fetch / push / fsck as peer and oracle", "loopback TCP inside the sandbox"]
    impl = Impl(PROP, case_timeout=900)
    model = Model(PROP)
    reqs = [{"fn": "mof", "seed": rng.randrange(1 << 30), "n": rng.choice([1, 3, 6, 12] + ([30] if thorough else [])), "queries": 8}
            for _ in range(40 if not thorough else 500)]
    res = impl.run(reqs)
    lines, plan = [], []
    for q, r in zip(reqs, res):
        if "spec" not in r:
            rep.fail("mof-worker", "building the history failed: %r" % (r,), q)
            continue
        for x in r["queries"]:
            lines.append("select %s %s %s" % (r["spec"], x["haves"], x["wants"]))
            plan.append((q, x, r["n"]))
    resent = 0
    for (q, x, n), m in zip(plan, model.run(lines)):
        case = {"seed": q["seed"], "commits": q["n"], "haves": x["haves"], "wants": x["wants"]}
        rep.case("selection", key=(q["seed"], q["n"], x["haves"], x["wants"]), nontrivial=n > 6, sample=case)
        resent += x["resent"]
        if x["got"].startswith("exc"):
            rep.fail("selection-raised", "MissingObjectFinder raised %s" % x["got"], case)
            continue
        if m != x["got"]:
            rep.disagree("MissingObjectFinder vs Mof.select", case, m, x["got"])
        if x["incomplete"]:
            rep.fail("transfer-incomplete", "objects %s are reachable from the wants, not with the receiver and not selected" % x["incomplete"], case)
        if x["outside"]:
            rep.fail("transfer-not-minimal", "objects %s were selected but are not reachable from the wants" % x["outside"], case)
        if x["dup"]:
            rep.fail("selected-twice", "an object was yielded twice", case)
    rep.extra["objects_selected_although_receiver_has_them"] = resent
    reqs = []
    for mode in MODES:
        for k in range(6 if not thorough else 60):
            reqs.append({"fn": "transfer", "seed": rng.randrange(1 << 30), "n": rng.choice([2, 5, 10]), "mode": mode, "pack_sender": rng.random() < 0.5})
    outcomes = {}
    for q, r in zip(reqs, impl.run(reqs)):
        case = {k: q[k] for k in ("seed", "n", "mode", "pack_sender")}
        rep.case("transfer:" + q["mode"], key=repr(case), nontrivial=True, outcome=str(r.get("result"))[:40], sample=case)
        outcomes[q["mode"]] = outcomes.get(q["mode"], 0) + 1
        if r.get("result") != "ok":
            rep.fail("transfer-failed:" + q["mode"], "the transfer did not succeed: %s" % (r.get("result") or r), case)
            continue
        if r["missing"] or r["differ"]:
            rep.fail("transfer-incomplete:" + q["mode"], "after the transfer objects %s are missing and %s differ" % (r["missing"], r["differ"]), case)
        if r["outside"]:
            rep.fail("transfer-not-minimal:" + q["mode"], "objects %s arrived although nothing asked for reaches them" % r["outside"], case)
        if r["fsck"] != 0:
            rep.fail("receiver-broken:" + q["mode"], "git fsck --connectivity-only on the receiver: %s" % r["fsck"], case)
    rep.extra["transfers_by_mode"] = outcomes
    # depth-limited receivers
    reqs = []
    for mode in ("git-upload-pack", "local-fetch"):
        for k in range(10 if not thorough else 120):
            reqs.append({"fn": "shallow_transfer", "seed": rng.randrange(1 << 30), "n": rng.choice([4, 8, 14]), "mode": mode, "pack_sender": rng.random() < 0.5})
    sh = {"ok": 0, "refused": 0, "with_boundary": 0}
    for q, r in zip(reqs, impl.run(reqs)):
        case = {k: q[k] for k in ("seed", "n", "mode", "pack_sender")}
        case["shallow"] = True
        rep.case("shallow-transfer:" + q["mode"], key=repr(case), nontrivial=True, outcome=str(r.get("result"))[:40], sample=case)
        for st in r.get("steps", []):
            if st["missing"]:
                rep.fail("transfer-incomplete:shallow:" + q["mode"], "after the %s fetch of a depth-limited receiver objects %s are missing above its shallow boundary" % (st["step"], st["missing"]), case)
            if st["fsck"] != 0:
                rep.fail("receiver-broken:shallow:" + q["mode"], "git fsck --connectivity-only after the %s fetch: %s" % (st["step"], st["fsck"]), case)
            if st["shallow"]:
                sh["with_boundary"] += 1
        if r.get("result") == "ok":
            sh["ok"] += 1
        else:
            sh["refused"] += 1      # a fetch that fails is no transfer; counted, and the steps before it were audited
    rep.extra["shallow_transfers"] = sh


def replay(rep, body):
    run(rep)
