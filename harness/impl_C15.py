"""Implementation side of C15: every function with a pure-Python and a Rust twin."""
import gen_delta
from dulwich import objects as O
from dulwich.errors import ObjectFormatException

R = gen_delta.resolve
purepack = verif_load_pure("pack")          # noqa: F821
puredt = verif_load_pure("diff_tree")       # noqa: F821
try:
    import dulwich._objects as RO
    import dulwich._pack as RP
    import dulwich._diff_tree as RD
except ImportError:
    RO = RP = RD = None


def hx(b):
    return bytes(b).hex() or "-"


def _call(f, *a, **k):
    try:
        return ("ok", f(*a, **k))
    except BaseException as e:
        if not isinstance(e, Exception):
            return ("baseexc", type(e).__name__)
        return ("fail", type(e).__name__)


def parse_tree(req):
    text, sl, strict = R(req["text"]), int(req["shalen"]), req["strict"] == "1"
    out = {}
    for who, f in (("py", O._parse_tree_py), ("rs", getattr(RO, "parse_tree", None))):
        if f is None:
            out[who] = "absent"; continue
        st, v = _call(lambda: list(f(text, sl, strict=strict)))
        if st == "ok":
            out[who] = ",".join("%s:%x:%s" % (hx(n), m, h.decode()) for (n, m, h) in v) or "_"
        else:
            out[who] = "fail" if st == "fail" else "baseexc:" + v
            out[who + "_exc"] = v
    return out


def sorted_items(req):
    ents = {R(n): (int(m, 16), R(s)) for (n, m, s) in req["entries"]}
    out = {}
    for who, f in (("py", O._sorted_tree_items_py), ("rs", getattr(RO, "sorted_tree_items", None))):
        if f is None:
            out[who] = "absent"; continue
        st, v = _call(lambda: list(f(dict(ents), req["name_order"])))
        out[who] = ",".join("%s:%x" % (hx(e.path), e.mode) for e in v) if st == "ok" else ("fail" if st == "fail" else "baseexc:" + v)
    return out


def bisect(req):
    n = int(req["n"]); base = int(req["base"]); step = int(req["step"]); sl = int(req["shalen"])

    def name(i):
        # a sorted virtual table: entry i is the big-endian number base + i*step
        return (base + i * step).to_bytes(sl, "big")
    sha = int(req["probe"]).to_bytes(sl, "big") if req.get("probelen") is None else bytes(int(req["probelen"]))
    out = {}
    for who, f in (("py", purepack.bisect_find_sha), ("rs", getattr(RP, "bisect_find_sha", None))):
        if f is None:
            out[who] = "absent"; continue
        st, v = _call(f, int(req["start"]), int(req["end"]), sha, name)
        out[who] = ("none" if v is None else str(v)) if st == "ok" else ("fail" if st == "fail" else "baseexc:" + v)
    return out


def _tree(entries):
    t = O.Tree()
    for n, m, s in entries:
        t.add(R(n), int(m, 16), R(s))
    return t


def merge_entries(req):
    t1 = _tree(req["t1"]) if req["t1"] is not None else None
    t2 = _tree(req["t2"]) if req["t2"] is not None else None
    out = {}
    for who, f in (("py", puredt._merge_entries), ("rs", getattr(RD, "_merge_entries", None))):
        if f is None:
            out[who] = "absent"; continue
        st, v = _call(f, R(req["path"]), t1, t2)
        if st == "ok":
            out[who] = ";".join("|".join("None" if e is None else "%s:%o:%s" % (hx(e.path), e.mode, e.sha.decode()) for e in pair) for pair in v)
        else:
            out[who] = "fail" if st == "fail" else "baseexc:" + v
    return out


def count_blocks(req):
    b = O.Blob.from_string(R(req["data"]))
    if req.get("chunks"):
        data = R(req["data"]); k = req["chunks"]
        b.chunked = [data[i:i + k] for i in range(0, len(data), k)]
    out = {}
    for who, f in (("py", puredt._count_blocks), ("rs", getattr(RD, "_count_blocks", None))):
        if f is None:
            out[who] = "absent"; continue
        st, v = _call(f, b)
        out[who] = repr(sorted(v.items())) if st == "ok" else ("fail" if st == "fail" else "baseexc:" + v)
    return out


def blocks_expected(req):
    """the dict both twins should return, from the model's block list (same hash seed as the twins)"""
    from collections import defaultdict
    d = defaultdict(int)
    for b in ([] if req["blocks"] == "_" else [R(x) for x in req["blocks"].split(",")]):
        d[hash(b)] += len(b)
    return {"v": repr(sorted(d.items()))}


def is_tree(req):
    e = None if req["mode"] is None else O.TreeEntry(b"x", int(req["mode"], 16) if req["mode"] != "None" else None, b"0" * 40)
    out = {}
    for who, f in (("py", puredt._is_tree), ("rs", getattr(RD, "_is_tree", None))):
        if f is None:
            out[who] = "absent"; continue
        st, v = _call(f, e)
        out[who] = str(v) if st == "ok" else ("fail" if st == "fail" else "baseexc:" + v)
    return out


def apply_both(req):
    import impl_C03
    return impl_C03.apply_both(req)


def create_both(req):
    import impl_C03
    return impl_C03.create_both(req)


HANDLERS = dict(parse_tree=parse_tree, sorted_items=sorted_items, bisect=bisect, merge_entries=merge_entries,
                count_blocks=count_blocks, blocks_expected=blocks_expected, is_tree=is_tree, apply_both=apply_both, create_both=create_both)
