"""C git 2.39.5 as a second oracle.  Scratch repositories live under a fresh
mkdtemp outside /repo and /verif and are removed by the caller (ScratchRepo is
a context manager).  Includes a minimal, independent pack writer/reader (no
dulwich code) so deltas can be handed to and taken from git."""
import hashlib, os, shutil, struct, subprocess, tempfile, zlib

GIT_ENV = {
    "GIT_CONFIG_NOSYSTEM": "1", "GIT_CONFIG_GLOBAL": "/dev/null", "HOME": "/nonexistent",
    "GIT_AUTHOR_NAME": "a", "GIT_AUTHOR_EMAIL": "a@x", "GIT_COMMITTER_NAME": "c",
    "GIT_COMMITTER_EMAIL": "c@x", "LC_ALL": "C", "PATH": os.environ.get("PATH", "/usr/bin:/bin"),
    "GIT_TERMINAL_PROMPT": "0",
}


def scratch_root():
    return os.environ.get("VERIF_SCRATCH") or tempfile.gettempdir()


def git(args, cwd, input=None, check=False, env=None, timeout=120):
    e = dict(GIT_ENV)
    if env:
        e.update(env)
    p = subprocess.run(["git"] + list(args), cwd=cwd, input=input, stdout=subprocess.PIPE,
                       stderr=subprocess.PIPE, env=e, timeout=timeout)
    if check and p.returncode:
        raise RuntimeError("git %s failed: %s" % (args, p.stderr[:500]))
    return p.returncode, p.stdout, p.stderr


class ScratchRepo:
    def __init__(self, bare=True, object_format="sha1"):
        self.bare, self.fmt = bare, object_format

    def __enter__(self):
        self.path = tempfile.mkdtemp(prefix="verif-git-", dir=scratch_root())
        args = ["init", "-q"] + (["--bare"] if self.bare else []) + ["--object-format=" + self.fmt, self.path]
        git(args, cwd="/", check=True)
        return self

    def __exit__(self, *a):
        shutil.rmtree(self.path, ignore_errors=True)

    def git(self, *args, **kw):
        return git(args, cwd=self.path, **kw)


# ---------------------------------------------------------------- mini pack
def _objhdr(typ, size):
    c = (typ << 4) | (size & 15)
    size >>= 4
    out = bytearray()
    while size:
        out.append(c | 0x80)
        c = size & 0x7F
        size >>= 7
    out.append(c)
    return bytes(out)


def _ofs(n):
    out = [n & 0x7F]
    n >>= 7
    while n:
        n -= 1
        out.insert(0, 0x80 | (n & 0x7F))
        n >>= 7
    return bytes(out)


def delta_pack(base, delta, typ=3):
    """A two-entry pack: blob `base`, then an OFS_DELTA against it."""
    body = bytearray(b"PACK" + struct.pack(">LL", 2, 2))
    off0 = len(body)
    body += _objhdr(typ, len(base)) + zlib.compress(base)
    off1 = len(body)
    body += _objhdr(6, len(delta)) + _ofs(off1 - off0) + zlib.compress(delta)
    body += hashlib.sha1(bytes(body)).digest()
    return bytes(body)


def git_apply_delta(base, delta):
    """('ok', target) | ('err', stderr) according to git unpack-objects."""
    with ScratchRepo() as r:
        rc, out, err = r.git("unpack-objects", "-q", input=delta_pack(base, delta))
        if rc:
            return ("err", err.decode("latin1")[:300])
        rc, out, err = r.git("cat-file", "--batch-all-objects", "--batch-check")
        ids = [l.split()[0].decode() for l in out.splitlines()]
        bid = hashlib.sha1(b"blob %d\0" % len(base) + base).hexdigest()
        others = [i for i in ids if i != bid]
        if not others:
            return ("ok", base)
        rc, out, err = r.git("cat-file", "blob", others[0])
        return ("ok", out) if rc == 0 else ("err", err.decode("latin1")[:300])


def read_pack_entries(data):
    """[(offset, type, size, payload, base_ref)] of a pack, parsed independently."""
    assert data[:4] == b"PACK"
    n = struct.unpack(">L", data[8:12])[0]
    pos = 12
    out = []
    for _ in range(n):
        start = pos
        c = data[pos]; pos += 1
        typ = (c >> 4) & 7
        size = c & 15
        shift = 4
        while c & 0x80:
            c = data[pos]; pos += 1
            size |= (c & 0x7F) << shift
            shift += 7
        base = None
        if typ == 6:
            c = data[pos]; pos += 1
            o = c & 0x7F
            while c & 0x80:
                c = data[pos]; pos += 1
                o = ((o + 1) << 7) | (c & 0x7F)
            base = start - o
        elif typ == 7:
            base = data[pos:pos + 20]; pos += 20
        d = zlib.decompressobj()
        payload = d.decompress(data[pos:])
        pos = len(data) - len(d.unused_data)
        out.append((start, typ, size, payload, base))
    return out


def git_create_delta(a, b):
    """Ask git pack-objects to deltify two blobs.  Returns a list of
    (base_bytes, delta_bytes, target_bytes) found in the pack (possibly empty)."""
    with ScratchRepo() as r:
        ids = []
        for blob in (a, b):
            rc, out, err = r.git("hash-object", "-w", "--stdin", input=blob, check=True)
            ids.append(out.strip())
        rc, pack, err = r.git("pack-objects", "--stdout", "--window=10", "--depth=50", "--delta-base-offset", "-q",
                              input=b"\n".join(ids) + b"\n", check=True)
        ents = read_pack_entries(pack)
        byoff = {e[0]: e for e in ents}
        res = []
        for (off, typ, size, payload, base) in ents:
            if typ == 6 and base in byoff and byoff[base][1] == 3:
                basebytes = byoff[base][3]
                target = b if basebytes == a else a
                res.append((basebytes, payload, target))
        return res
