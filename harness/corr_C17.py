"""C17 — checkout confinement: Model/PathSafe.v vs dulwich.index validators; adversarial trees in a sandbox."""
import itertools
from common import Model, Impl, compare

PROP = "C17"
LEVEL = "proof"
ALPHA = [b".", b"g", b"G", b"i", b"t", b"T", b"~", b"1", b" ", b":", b"\\", b"/", b"x"]
NAMES = [b"..", b".", b"", b".git", b".GIT", b".git ", b".git.", b"git~1", b"GIT~1", b".git::$INDEX_ALLOCATION", b".git . .", b"a", b"b", b"a\\b", b"sub", b".gitmodules",
         b"C:", b"x\\.git", b".git\\x", b"\xe2\x80\x8c.git", b".gi\xe2\x80\x8ct", b"hooks", b"config"]
LINKS = [b"../outside_dir", b"..", b".git", b".git/hooks", b"../canary", b"a", b"@BOX@/abs-created", b"@BOX@/outside_dir", b"../../..",
         b"../outside_dir/created", b".git/hooks/pre-commit", b"../newfile"]


def hexs(b):
    return b.hex() or "-"


def run(rep):
    rng = rep.rng
    thorough = rep.tier == "thorough"
    rep.extra["rule"] = ("validators: every byte string up to length 5 (6 in thorough) over {. g G i t T ~ 1 space : \\\\ / x} plus the "
                         "property's adversarial names and two-component paths of them, default and NTFS validator and _is_ntfs_dotgit, "
                         "model vs implementation; sandbox: 1-3 commits whose trees mix ordinary names with adversarial paths (.., ., empty, "
                         ".git spellings, backslashes, absolute paths), symlinks to the parent / an outside directory / .git, files below a "
                         "name that an earlier tree made a symlink, set-uid / world-writable modes; clone, then reset --hard / checkout "
                         "(by commit and by branch); every mkdir / open-for-write / symlink / remove / rename / chmod is resolved with "
                         "realpath at call time and must stay inside the work tree and out of .git; the sandbox outside the work tree, "
                         ".git/config, .git/hooks and the top level of .git must be untouched.  distinct non-trivial = distinct inputs")
    rep.trusted += ["os.path.realpath at call time as the judge of where a call lands"]
    impl = Impl(PROP, case_timeout=600)
    model = Model(PROP)
    # ---- validators
    n = 5 if not thorough else 6
    elems = [b"".join(t) for k in range(0, n + 1) for t in itertools.product(ALPHA, repeat=k) if k <= 4 or t[0] in (b".", b"g", b"G")]
    elems = sorted(set(elems + NAMES))
    paths = sorted(set(elems + [a + b"/" + b for a in NAMES for b in NAMES]))
    for kind, fn, items in (("element", "elements", [e for e in elems if b"/" not in e]), ("path", "validators", paths)):
        chunks = [items[i:i + 4000] for i in range(0, len(items), 4000)]
        res = impl.run([{"fn": fn, "items": [x.hex() for x in ch]} for ch in chunks])
        lines = [("e " if kind == "element" else "v ") + hexs(x) for ch in chunks for x in ch]
        got = [v for r in res for v in (r.get("v") or ["worker:" + str(r)[:60]] * 1)]
        mres = model.run(lines)
        bad = 0
        for x, m, g in zip([x for ch in chunks for x in ch], mres, got):
            if m != g:
                bad += 1
                rep.disagree("validators (%s) vs PathSafe" % kind, {"input": x.decode("latin1"), "hex": x.hex()}, m, g)
                if g[:1] == "1" and kind == "path" and any(c in (b"", b".", b"..") or c.lower() == b".git" for c in x.split(b"/")):
                    rep.fail("unsafe-path-accepted", "validate_path accepts %r" % x, {"hex": x.hex()})
        rep.case("validators-" + kind, key=kind, nontrivial=True, sample={"count": len(lines)})
        rep.extra["validator_%ss" % kind] = len(lines)
    # ---- sandbox
    def entry(path, kind="f", payload=b""):
        return [path.hex(), kind, payload.hex()]

    def ordinary():
        return [entry(b"README"), entry(b"src/main.c"), entry(b"src/run.sh", "x")]

    scen = []
    # single adversarial entries next to ordinary files
    for nm in NAMES:
        for prefix in (b"", b"src/", b"a/"):
            scen.append(([ordinary() + [entry(prefix + nm + b"/evil" if rng.random() < 0.5 else prefix + nm)]], ["reset"]))
    scen.append(([ordinary() + [entry(b".git/hooks/pre-commit", "x", b"#!/bin/sh\necho evil\n")]], ["reset"]))
    scen.append(([ordinary() + [entry(b".git/config", "f", b"[core]\n\tevil = true\n")]], ["reset"]))
    scen.append(([ordinary() + [entry(b"../canary", "f", b"pwned")]], ["reset"]))
    scen.append(([ordinary() + [entry(b"a/../../canary", "f", b"pwned")]], ["reset"]))
    scen.append(([ordinary() + [entry(b"/abs", "f", b"pwned")]], ["reset"]))
    # mode bits
    scen.append(([ordinary() + [entry(b"suid", "m104755"), entry(b"ww", "m100666"), entry(b"sticky", "m101777")]], ["reset"]))
    # symlink then something below it, in every operation order
    for link in LINKS:
        for op in ("reset", "checkout", "checkout-branch", "reset-index"):
            scen.append(([ordinary() + [entry(b"a", "l", link)], ordinary() + [entry(b"a/victim", "f", b"pwned"), entry(b"a/hooks/pre-commit", "x", b"evil")]], [op]))
            # two levels below the link: directories would have to be created through it
            scen.append(([ordinary() + [entry(b"a", "l", link)], ordinary() + [entry(b"a/sub/deeper/victim", "f", b"pwned")]], [op]))
            # the link itself replaced by a regular file / executable: must not be written through a dangling link
            scen.append(([ordinary() + [entry(b"a", "l", link)], ordinary() + [entry(b"a", "x", b"#!/bin/sh\necho pwned\n")]], [op]))
            scen.append(([ordinary() + [entry(b"a/x")], ordinary() + [entry(b"a", "l", link)], ordinary() + [entry(b"a/victim", "f", b"pwned")]], [op]))
            scen.append(([ordinary() + [entry(b"d/a", "l", link), entry(b"d/b")], ordinary() + [entry(b"d/a/victim", "f", b"pwned"), entry(b"d/b")]], [op]))
    # first commit itself: a symlink and, in the same tree, a path whose leading directory is that name cannot coexist in one tree;
    # file <-> directory <-> symlink transitions of one name
    # a checkout that aborts half way (an invalid entry after a symlink was created) followed by a removal below that name
    for op in ("reset", "checkout", "reset-index"):
        scen.append(([ordinary() + [entry(b"d/x", "f", b"data of d/x")], ordinary() + [entry(b"d", "l", b"../outside_dir"), entry(b"zz/.git/evil")], ordinary()], [op]))
        scen.append(([ordinary() + [entry(b"d/x", "f", b"data of d/x")], ordinary() + [entry(b"d", "l", b"../outside_dir"), entry(b"zz/.git/evil")], [entry(b"README")]], [op]))
    for op in ("reset", "checkout"):
        scen.append(([ordinary() + [entry(b"n")], ordinary() + [entry(b"n/x")], ordinary() + [entry(b"n", "l", b"../outside_dir")]], [op]))
        scen.append(([ordinary() + [entry(b"n", "l", b"README")], ordinary() + [entry(b"n")], ordinary() + [entry(b"n/deep/x")]], [op]))
    if thorough:
        for _ in range(600):
            trees = []
            for _t in range(rng.choice([1, 2, 3])):
                es = ordinary()
                for _e in range(rng.randrange(1, 4)):
                    comps = [rng.choice(NAMES + [b"a", b"d", b"n"]) for _c in range(rng.choice([1, 1, 2, 3]))]
                    if rng.random() < 0.3:
                        es.append(entry(b"/".join(comps), "l", rng.choice(LINKS)))
                    else:
                        es.append(entry(b"/".join(comps), rng.choice(["f", "x", "m104755"])))
                trees.append(es)
            scen.append((trees, [rng.choice(["reset", "checkout", "checkout-branch"])]))
    reqs = []
    for trees, ops in scen:
        # a tree cannot hold the same path twice; drop duplicates, keep the last
        clean = []
        for es in trees:
            d = {}
            for e in es:
                d[e[0]] = e
            # a file and a directory of the same name cannot coexist either: drop files that are a prefix of another path
            ks = sorted(d)
            clean.append([d[k] for k in ks if not any(o != k and o.startswith(k + "2f") for o in ks)])
        reqs.append({"fn": "sandbox", "trees": clean, "ops": ops})
    outcomes = {}
    for q, r in zip(reqs, impl.run(reqs)):
        case = {"trees": [[(bytes.fromhex(p).decode("latin1"), k, bytes.fromhex(pl).decode("latin1")[:30]) for p, k, pl in t] for t in q["trees"]], "ops": q["ops"]}
        rep.case("sandbox", key=repr(q), nontrivial=True, outcome=repr(r.get("results")), sample=case)
        if "results" not in r:
            rep.fail("sandbox-worker", "sandbox run failed: %r" % (r,), case)
            continue
        for x in r["results"]:
            outcomes[x] = outcomes.get(x, 0) + 1
        for p in r["problems"]:
            rep.fail("escape", p, dict(case, results=r["results"]))
    rep.extra["sandbox_outcomes"] = outcomes


def replay(rep, body):
    run(rep)
