"""Implementation side of C14: the answers of a repository with and without commit-graph, multi-pack-index and bitmaps,
fresh, stale (history continued, packs added, repacked, pruned) and mismatched (copied from another repository)."""
import io, glob, hashlib, os, random, shutil, subprocess, tempfile
import impl_C10 as G
from dulwich.gc import find_reachable_objects, garbage_collect
from dulwich.graph import can_fast_forward, find_merge_base
from dulwich.object_store import MissingObjectFinder
from dulwich.objects import Commit, Tag
from dulwich.repo import Repo
from dulwich.walk import Walker

GIT_ENV = dict(os.environ, GIT_CONFIG_NOSYSTEM="1", HOME="/nonexistent", GIT_CONFIG_GLOBAL="/dev/null")
ACCEL = ["objects/info/commit-graph", "objects/pack/multi-pack-index"]


def accel_files(path):
    out = [os.path.join(path, a) for a in ACCEL if os.path.exists(os.path.join(path, a))]
    out += glob.glob(os.path.join(path, "objects", "pack", "*.bitmap")) + glob.glob(os.path.join(path, "objects", "pack", "*.rev"))
    out += glob.glob(os.path.join(path, "objects", "info", "commit-graphs", "*"))
    return out


def h(x):
    return hashlib.sha1(repr(x).encode()).hexdigest()[:12]


def answers(path, probes, commits, queries):
    r = Repo(path)
    try:
        st = r.object_store
        a = {}
        a["contains"] = "".join("1" if p in st else "0" for p in probes)
        raws = []
        for p in probes:
            try:
                t, d = st.get_raw(p)
                raws.append(hashlib.sha1(b"%d " % t + d).hexdigest()[:8])
            except KeyError:
                raws.append("-")
        a["raw"] = ",".join(raws)
        a["iter"] = h(sorted(set(st)))
        present = []
        for c in commits:
            try:
                st.get_raw(c)
                present.append(c)
            except KeyError:
                pass
        mb, ff = [], []
        for (i, j) in queries:
            if i < len(present) and j < len(present):
                try:
                    mb.append(sorted(x.decode()[:6] for x in find_merge_base(r, [present[i], present[j]])))
                    ff.append(can_fast_forward(r, present[i], present[j]))
                except Exception as e:  # noqa: BLE001
                    mb.append("exc:" + type(e).__name__)
                    ff.append("exc")
        a["merge_base"] = h(mb)
        a["fast_forward"] = h(ff)
        heads = sorted(v for k, v in r.refs.as_dict().items() if k.startswith(b"refs/heads/"))
        try:
            a["walk"] = h([e.commit.id for e in Walker(st, heads)]) if heads else "-"
        except Exception as e:  # noqa: BLE001
            a["walk"] = "exc:" + type(e).__name__
        try:
            a["reachable"] = h(sorted(find_reachable_objects(st, r.refs)))
        except Exception as e:  # noqa: BLE001
            a["reachable"] = "exc:" + type(e).__name__
        try:
            if len(heads) >= 1:
                a["transfer"] = h(sorted(s for s, _ in MissingObjectFinder(st, heads[:1], heads[-1:])))
                a["transfer_all"] = h(sorted(s for s, _ in MissingObjectFinder(st, [], heads)))
        except Exception as e:  # noqa: BLE001
            a["transfer"] = "exc:" + type(e).__name__
        a["refs"] = h(sorted(r.refs.as_dict().items()))
        try:
            a["repo_parents"] = h([r.get_parents(c) for c in present])
        except Exception as e:  # noqa: BLE001
            a["repo_parents"] = "exc:" + type(e).__name__
        try:
            a["repo_walk"] = h([e.commit.id for e in r.get_walker(include=heads)]) if heads else "-"
        except Exception as e:  # noqa: BLE001
            a["repo_walk"] = "exc:" + type(e).__name__
        try:
            a["peeled"] = h(sorted((k, r.refs.get_peeled(k)) for k in r.refs.allkeys() if k.startswith(b"refs/tags/")))
        except Exception as e:  # noqa: BLE001
            a["peeled"] = "exc:" + type(e).__name__
        # the reachability provider the store hands out (bitmap-backed when a pack has a bitmap)
        try:
            prov = st.get_reachability_provider()
            pa = []
            for hs, ex in ((heads[:1], None), (heads, None), (heads[-1:], heads[:1]), (present[:2], present[-1:])):
                if not hs:
                    continue
                pa.append(sorted(prov.get_reachable_commits(hs, exclude=ex)))
                pa.append(sorted(prov.get_tree_objects([st[c].tree for c in hs])))
                try:
                    pa.append(sorted(prov.get_reachable_objects(hs, exclude_commits=ex)))
                except KeyError:
                    pa.append("KeyError")           # a gitlink target; the same with or without acceleration data
            a["provider"] = h(pa)
        except Exception as e:  # noqa: BLE001
            a["provider"] = "exc:" + type(e).__name__
        # the theorem's hypothesis: where the commit-graph knows a commit it gives the commit's own parents
        cg = st.get_commit_graph()
        bad = []
        if cg is not None:
            for c in present:
                gp = cg.get_parents(c)
                if gp is not None and list(gp) != list(st[c].parents):
                    bad.append(c.decode()[:8])
        a["graph_parents_wrong"] = bad
        a["has_graph"] = cg is not None
        a["has_midx"] = st.get_midx() is not None if hasattr(st, "get_midx") else None
        return a
    finally:
        r.close()


def write_accel(path, which, writer):
    if writer == "dulwich":
        r = Repo(path)
        try:
            if which == "cg-direct":
                # only the commits the branches name, not their ancestors
                r.object_store.write_commit_graph(sorted(v for k, v in r.refs.as_dict().items() if k.startswith(b"refs/heads/")), reachable=False)
            elif "cg" in which:
                r.object_store.write_commit_graph()
            if "midx" in which:
                r.object_store.write_midx()
            if "bitmap" in which:
                r.object_store.generate_pack_bitmaps(r.refs.as_dict())
        finally:
            r.close()
    else:
        if "cg" in which:
            subprocess.run(["git", "--git-dir", path, "commit-graph", "write", "--reachable"], env=GIT_ENV, capture_output=True, check=True)
        if "bitmap" in which:
            subprocess.run(["git", "--git-dir", path, "repack", "-a", "-d", "-b", "-q"], env=GIT_ENV, capture_output=True, check=True)
        if "midx" in which:
            subprocess.run(["git", "--git-dir", path, "multi-pack-index", "write"], env=GIT_ENV, capture_output=True, check=True)


def build(base, seed, n, name="r.git", reverse=False):
    rng, objs, commits, trees, blobs, tags, deps = G.build_objects(seed, n)
    if len(commits) >= 3:
        # an octopus merge of three or four earlier commits
        c = Commit()
        c.tree = commits[-1].tree
        c.parents = [x.id for x in rng.sample(commits, min(len(commits), rng.choice([3, 4])))]
        c.author = c.committer = b"a <a@x>"
        c.author_time = c.commit_time = 1700005000
        c.author_timezone = c.commit_timezone = 0
        c.message = b"octopus %d" % seed
        commits.append(c)
        objs.append(c)
    r = Repo.init_bare(os.path.join(base, name), mkdir=True)
    order = list(objs)
    rng.shuffle(order)
    if reverse:
        # the same packs (a pack is named after the sorted ids it holds) with another layout inside
        order = order[:len(order) // 3][::-1] + order[len(order) // 3:2 * (len(order) // 3)][::-1] + order[2 * (len(order) // 3):]
    k = len(order) // 3
    # objects must arrive after what they refer to is irrelevant for a store; two packs and some loose objects
    r.object_store.add_objects([(o, None) for o in order[:k]])
    r.object_store.add_objects([(o, None) for o in order[k:2 * k]])
    for o in order[2 * k:]:
        r.object_store.add_object(o)
    for i, c in enumerate(commits[-3:]):
        r.refs[b"refs/heads/b%d" % i] = c.id
    for i, t in enumerate(tags[:1]):
        r.refs[b"refs/tags/t%d" % i] = t.id
    r.refs.set_symbolic_ref(b"HEAD", b"refs/heads/b0")
    path = r.path
    r.close()
    return path, objs, commits


def extend(path, seed, how):
    """continue the history after the accelerators were written"""
    r = Repo(path)
    try:
        heads = sorted(v for k, v in r.refs.as_dict().items() if k.startswith(b"refs/heads/"))
        new = []
        parent = heads[0] if heads else None
        tree = r.object_store[parent].tree if parent else None
        for i in range(3):
            c = Commit()
            c.tree = tree
            c.parents = [parent] + ([heads[-1]] if i == 1 and len(heads) > 1 else []) if parent else []
            c.author = c.committer = b"b <b@x>"
            c.author_time = c.commit_time = 1800000000 + seed % 1000 + i
            c.author_timezone = c.commit_timezone = 0
            c.message = b"later %d %d" % (seed, i)
            new.append(c)
            parent = c.id
        if how == "loose":
            for c in new:
                r.object_store.add_object(c)
        else:
            r.object_store.add_objects([(c, None) for c in new])
        r.refs[b"refs/heads/later"] = new[-1].id
        if how == "repack":
            r.object_store.repack()
        if how == "shallow":
            r.update_shallow([heads[0]], [])
        if how == "retag":
            # packed refs hold a peeled value for the tag; the tag ref then moves to another commit as a loose ref
            r.refs.pack_refs(all=True)
            for k in [k for k in r.refs.allkeys() if k.startswith(b"refs/tags/")]:
                r.refs[k] = new[-1].id
        if how == "prune":
            ks = sorted(k for k in r.refs.allkeys() if k.startswith(b"refs/heads/b"))
            for k in ks[1:]:
                del r.refs[k]
            for k in [k for k in r.refs.allkeys() if k.startswith(b"refs/tags/")]:
                del r.refs[k]
            garbage_collect(r, grace_period=None)
        return [c.id for c in new]
    finally:
        r.close()


def scenario(req):
    base = tempfile.mkdtemp(prefix="verif-c14-", dir=os.environ.get("VERIF_SCRATCH") or None)
    try:
        path, objs, commits = build(base, req["seed"], req["n"])
        probes = [o.id for o in objs] + [hashlib.sha1(b"absent").hexdigest().encode()]
        cids = [c.id for c in commits]
        rq = random.Random(req["seed"])
        queries = [(rq.randrange(len(cids)), rq.randrange(len(cids))) for _ in range(10)]
        truth = answers(path, probes, cids, queries)
        out = {"truth_has_accel": bool(accel_files(path)), "variants": []}
        for which, writer in req["variants"]:
            v = os.path.join(base, "v")
            shutil.rmtree(v, ignore_errors=True)
            shutil.copytree(path, v)
            rec = {"which": which, "writer": writer}
            try:
                write_accel(v, which, writer)
            except Exception as e:  # noqa: BLE001
                rec["write_failed"] = type(e).__name__ + ":" + str(e)[:100]
                out["variants"].append(rec)
                continue
            rec["files"] = sorted(os.path.relpath(f, v) for f in accel_files(v))
            # git's bitmap writer repacks: the truth is what the repository answers with the accelerator files removed
            t2 = os.path.join(base, "t2")
            shutil.rmtree(t2, ignore_errors=True)
            shutil.copytree(v, t2)
            for f in accel_files(t2):
                os.remove(f)
            a_truth = answers(t2, probes, cids, queries)
            a = answers(v, probes, cids, queries)
            rec["fresh_diff"] = sorted(k for k in a_truth if k not in ("has_graph", "has_midx", "graph_parents_wrong") and a.get(k) != a_truth.get(k))
            rec["graph_parents_wrong"] = a["graph_parents_wrong"]
            rec["used"] = [a["has_graph"], a["has_midx"]]
            if a_truth != truth and writer == "dulwich":
                rec["writer_changed_answers"] = sorted(k for k in truth if k not in ("has_graph", "has_midx", "graph_parents_wrong") and truth[k] != a_truth[k])
            # staleness
            for how in req["stale"]:
                s = os.path.join(base, "s")
                shutil.rmtree(s, ignore_errors=True)
                shutil.copytree(v, s)
                try:
                    newc = extend(s, req["seed"], how)
                except Exception as e:  # noqa: BLE001
                    rec.setdefault("stale", {})[how] = ["extend failed: " + type(e).__name__ + ":" + str(e)[:80]]
                    continue
                s2 = os.path.join(base, "s2")
                shutil.rmtree(s2, ignore_errors=True)
                shutil.copytree(s, s2)
                for f in accel_files(s2):
                    os.remove(f)
                pr2 = probes + newc
                a1 = answers(s, pr2, cids + newc, queries + [(len(cids), 0), (len(cids) + 2, 1)])
                a2 = answers(s2, pr2, cids + newc, queries + [(len(cids), 0), (len(cids) + 2, 1)])
                d = sorted(k for k in a2 if k not in ("has_graph", "has_midx", "graph_parents_wrong") and a1.get(k) != a2.get(k))
                rec.setdefault("stale", {})[how] = d + (["graph parents wrong: %s" % a1["graph_parents_wrong"]] if a1["graph_parents_wrong"] else [])
            out["variants"].append(rec)
        # mismatched files from another repository
        if req.get("mismatch"):
            other, oobjs, ocommits = build(base, req["seed"] + (1000 if req.get("mismatch") == "foreign" else 0), req["n"], name="other.git", reverse=True)
            write_accel(other, "cg+midx", "dulwich")
            m = os.path.join(base, "m")
            shutil.copytree(path, m)
            for f in accel_files(other):
                dst = os.path.join(m, os.path.relpath(f, other))
                os.makedirs(os.path.dirname(dst), exist_ok=True)
                shutil.copy(f, dst)
            try:
                a = answers(m, probes, cids, queries)
                out["mismatch_diff"] = sorted(k for k in truth if k not in ("has_graph", "has_midx", "graph_parents_wrong") and a.get(k) != truth.get(k))
            except Exception as e:  # noqa: BLE001
                out["mismatch_diff"] = ["raised " + type(e).__name__ + ":" + str(e)[:80]]
        # the parents as the commit-graph gives them, for the model
        r = Repo(path)
        try:
            num = {c: i for i, c in enumerate(cids)}
            out["dag"] = ",".join(".".join(str(num[p]) for p in r.object_store[c].parents if p in num) or "-" for c in cids)
        finally:
            r.close()
        return out
    finally:
        shutil.rmtree(base, ignore_errors=True)


def graph_lcas(req):
    """parents read from a commit-graph file written by dulwich; merge bases computed by dulwich with that file in place"""
    base = tempfile.mkdtemp(prefix="verif-c14g-", dir=os.environ.get("VERIF_SCRATCH") or None)
    try:
        path, objs, commits = build(base, req["seed"], req["n"])
        write_accel(path, "cg", req.get("writer", "dulwich"))
        r = Repo(path)
        try:
            cg = r.object_store.get_commit_graph()
            cids = [c.id for c in commits]
            num = {c: i for i, c in enumerate(cids)}
            if cg is None:
                return {"nograph": True}
            dag = []
            for c in cids:
                gp = cg.get_parents(c)
                dag.append(".".join(str(num[p]) for p in (gp if gp is not None else r.object_store[c].parents)) or "-")
            rq = random.Random(req["seed"])
            qs = [(rq.randrange(len(cids)), rq.randrange(len(cids))) for _ in range(8)]
            qs = [(a, b) for a, b in qs if a != b]
            got = [".".join(str(x) for x in sorted(num[m] for m in find_merge_base(r, [cids[a], cids[b]]))) or "-" for a, b in qs]
            stamps = [c.commit_time - 1700000000 for c in commits]
            return {"dag": ",".join(dag), "stamps": stamps, "queries": qs, "got": got}
        finally:
            r.close()
    finally:
        shutil.rmtree(base, ignore_errors=True)


def _parse_cg(data):
    """an independent reader of the chunks of a commit-graph file: ids, the two parent slots of every row, the extra edge list"""
    import struct
    assert data[:4] == b"CGPH", data[:4]
    nchunks = data[6]
    toc = []
    for i in range(nchunks + 1):
        cid, off = data[8 + 12 * i:12 + 12 * i], struct.unpack(">Q", data[12 + 12 * i:20 + 12 * i])[0]
        toc.append((cid, off))
    chunks = {}
    for (cid, off), (_, nxt) in zip(toc, toc[1:]):
        chunks[cid] = data[off:nxt]
    oids = [chunks[b"OIDL"][i:i + 20] for i in range(0, len(chunks[b"OIDL"]), 20)]
    rows = []
    cd = chunks[b"CDAT"]
    for i in range(len(oids)):
        rows.append(struct.unpack(">LL", cd[36 * i + 20:36 * i + 28]))
    ed = chunks.get(b"EDGE", b"")
    edges = [struct.unpack(">L", ed[i:i + 4])[0] for i in range(0, len(ed), 4)]
    return oids, rows, edges


def _fmt_cg(rows, edges):
    return ";".join("%d,%d" % r for r in rows), ",".join(map(str, edges)) or "_"


def cg_codec(req):
    """parents -> commit-graph bytes (dulwich writer) -> slots and edges (independent parser) and parents (dulwich reader)"""
    from dulwich.commit_graph import CommitGraph, CommitGraphEntry, read_commit_graph
    spec = req["commits"]
    ids = [b"%040x" % (0x1000 + 7 * i) for i in range(len(spec))]
    absent = b"ee" * 20
    g = CommitGraph()
    for i, ps in enumerate(spec):
        g.entries.append(CommitGraphEntry(commit_id=ids[i], tree_id=b"%040x" % (0x77000 + i), parents=[absent if p == "x" else ids[p] for p in ps], generation=1, commit_time=1700000000 + i))
    f = io.BytesIO()
    try:
        g.write_to_file(f)
    except Exception as e:  # noqa: BLE001
        return {"write_exc": type(e).__name__ + ":" + str(e)[:100]}
    data = f.getvalue()
    oids, rows, edges = _parse_cg(data)
    res = {"rows": _fmt_cg(rows, edges)[0], "edges": _fmt_cg(rows, edges)[1], "oids_sorted": [o.hex().encode() for o in oids] == ids}
    try:
        g2 = CommitGraph.from_file(io.BytesIO(data))
        pos = {c: i for i, c in enumerate(ids)}
        back = []
        for c in ids:
            ps = g2.get_parents(c)
            back.append("?" if ps is None else ".".join(str(pos.get(p, "x")) for p in ps) or "_")
        res["read"] = ";".join(back)
    except Exception as e:  # noqa: BLE001
        res["read"] = "exc:" + type(e).__name__ + ":" + str(e)[:80]
    return res


def cg_git(req):
    """a history with octopus merges written as a commit-graph by C git: slots and edges (independent parser), parents as dulwich reads them"""
    from dulwich.commit_graph import read_commit_graph
    base = tempfile.mkdtemp(prefix="verif-c14c-", dir=os.environ.get("VERIF_SCRATCH") or None)
    try:
        r = Repo.init_bare(os.path.join(base, "r.git"), mkdir=True)
        from dulwich.objects import Tree
        t = Tree()
        r.object_store.add_object(t)
        cs = []
        for i, ps in enumerate(req["commits"]):
            c = Commit()
            c.tree = t.id
            c.parents = [cs[p].id for p in ps]
            c.author = c.committer = b"a <a@x>"
            c.author_time = c.commit_time = 1700000000 + i
            c.author_timezone = c.commit_timezone = 0
            c.message = b"c%d %d" % (i, req.get("seed", 0))
            r.object_store.add_object(c)
            cs.append(c)
        for i, c in enumerate(cs):
            r.refs[b"refs/heads/b%d" % i] = c.id
        path = r.path
        r.close()
        p = subprocess.run(["git", "--git-dir", path, "commit-graph", "write", "--reachable"], env=GIT_ENV, capture_output=True)
        if p.returncode:
            return {"git_err": p.stderr.decode("latin1")[-200:]}
        fn = os.path.join(path, "objects", "info", "commit-graph")
        data = open(fn, "rb").read()
        oids, rows, edges = _parse_cg(data)
        pos = {o.hex().encode(): i for i, o in enumerate(oids)}
        res = {"rows": _fmt_cg(rows, edges)[0], "edges": _fmt_cg(rows, edges)[1]}
        g = read_commit_graph(fn)
        back, truth = [], []
        byid = {c.id: c for c in cs}
        for o in oids:
            hx_ = o.hex().encode()
            ps = g.get_parents(hx_)
            back.append("?" if ps is None else ".".join(str(pos.get(q, "x")) for q in ps) or "_")
            truth.append(".".join(str(pos[q]) for q in byid[hx_].parents) or "_")
        res["read"] = ";".join(back)
        res["truth"] = ";".join(truth)
        return res
    finally:
        shutil.rmtree(base, ignore_errors=True)


from impl_C14_peeled import peeled_session

HANDLERS = {"scenario": scenario, "graph_lcas": graph_lcas, "cg_codec": cg_codec, "cg_git": cg_git, "peeled_session": peeled_session}
