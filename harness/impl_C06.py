"""Implementation side of C06: a real ReceivePackHandler over an in-memory pkt-line pipe."""
from io import BytesIO
import gen_delta
from dulwich.objects import Blob, Commit, Tree
from dulwich.pack import write_pack_objects
from dulwich.object_format import SHA1
from dulwich.protocol import Protocol, pkt_line
from dulwich.repo import MemoryRepo
from dulwich.server import DictBackend, ReceivePackHandler
from dulwich.client import LocalGitClient

R = gen_delta.resolve
ZERO = b"0" * 40


def hx(b):
    return bytes(b).hex() or "-"


def commit(n, parents=()):
    t = Tree()
    c = Commit()
    c.tree = t.id
    c.parents = list(parents)
    c.author = c.committer = b"a <a@x>"
    c.author_time = c.commit_time = 1700000000 + n
    c.author_timezone = c.commit_timezone = 0
    c.message = b"c%d" % n
    return t, c


_T, _A = commit(1)
_, _B = commit(2)
_, _C = commit(3)
_, _D = commit(4)
IDS = {"A": _A.id, "B": _B.id, "C": _C.id, "D": _D.id, "Z": ZERO}


def ids(req):
    return {k: v.decode() for k, v in IDS.items()}


import atexit, os, shutil, tempfile
from dulwich.repo import Repo
_TPL = None


def _server(refs, layout="loose"):
    """a bare repository on disk holding A and B (MemoryObjectStore.add_thin_pack lacks the
    max_input_size parameter that ReceivePackHandler passes)"""
    global _TPL
    if _TPL is None:
        _TPL = tempfile.mkdtemp(prefix="verif-recv-tpl-", dir=os.environ.get("VERIF_SCRATCH") or None)
        atexit.register(lambda: shutil.rmtree(_TPL, ignore_errors=True))
        r0 = Repo.init_bare(os.path.join(_TPL, "t.git"), mkdir=True)
        r0.object_store.add_objects([(_T, None), (_A, None), (_B, None)])
        r0.close()
    d = tempfile.mkdtemp(prefix="verif-recv-", dir=os.environ.get("VERIF_SCRATCH") or None)
    shutil.copytree(os.path.join(_TPL, "t.git"), os.path.join(d, "r.git"))
    r = Repo(os.path.join(d, "r.git"))
    r._verif_tmp = d
    if layout == "stale-packed":
        # every ref first holds another value, is packed, and is then moved on: a loose file over an older packed entry
        for k, v in refs:
            r.refs[R(k)] = IDS["B" if v == "A" else "A"]
        r.refs.pack_refs(all=True)
    for k, v in refs:
        r.refs[R(k)] = IDS[v]
    if layout == "packed":
        r.refs.pack_refs(all=True)
    return r


def _cleanup(r):
    try:
        r.close()
    finally:
        shutil.rmtree(getattr(r, "_verif_tmp", "/nonexistent"), ignore_errors=True)


def _classify(msg):
    if msg is None or msg == b"ok":
        return "ok"
    m = msg if isinstance(msg, bytes) else str(msg).encode()
    if b"missing necessary objects" in m:
        return "missing"
    if b"atomic push failed" in m:
        return "atomic"
    if b"failed to update ref" in m or b"unable to set" in m or b"unable to remove" in m:
        return "stale"
    return "other:" + m.decode("latin1")[:40]


def push(req):
    """refs: [[name hex, 'A'|'B']]; cmds: [[old, new, name hex]] with old/new in A,B,C,D,Z;
    C is in the pack that is sent, D nowhere."""
    r = _server(req["refs"], req.get("layout", "loose"))
    caps = [b"report-status", b"delete-refs"] + ([b"atomic"] if req["atomic"] else []) + ([b"side-band-64k"] if req.get("sideband") else [])
    cmds = req["cmds"]
    inp = BytesIO()
    for i, (o, n, ref) in enumerate(cmds):
        line = IDS[o] + b" " + IDS[n] + b" " + R(ref)
        if i == 0:
            line += b"\0" + b" ".join(caps)
        inp.write(pkt_line(line))
    inp.write(pkt_line(None))
    if any(n != "Z" for _, n, _ in cmds):
        objs = [(_C, None)] if any(n == "C" for _, n, _ in cmds) else []
        write_pack_objects(inp.write, objs, SHA1)
    inp.seek(0)
    out = []
    proto = Protocol(inp.read, out.append)
    backend = DictBackend({b"/": r})
    h = ReceivePackHandler(backend, [b"/"], proto)
    try:
        h.set_client_capabilities(caps)
        # drive the part of handle() after the advertisement: read commands, apply, report
        h.advertise_refs = False
    except Exception:
        pass
    try:
        h.handle()
    except Exception as e:
        _cleanup(r)
        return {"exc": type(e).__name__ + ":" + str(e)[:120]}
    # parse the report: skip the ref advertisement (up to its flush), then the status lines
    data = b"".join(out)
    from dulwich.protocol import Protocol as P2
    rd = P2(BytesIO(data).read, None)
    pkts = []
    while True:
        try:
            p = rd.read_pkt_line()
        except Exception:
            break
        pkts.append(p)
    # after the advertisement flush come the report lines (possibly inside side-band channel 1)
    try:
        first_flush = pkts.index(None)
    except ValueError:
        first_flush = -1
    rest = pkts[first_flush + 1:]
    if req.get("sideband"):
        inner = b"".join(p[1:] for p in rest if p and p[:1] == b"\x01")
        rd2 = P2(BytesIO(inner).read, None)
        rest = []
        while True:
            try:
                p = rd2.read_pkt_line()
            except Exception:
                break
            rest.append(p)
    status = []        # in the order reported (one line per command)
    unpack = None
    for p in rest:
        if not p:
            continue
        p = p.rstrip(b"\n")
        if p.startswith(b"unpack "):
            unpack = p[7:].decode("latin1")
        elif p.startswith(b"ok "):
            status.append((p[3:], "ok"))
        elif p.startswith(b"ng "):
            ref, _, msg = p[3:].partition(b" ")
            status.append((ref, _classify(msg)))
    if [x[0] for x in status] != [R(ref) for _, _, ref in cmds]:
        status = [(R(ref), "absent") for _, _, ref in cmds]
    finalrefs = sorted((hx(k), v.decode()) for k, v in r.get_refs().items() if k != b"HEAD")
    present = lambda s: s in r.object_store
    res = {"unpack": unpack, "status": [x[1] for x in status],
           "refs": ",".join("%s=%s" % (k, hx(v.encode())) for k, v in finalrefs) or "_",
           "dangling": [k for k, v in finalrefs if not present(v.encode())]}
    _cleanup(r)
    return res


def local_push(req):
    """the in-process path: LocalGitClient.send_pack between two MemoryRepo-like disk repos is heavier;
    here the target is a MemoryRepo opened through a tiny subclass"""
    target = _server(req["refs"], req.get("layout", "loose"))
    source = MemoryRepo()
    source.object_store.add_objects([(_T, None), (_A, None), (_B, None), (_C, None)])

    class C(LocalGitClient):
        def _open_repo(self, path):
            import contextlib
            return contextlib.nullcontext(target)
    want = {R(ref): IDS[n] for _, n, ref in req["cmds"]}

    def update_refs(refs):
        refs = dict(refs)
        refs.update(want)
        return refs

    def gen(have, want_, ofs_delta=True, progress=None):
        objs = [(_C, None)] if _C.id in want_ else []
        return len(objs), iter([__import__("dulwich.pack", fromlist=["full_unpacked_object"]).full_unpacked_object(o) for o, _ in objs])
    try:
        res = C().send_pack(b"/", update_refs, gen, atomic=req["atomic"])
    except Exception as e:
        _cleanup(target)
        return {"exc": type(e).__name__ + ":" + str(e)[:120]}
    finalrefs = sorted((hx(k), v.decode()) for k, v in target.get_refs().items() if k != b"HEAD")
    st = res.ref_status or {}
    out = {"status": [_classify(st.get(R(ref))) for _, _, ref in req["cmds"]],
           "refs": ",".join("%s=%s" % (k, hx(v.encode())) for k, v in finalrefs) or "_",
           "dangling": [k for k, v in finalrefs if v.encode() not in target.object_store]}
    _cleanup(target)
    return out


from impl_C06_report import report_status, parse_packets

HANDLERS = dict(ids=ids, push=push, local_push=local_push, report_status=report_status, parse_packets=parse_packets)
