"""C16, the packed-refs file as text: write_packed_refs vs PackedFile.write_packed (byte for byte), get_packed_refs vs
PackedFile.read_packed on written files and on variations of them (line endings, blank lines, comments, header
spellings, missing header, damaged fields), and C git's reading of the same files."""
from common import Model, Impl

PROP = "C16"
NAMES = [b"refs/heads/main", b"refs/heads/a", b"refs/heads/a-b", b"refs/heads/dir/x", b"refs/tags/v1", b"refs/tags/v1.0", b"refs/remotes/o/HEAD",
         b"refs/heads/\xc3\xa9", b"refs/notes/commits", b"refs/heads/#hash", b"refs/heads/^caret"[:11] + b"c", b"refs/x/y/z/w"]


def hx(b):
    return bytes(b).hex()


def items_str(items):
    return ";".join("%s:%s:%s" % (n, s, p) for n, s, p in items) or "_"


def to_tables(s):
    """the reader fills two dicts: name -> id (last wins) and name -> peeled (set when present, never cleared)"""
    if s in ("none", "_") or s.startswith("exc"):
        return s
    packed, peeled = {}, {}
    for it in s.split(";"):
        n, sh, p = it.split(":")
        packed[n] = sh
        if p != "-":
            peeled[n] = p
    return ";".join("%s:%s:%s" % (n, packed[n], peeled.get(n, "-")) for n in sorted(packed, key=bytes.fromhex))


def run(rep):
    rng = rep.rng
    thorough = rep.tier == "thorough"
    impl = Impl(PROP)
    model = Model(PROP)
    ids = [i.encode() for i in impl.run([{"fn": "packed_ids"}])[0]["ids"]]
    shas = ids + [b"0123456789abcdef0123456789ABCDEF01234567", b"f" * 40, b"ab" * 32]
    cases = []
    for k in range(60 if not thorough else 800):
        names = sorted(rng.sample(NAMES, rng.randrange(0, 6)))
        items = [(hx(n), hx(rng.choice(shas)), hx(rng.choice(shas)) if rng.random() < 0.4 else "-") for n in names]
        cases.append({"items": items, "peeled": rng.random() < 0.75})
    cases = [c for c in cases if c["items"] or c["peeled"]] + [{"items": [], "peeled": True}]
    wres = impl.run([{"fn": "packed_write", "cases": cases}])[0]["out"]
    mres = model.run(["pkwrite %d %s" % (1 if c["peeled"] else 0, items_str(c["items"])) for c in cases])
    files = []
    for c, w, m in zip(cases, wres, mres):
        case = {"refs": [(bytes.fromhex(n).decode("latin1"), bytes.fromhex(s).decode(), p != "-") for n, s, p in c["items"]], "with_peeled": c["peeled"]}
        rep.case("packed-refs-write", key=repr(c), nontrivial=len(c["items"]) > 1, sample=case)
        if w != m:
            rep.disagree("write_packed_refs vs PackedFile.write_packed", case, m, w)
        if not w.startswith("exc") and w != "_":
            files.append((bytes.fromhex(w), c))
    # variations of the written files
    variants = []
    for data, c in files:
        variants.append(("as written", data))
        lines = data.split(b"\n")
        v = []
        v.append(("crlf", data.replace(b"\n", b"\r\n")))
        v.append(("no final newline", data[:-1]))
        v.append(("blank line", data.replace(b"\n", b"\n\n", 1)))
        v.append(("comment inside", data + b"# a comment\n"))
        v.append(("header: git's", data.replace(b"# pack-refs with: peeled\n", b"# pack-refs with: peeled fully-peeled sorted \n")))
        v.append(("header: no peeled trait", data.replace(b"# pack-refs with: peeled\n", b"# pack-refs with: sorted\n")))
        v.append(("header removed", data.replace(b"# pack-refs with: peeled\n", b"")))
        v.append(("trailing space", data.replace(b"\n", b" \n", 2)))
        v.append(("tab separator", data.replace(b" refs/", b"\trefs/", 1)))
        v.append(("two spaces", data.replace(b" refs/", b"  refs/", 1)))
        v.append(("short id", data.replace(b"0 refs/", b" refs/", 1).replace(b"f refs/", b" refs/", 1)))
        v.append(("bad name", data.replace(b" refs/heads/", b" refs/heads/..", 1)))
        v.append(("peeled first", b"# pack-refs with: peeled\n^" + shas[0] + b"\n" + data[25:] if data.startswith(b"# pack") else b"^" + shas[0] + b"\n" + data))
        v.append(("duplicate name", data + (lines[1] + b"\n" if len(lines) > 2 and lines[0].startswith(b"#") else lines[0] + b"\n")))
        v.append(("upper-case id", data.replace(b"abcdef", b"ABCDEF")))
        v.append(("nul byte", data.replace(b"refs/", b"re\0fs/", 1)))
        pick = v if thorough else rng.sample(v, 5)
        variants += pick
    variants.append(("empty file", b""))
    variants.append(("only a header", b"# pack-refs with: peeled\n"))
    variants.append(("only a newline", b"\n"))
    seen, uniq = set(), []
    for what, data in variants:
        if data not in seen:
            seen.add(data)
            uniq.append((what, data))
    reqs = [{"fn": "packed_read", "files": [hx(d) or "_" for _, d in uniq[i::8]]} for i in range(8)]
    got = {}
    for i, r in enumerate(impl.run(reqs)):
        for (what, d), o in zip(uniq[i::8], r.get("out", [])):
            got[d] = o
    mres = model.run(["pkread " + (hx(d) or "_") for _, d in uniq])
    outcomes = {}
    for (what, d), m in zip(uniq, mres):
        case = {"variation": what, "file": d.decode("latin1")}
        o = got.get(d, "missing")
        outcomes[what + ":" + ("rejected" if o == "none" else "read" if not o.startswith("exc") else o)] = outcomes.get(what + ":" + ("rejected" if o == "none" else "read" if not o.startswith("exc") else o), 0) + 1
        rep.case("packed-refs-read:" + what, key=d, nontrivial=True, outcome="rejected" if o == "none" else "read", sample=case)
        if to_tables(m) != o:
            rep.disagree("get_packed_refs vs PackedFile.read_packed", case, to_tables(m), o)
        if what == "as written" and (o == "none" or o.startswith("exc")):
            rep.fail("packed-refs-not-read-back", "the file write_packed_refs wrote is refused by get_packed_refs", case)
    rep.extra["packed_file_outcomes"] = outcomes
    # C git on the files that only name objects it has (ids of the template repository); git refuses CR LF line ends,
    # which dulwich tolerates: outside the comparison
    gfiles = [(w, d) for w, d in uniq if w in ("as written", "no final newline", "header: git's", "comment inside", "upper-case id") and
              all(s in d for s in []) and all(l.split(b" ")[0].lstrip(b"^").lower() in ids for l in d.replace(b"\r", b"").split(b"\n") if l and not l.startswith(b"#"))]
    gfiles = gfiles[:40 if not thorough else 400]
    gres = impl.run([{"fn": "packed_git", "files": [hx(d) for _, d in gfiles]}])[0].get("out", [])
    ngit = 0
    for (what, d), g in zip(gfiles, gres):
        o = got.get(d, "missing")
        if o == "none" or o.startswith("exc") or g == "none":
            continue
        ngit += 1
        mine = ";".join("%s:%s" % (it.split(":")[0], hx(bytes.fromhex(it.split(":")[1]).lower())) for it in o.split(";")) if o != "_" else "_"
        if mine != g:
            rep.fail("packed-refs-differs-from-git", "dulwich reads %s from the file, git for-each-ref shows %s" % (mine[:200], g[:200]), {"variation": what, "file": d.decode("latin1")})
    rep.extra["packed_files_compared_with_git"] = ngit
