"""Child interpreter of the correspondence checks.  argv[1] = property id;
imports impl_<prop>.HANDLERS and answers one JSON request per line.  dulwich
comes from PYTHONPATH (/repo's working tree); the Rust extension modules come
from $VERIF_RUSTEXT (rebuilt from /repo/crates by harness/build.py)."""
import importlib, importlib.util, json, os, resource, sys

prop = sys.argv[1]
mem = float(os.environ.get("VERIF_MEM_GB", "4"))
if mem > 0:
    lim = int(mem * (1 << 30))
    resource.setrlimit(resource.RLIMIT_AS, (lim, lim))
resource.setrlimit(resource.RLIMIT_CORE, (0, 0))

import dulwich  # noqa: E402

ext = os.environ.get("VERIF_RUSTEXT")
if ext and os.path.isdir(ext):
    dulwich.__path__.insert(0, ext)


def load_pure(modname):
    """A second instance of dulwich.<modname> with the Rust twins hidden, so the
    pure-Python definitions are reachable even where the module keeps no alias."""
    names = ("dulwich._pack", "dulwich._objects", "dulwich._diff_tree")
    saved = {k: sys.modules.get(k, "absent") for k in names}
    for k in names:
        sys.modules[k] = None
    try:
        path = os.path.join(os.path.dirname(dulwich.__file__), modname + ".py")
        spec = importlib.util.spec_from_file_location("dulwich.%s_purepy" % modname, path)
        mod = importlib.util.module_from_spec(spec)
        sys.modules[spec.name] = mod
        spec.loader.exec_module(mod)
    finally:
        for k, v in saved.items():
            if v == "absent":
                sys.modules.pop(k, None)
            else:
                sys.modules[k] = v
    return mod


sys.path.insert(0, os.path.dirname(os.path.abspath(__file__)))
import builtins  # noqa: E402
builtins.verif_load_pure = load_pure
mod = importlib.import_module("impl_" + prop)
out = os.fdopen(os.dup(1), "wb")
os.dup2(2, 1)  # anything the implementation prints goes to stderr
for line in sys.stdin.buffer:
    req = json.loads(line)
    try:
        r = mod.HANDLERS[req["fn"]](req)
    except Exception as e:  # noqa: BLE001
        r = {"exc": type(e).__name__, "msg": str(e)[:300]}
    except BaseException as e:  # noqa: BLE001  (PanicException, SystemExit, KeyboardInterrupt)
        r = {"baseexc": type(e).__name__, "msg": str(e)[:300]}
    out.write((json.dumps(r) + "\n").encode())
    out.flush()
