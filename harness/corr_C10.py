"""C10 — maintenance keeps reachable objects: Model/Gc.v vs dulwich.gc; maintenance sequences; reader vs repacker."""
from common import Model, Impl

PROP = "C10"
LEVEL = "proof"
LAYOUTS = [
    {"how": ["loose", "loose", "loose"]},
    {"how": ["loose", "pack", "loose"]},
    {"how": ["pack", "pack", "loose"], "dup": True},
    {"how": ["alt", "pack", "loose"], "alternate": True},
    {"how": ["pack", "loose", "pack"], "detached": True},
    {"how": ["alt", "loose", "loose"], "alternate": True, "dup": True, "detached": True},
]
OPS = ["pack_loose", "repack", "gc0", "gcnone", "gcdefault", "prune0", "prunedefault", "pack_refs", "del_ref", "reopen"]


def run(rep):
    rng = rep.rng
    thorough = rep.tier == "thorough"
    rep.extra["rule"] = ("random histories (commits with merges and multiple roots, trees sharing blobs and subtrees, gitlinks, tags of "
                         "commits / trees / blobs / tags, unreachable objects) stored as a mix of loose objects, packs, duplicate copies "
                         "and an alternate; find_reachable_objects vs the model's worklist vs an independent closure; sequences of "
                         "{pack_loose_objects, repack, gc with grace 0 / None / default, prune, pack_refs, delete a branch, reopen} with "
                         "every object re-read (same process and fresh process) after each step; git fsck --connectivity-only at the end "
                         "of a sample; a reader holding a Repo opened before interleaved with repack / pack_loose_objects / gc / git "
                         "repack -ad at the granularity of calls on the objects directory.  distinct non-trivial = distinct cases")
    rep.trusted += ["C git 2.39.5 fsck / repack as oracle and co-actor", "harness/sched.py for the reader/repacker interleavings"]
    impl = Impl(PROP, case_timeout=900)
    model = Model(PROP)
    # (a) reachability
    reqs = [{"fn": "reach", "seed": rng.randrange(1 << 30), "n": rng.choice([1, 3, 6, 12] + ([40] if thorough else [])), "layout": rng.choice(LAYOUTS)}
            for _ in range(40 if not thorough else 600)]
    res = impl.run(reqs)
    lines = []
    ok = []
    for q, r in zip(reqs, res):
        if "deps" not in r:
            rep.fail("reach-worker", "building the repository / find_reachable_objects failed: %r" % (r,), q)
            continue
        ok.append((q, r))
        lines.append("reach %s %s" % (r["deps"] or "_", r["roots"] or "_"))
    for (q, r), m in zip(ok, model.run(lines)):
        rep.case("reachable-set", key=(q["seed"], q["n"], repr(q["layout"])), nontrivial=r["n"] > 8, sample={"seed": q["seed"], "commits": q["n"], "layout": q["layout"]})
        if m != r["got"]:
            rep.disagree("find_reachable_objects vs Gc.find_reachable", q, m, r["got"])
        if r["got"] != r["closure"] or r["extra"]:
            rep.fail("reachable-set-wrong", "find_reachable_objects = %s (+%s), the closure of the ref values is %s" % (r["got"], r["extra"], r["closure"]), q)
    # (b) maintenance sequences
    reqs = []
    for k in range(36 if not thorough else 500):
        ops = [rng.choice(OPS) for _ in range(rng.randrange(2, 6))]
        reqs.append({"fn": "maintain", "seed": rng.randrange(1 << 30), "n": rng.choice([3, 6, 12]), "layout": rng.choice(LAYOUTS), "ops": ops,
                     "age": rng.random() < 0.5, "fsck": k < (10 if not thorough else 100)})
    for q, r in zip(reqs, impl.run(reqs)):
        case = {k: q[k] for k in ("seed", "n", "layout", "ops", "age")}
        rep.case("maintenance-sequence", key=repr(case), nontrivial=True, sample=case)
        if "steps" not in r:
            rep.fail("maintain-worker", "maintenance sequence failed: %r" % (r,), case)
            continue
        for i, st in enumerate(r["steps"]):
            c2 = dict(case, step=i, op=st["op"])
            if st["exc"]:
                rep.fail("maintenance-raised", "%s raised %s" % (st["op"], st["exc"]), c2)
            if st["lost_reachable"]:
                rep.fail("reachable-object-lost", "after %s objects %s, reachable before and after, are no longer readable" % (st["op"], st["lost_reachable"]), c2)
            elif st["lost_reachable_same_process"]:
                rep.fail("reachable-object-lost-same-process", "after %s the process that ran it can no longer read reachable objects %s" % (st["op"], st["lost_reachable_same_process"]), c2)
            if st["gone"] and not st["gone_unreachable_only"]:
                rep.fail("reachable-object-removed", "%s removed objects %s, not all of them unreachable" % (st["op"], st["gone"]), c2)
            if st["recent_gone"]:
                rep.fail("recent-object-pruned", "%s with the default grace period removed freshly written objects %s" % (st["op"], st["gone"]), c2)
        if r.get("fsck") not in (None, 0):
            rep.fail("git-fsck", "git fsck --connectivity-only after the sequence: %s" % r["fsck"], case)
    # (c) reader vs repacker
    reqs = []
    for op in ("repack", "pack_loose", "gc") + (("git-repack",) if True else ()):
        for warm in (True, False):
            # all schedules with one pre-emption first (one actor runs to completion between two calls of the other:
            # a few hundred), then a capped share of those with two
            reqs.append({"fn": "concurrent", "seed": 11, "n": 4, "layout": LAYOUTS[1], "op": op, "warm": warm, "reads": 4,
                         "max_runs": (60 if op == "git-repack" else 600) if not thorough else 5000, "preempt": 1})
            if op != "git-repack" or thorough:
                reqs.append({"fn": "concurrent", "seed": 12, "n": 4, "layout": LAYOUTS[1], "op": op, "warm": warm, "reads": 4,
                             "max_runs": 120 if not thorough else 3000, "preempt": 2 if not thorough else 3})
    nruns = 0
    for q, r in zip(reqs, impl.run(reqs)):
        if "runs" not in r:
            rep.fail("concurrent-worker", "reader/repacker exploration failed: %r" % (r,), q)
            continue
        for x in r["runs"]:
            nruns += 1
            case = {"op": q["op"], "warm": q["warm"], "schedule": x["sched"]}
            rep.case("reader-vs-repacker", key=(q["op"], q["warm"], x["sched"]), nontrivial=True, outcome=repr(x["reader"]), sample=case)
            if x["reader"] != [True] * r["reads"]:
                rep.fail("spurious-missing-object", "a reader got %s for objects that exist throughout a concurrent %s" % (x["reader"], q["op"]), dict(case, trace=x["trace"]))
            if x["repacker"] != "ok":
                rep.fail("repacker-raised", "the repacker failed: %s" % x["repacker"], dict(case, trace=x["trace"]))
    rep.extra["reader_repacker_schedules"] = nruns
    # the lookup racing a maintenance process, step by step, against Model/PackLookup.v
    import corr_C10_lookup
    corr_C10_lookup.run(rep)


def replay(rep, body):
    run(rep)
