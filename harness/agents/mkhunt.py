import json, sys
pid = sys.argv[1]
t = open('/verif/harness/agents/hunt_prompt.md').read()
for l in open('/verif/properties.jsonl'):
    p = json.loads(l)
    if p['id'] == pid:
        print(t.format(ID=pid, TITLE=p['title'], STATEMENT=p['statement'], QUANT=p['quantifier']['text'], WT='/tmp/wth-' + pid, OUT='/tmp/hunt'))
