"""mkcorpus.py <prop> <finding-number> <name>: copy an agent's script into the corpus, re-rooting its scratch directory"""
import sys, re, os
prop, n, name = sys.argv[1], sys.argv[2], sys.argv[3]
src = open('/tmp/hunt/%s/finding-%s.py' % (prop, n)).read()
src = src.replace('"/tmp/hunt/%s/tmp"' % prop, '(os.environ.get("CORPUS_TMP") or "/tmp")').replace("'/tmp/hunt/%s/tmp'" % prop, '(os.environ.get("CORPUS_TMP") or "/tmp")')
src = src.replace('/tmp/hunt/%s/' % prop, 'corpus/%s/' % prop).replace('/tmp/wth-%s' % prop, '/repo')
if not re.search(r'^import .*\bos\b|^import os', src, re.M):
    src = "import os\n" + src
os.makedirs('/verif/corpus/%s' % prop, exist_ok=True)
open('/verif/corpus/%s/%s.py' % (prop, name), 'w').write(src)
print('/verif/corpus/%s/%s.py' % (prop, name), 'hunt' in src)
