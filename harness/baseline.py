"""Run the repository's pinned test suite (BASELINE.json cmd) and compare with
its stable_pass list.  Usage: baseline.py [outfile]"""
import json, os, subprocess, sys, tempfile, xml.etree.ElementTree as ET
b = json.load(open("/root/.vp/BASELINE.json"))
d = tempfile.mkdtemp(prefix="verif-baseline-")
xml = os.path.join(d, "junit.xml")
cmd = b["cmd"].replace("<file>", xml)
p = subprocess.run(cmd, shell=True, stdout=subprocess.PIPE, stderr=subprocess.STDOUT)
passed = set()
for tc in ET.parse(xml).getroot().iter("testcase"):
    if not any(ch.tag in ("failure", "error", "skipped") for ch in tc):
        passed.add("%s::%s" % (tc.get("classname"), tc.get("name")))
stable = set(b["stable_pass"])
missing = sorted(stable - passed)
out = {"stable": len(stable), "passed_now": len(passed), "stable_not_passing": missing[:100]}
print(json.dumps(out, indent=1))
if len(sys.argv) > 1:
    json.dump(out, open(sys.argv[1], "w"), indent=1)
import shutil; shutil.rmtree(d, ignore_errors=True)
sys.exit(1 if missing else 0)
