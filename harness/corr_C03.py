"""C03 — delta codec: correspondence of Model/Delta.v with dulwich's pure-Python
and Rust codecs (and C git), plus the property evaluated on the implementation."""
import itertools, hashlib
from common import Model, Impl, hx, unhx, hexint, load_corpus
import gen_delta as GD
import gitoracle as G

PROP = "C03"
LEVEL = "proof"
ALPHA_Q = [0x00, 0x01, 0x02, 0x7F, 0x80, 0x81, 0x90, 0x91, 0xB0, 0xFF]
ALPHA_T = ALPHA_Q + [0x03, 0x10, 0xA0, 0xF0]
SIZES = [0, 1, 2, 127, 128, 129, 2**14 - 1, 2**14, 65535, 65536, 65537, 2**24, 2**31 - 1, 2**31, 2**32 - 1,
         2**32, 2**32 + 1, 2**40, 2**56, 2**63 - 1, 2**63, 2**63 + 1, 2**64 - 1, 2**64, 2**64 + 1, 2**70, 2**77]


def canon_impl(r):
    if r is None:
        return "absent"
    if "died" in r:
        return "died:%s" % r["died"]
    k = r["r"]
    if k == "ok":
        return "ok " + r["out"]
    if k == "err":
        return "err"
    return "%s:%s" % (k, r.get("exc"))


def declared(delta):
    """(src_size, dest_size) of a delta or None (independent reader)."""
    pos, vals = 0, []
    for _ in range(2):
        n, sh = 0, 0
        while True:
            if pos >= len(delta):
                return None
            c = delta[pos]; pos += 1
            n |= (c & 0x7F) << sh
            sh += 7
            if not c & 0x80:
                break
        vals.append(n)
    return vals


def apply_cases(rep, cases, label):
    """cases: list of (kind, srcref, delta bytes).  Runs model py/rs and
    implementation py/rs, records disagreements and property failures."""
    model = Model(PROP)
    pre = ["define %s %s" % (k, hx(v)) for k, v in GD.BASES.items()]
    lines = []
    for kind, src, delta in cases:
        lines.append("apply_py %s %s" % (src, hx(delta)))
        lines.append("apply_rs %s %s" % (src, hx(delta)))
    mres = model.run(lines, preamble=pre)
    impl = Impl(PROP, mem_gb=3, case_timeout=60)
    ires = impl.run([{"fn": "apply_both", "src": s, "delta": hx(d)} for _, s, d in cases])
    for k, (kind, src, delta) in enumerate(cases):
        m_py, m_rs = mres[2 * k], mres[2 * k + 1]
        r = ires[k]
        case = {"kind": kind, "src": src if src.startswith("@") else src, "delta": hx(delta)}
        if "died" in r or "exc" in r or "baseexc" in r:
            i_py = i_rs = "worker:" + repr(r)
            rep.fail("worker-died", "implementation worker died or raised on an apply_delta call: %r" % r, case)
            continue
        i_py, i_rs = canon_impl(r["py"]), canon_impl(r["rs"])
        dec = declared(delta)
        srcb = GD.resolve(src)
        reached = dec is not None and dec[0] == len(srcb)
        rep.case(kind, key=(src, bytes(delta)), nontrivial=reached,
                 outcome="py=%s rs=%s" % (i_py.split(" ")[0].split(":")[0], i_rs.split(" ")[0].split(":")[0]),
                 sample=case)
        if m_py != i_py:
            rep.disagree("apply_delta (Python) vs Delta.apply_py", case, m_py[:200], i_py[:200])
        if i_rs != "absent" and m_rs != i_rs:
            rep.disagree("apply_delta (Rust) vs Delta.apply_rs", case, m_rs[:200], i_rs[:200])
        # the property itself, on the implementation
        for who, res, raw in (("py", i_py, r["py"]), ("rs", i_rs, r["rs"])):
            if res == "absent":
                continue
            if res.startswith("ok "):
                out = unhx(res[3:])
                if dec is None or len(out) != dec[1]:
                    rep.fail(who + "-length", "%s apply_delta returned %d bytes for a delta declaring %s"
                             % (who, len(out), dec and dec[1]), case)
                if who == "py" and raw.get("pieces") is False:
                    rep.fail(who + "-pieces", "%s apply_delta output is not made of base slices and literal inserts" % who, case)
            elif res != "err":
                rep.fail(who + "-unclean", "%s apply_delta did not fail with the delta error: %s" % (who, res), case)
    return mres, ires


def gen_exhaustive(rep):
    alpha = ALPHA_T if rep.tier == "thorough" else ALPHA_Q
    cases = []
    plan = [("empty", 4), ("one", 4), ("b300", 4), ("b70k", 2), ("z66k", 2)]
    if rep.tier == "thorough":
        plan = [("empty", 5), ("one", 5), ("b300", 4), ("b70k", 3), ("z66k", 3)]
    for name, k in plan:
        head = GD.enc(len(GD.BASES[name]))
        for n in range(0, k + 1):
            for t in itertools.product(alpha, repeat=n):
                cases.append(("exhaustive-tail", "@" + name, head + bytes(t)))
    # raw strings (header errors included) against the empty and one-byte base
    for n in range(0, 4 if rep.tier == "quick" else 5):
        for t in itertools.product(alpha, repeat=n):
            cases.append(("exhaustive-raw", "@empty", bytes(t)))
            cases.append(("exhaustive-raw", "@one", bytes(t)))
    return cases


def mutate(rep, src_name, delta, nmut):
    rng = rep.rng
    srcb = GD.BASES[src_name]
    dec = declared(delta)
    out = []
    if dec is None:
        return out
    hlen = len(GD.enc(dec[0])) + len(GD.enc(dec[1]))
    body = delta[hlen:]
    ref = "@" + src_name
    for w in range(1, 12):
        out.append(("wide-dest-varint", ref, GD.enc(dec[0]) + GD.enc_wide(dec[1], w) + body))
        out.append(("wide-src-varint", ref, GD.enc_wide(dec[0], w) + GD.enc(dec[1]) + body))
    for s in SIZES + [dec[1] - 1, dec[1] + 1]:
        if s >= 0:
            out.append(("declared-dest", ref, GD.enc(dec[0]) + GD.enc(s) + body))
    for s in SIZES[:8] + SIZES[-6:]:
        out.append(("declared-src", ref, GD.enc(s) + GD.enc(dec[1]) + body))
    cuts = range(len(delta) + 1) if len(delta) <= 40 else sorted(set(rng.randrange(len(delta)) for _ in range(30)))
    for c in cuts:
        out.append(("truncation", ref, delta[:c]))
    for _ in range(nmut):
        b = bytearray(delta)
        pos = rng.randrange(hlen, len(b)) if len(b) > hlen else 0
        how = rng.randrange(5)
        if not b:
            continue
        if how == 0:
            b[pos] = 0
        elif how == 1:
            b[pos] ^= 1 << rng.randrange(8)
        elif how == 2:
            b[pos] = rng.choice([0x80, 0x90, 0x91, 0xB0, 0xFF, 0x7F, 0x01, 0xF0, 0xC0])
        elif how == 3:
            b[pos:pos] = bytes([rng.choice(ALPHA_T)])
        else:
            b += bytes(rng.choice(ALPHA_T) for _ in range(rng.randrange(1, 4)))
        out.append(("byte-mutation", ref, bytes(b)))
    return out


def edit(rng, base, nedits):
    t = bytearray(base)
    for _ in range(nedits):
        how = rng.randrange(4)
        pos = rng.randrange(len(t) + 1)
        n = rng.choice([1, 2, 5, 20, 130, 300])
        if how == 0:
            t[pos:pos] = rng.randbytes(n)
        elif how == 1:
            del t[pos:pos + n]
        elif how == 2:
            t[pos:pos + n] = rng.randbytes(n)
        else:
            t[pos:pos] = t[max(0, pos - n):pos]
    return bytes(t)


def gen_pairs(rep):
    rng = rep.rng
    pairs = [(b"", b""), (b"", b"x"), (b"x", b""), (b"abc", b"abc"), (b"hello world", b"hello brave new world"),
             (GD.BASES["b300"], GD.BASES["b300"][::-1]), (b"a" * 200, b"a" * 129), (b"", b"q" * 128), (b"", b"q" * 127),
             (b"", b"q" * 254), (b"", b"q" * 255)]
    n = 60 if rep.tier == "quick" else 1500
    for _ in range(n):
        L = rng.choice([0, 1, 3, 10, 50, 130, 400, 1000])
        base = rng.randbytes(L) if rng.random() < 0.7 else bytes(rng.choice(b"ab") for _ in range(L))
        pairs.append((base, edit(rng, base, rng.randrange(0, 5))))
    # > 64 KiB runs: split copy ops, offsets needing 3 bytes
    big = GD.BASES["b70k"]
    pairs.append((big, big))
    pairs.append((big, big[:66000] + b"XYZ" + big[66000:]))
    pairs.append((big, big[69000:] + big[:68000]))
    # boundary-directed: common runs of exactly k * _MAX_COPY_LEN (0xFFFF) bytes and one off,
    # followed / preceded by another operation (constants taken from Model/Delta.v enc_copies)
    for L in ([65535, 65534, 65536, 131070] if rep.tier == "quick" else [65535, 65534, 65536, 131070, 131069, 131071, 196605]):
        run_ = rng.randbytes(L)
        pairs.append((run_, run_ + b"!tail"))
        pairs.append((run_ + b"#" * 40, run_))
    # inserts of exactly k * 127 bytes and one off
    for L in (127, 126, 128, 254, 253, 255, 381):
        pairs.append((b"base-" * 4, b"base-" * 4 + rng.randbytes(L)))
    if rep.tier == "thorough":
        big2 = rng.randbytes(200000)
        pairs.append((big2, big2))
        pairs.append((big2, big2[:150000] + b"!" * 300 + big2[150000:]))
    return pairs


def create_matrix(rep, pairs):
    """encoder x decoder over {py, rust, git, model}; opcode-level correspondence
    of _create_delta_py with Delta.create_py on difflib's real opcodes."""
    impl = Impl(PROP, mem_gb=3, case_timeout=300)
    cres = impl.run([{"fn": "create_both", "base": hx(b), "target": hx(t)} for b, t in pairs])
    model = Model(PROP)
    lines = []
    for (b, t), r in zip(pairs, cres):
        if "ops" not in r:
            rep.fail("create-died", "create_delta died or raised: %r" % r, {"base": hx(b)[:200], "target": hx(t)[:200]})
            lines.append("enc_size 0")
            continue
        ops = ",".join("%s:%s" % (o[0], ":".join(hexint(x) for x in o[1:])) for o in r["ops"]) or "-"
        lines.append("create %s %s %s" % (hx(b), hx(t), ops))
    mres = model.run(lines)
    apply_in = []
    for (b, t), r, m in zip(pairs, cres, mres):
        if "ops" not in r:
            continue
        case = {"base": hx(b)[:400], "target": hx(t)[:400], "len": [len(b), len(t)]}
        rep.case("create", key=(b, t), nontrivial=len(r["ops"]) > 1, sample=case if len(b) < 100 else None)
        valid, mhex = m.split(" ")
        if valid != "valid":
            rep.disagree("difflib opcodes vs Delta.valid_opcodesb", case, valid, r["ops"][:10])
        if mhex != r["py"]:
            rep.disagree("_create_delta_py vs Delta.create_py", case, mhex[:200], r["py"][:200])
        for who in ("py", "rs", "pub"):
            if r.get(who) is not None:
                apply_in.append((who, b, t, unhx(r[who])))
    # git as encoder (objects need some size before git deltifies them)
    ngit = 25 if rep.tier == "quick" else 300
    k = 0
    for (b, t) in pairs:
        if k >= ngit:
            break
        if len(b) > 100 and len(t) > 100 and len(b) < 100000:
            for (gb, gd, gt) in G.git_create_delta(b, t):
                apply_in.append(("git", gb, gt, gd))
                k += 1
    # every decoder on every produced delta
    lines = []
    for who, b, t, d in apply_in:
        lines.append("apply_py %s %s" % (hx(b), hx(d)))
        lines.append("apply_rs %s %s" % (hx(b), hx(d)))
    mres = model.run(lines)
    ires = impl.run([{"fn": "apply_both", "src": hx(b), "delta": hx(d)} for _, b, t, d in apply_in])
    ngitdec = 0
    for k, (who, b, t, d) in enumerate(apply_in):
        want = "ok " + hx(t)
        case = {"encoder": who, "base": hx(b)[:400], "target": hx(t)[:400], "delta": hx(d)[:400], "len": [len(b), len(t), len(d)]}
        got = {"model-py": mres[2 * k], "model-rs": mres[2 * k + 1]}
        r = ires[k]
        if "py" in r:
            got["py"] = canon_impl(r["py"]); got["rs"] = canon_impl(r["rs"])
        else:
            rep.fail("worker-died", "apply worker died: %r" % r, case)
        if who in ("py", "rs") and len(b) < 3000 and ngitdec < (40 if rep.tier == "quick" else 400) and len(d) > 2:
            g = G.git_apply_delta(b, d)
            got["git"] = "ok " + hx(g[1]) if g[0] == "ok" else "err"
            ngitdec += 1
        rep.case("roundtrip-" + who, key=(b, t, who), nontrivial=len(d) > 3)
        for dec, res in got.items():
            if res == "absent":
                continue
            if res != want:
                if dec.startswith("model"):
                    rep.disagree("round trip %s -> %s" % (who, dec), case, res[:100], want[:100])
                else:
                    rep.fail("roundtrip-%s-%s" % (who, dec), "apply(%s create) by %s is not the target: %s" % (who, dec, res[:80]), case)
    return [(b, d) for who, b, t, d in apply_in if who == "py"]


def helper_level(rep):
    """private helpers on boundary values black-box inputs cannot reach cheaply"""
    model = Model(PROP)
    reqs, lines = [], []
    for n in SIZES + [2**k for k in range(0, 80, 7)] + [2**k - 1 for k in range(1, 80, 7)]:
        reqs.append({"fn": "helpers", "what": "enc_size", "n": "%x" % n}); lines.append("enc_size %x" % n)
    offs = [0, 1, 255, 256, 257, 65535, 65536, 0x10001, 0xFF00FF, 0xFFFFFF, 0x1000000, 0x1000001, 0xFF0000FF, 0xFFFFFFFF, 0x00FF00]
    lens = [1, 2, 255, 256, 257, 0xFF00, 0xFFFF, 0x100, 0x00FF]
    for a in offs:
        for b in lens:
            reqs.append({"fn": "helpers", "what": "enc_copy", "a": "%x" % a, "b": "%x" % b}); lines.append("enc_copy %x %x" % (a, b))
    ires = Impl(PROP, workers=2).run(reqs)
    mres = model.run(lines)
    missing = 0
    for q, i, m in zip(reqs, ires, mres):
        if i.get("missing"):
            missing += 1
            continue
        rep.case("helper-" + q["what"], key=tuple(sorted(q.items())), nontrivial=True)
        if i.get("v") != m:
            rep.disagree("%s vs model" % q["what"], q, m, i)
    if missing:
        rep.note("%d helper-level comparisons skipped: private helper no longer present (black box only)" % missing)


def big_offset(rep):
    """4-byte copy offsets on a 16.8 MB base: implementation only (the proved
    decoder covers the model side)."""
    impl = Impl(PROP, workers=1, mem_gb=3)
    r = impl.run([{"fn": "big_offset"}])[0]
    rep.case("big-offset", key="bigoff", nontrivial=True)
    if r.get("ok") is not True:
        rep.fail("big-offset", "copy with a 4-byte offset mis-decoded: %r" % r, r)


def memory(rep):
    """what the Python decoder holds while it decodes, against Delta.mat_py (proved <= the declared size)"""
    impl = Impl(PROP)
    model = Model(PROP)
    thorough = rep.tier == "thorough"
    cases = []
    for base in ("z66k", "b70k"):
        n = len(GD.BASES[base])
        for decl in (0, 3, 65536, 70000, 2 ** 33, 2 ** 62):
            for op, reps in ((b"\x80", (1, 2, 40, 1500)), (b"\x90\xff", (3, 4000)), (b"\xb1\x05\x00\x40", (700,)),
                             (b"\x7f" + b"x" * 127, (2, 600)), (b"\x01y", (5000,))):
                for k in (reps if thorough else reps[-1:]):
                    cases.append(("@" + base, GD.enc(n) + GD.enc(decl) + op * k))
            # a valid prefix, then copies that can never fit
            cases.append(("@" + base, GD.enc(n) + GD.enc(65536 + 10) + b"\x80" + b"\x05hello" + b"\x80" * 300))
    ires = impl.run([{"fn": "apply_mem", "src": s, "delta": hx(d)} for s, d in cases])
    mres = model.run(["mat_py %x %s" % (len(GD.resolve(s)), hx(d)) for s, d in cases])
    for (s, d), r, m in zip(cases, ires, mres):
        case = {"src": s, "delta": hx(d)[:400], "delta_len": len(d), "declared": declared(d)}
        rep.case("decoder-memory", key=(s, d), nontrivial=True, outcome=(r or {}).get("r"), sample=case)
        if not isinstance(r, dict) or "peak" not in r:
            rep.fail("worker-died", "memory measurement died: %r" % (r,), case)
            continue
        mat = int(m, 16)
        # every chunk is a bytes object (33 bytes of header) in a list; nothing else may grow with the delta
        bound = mat + 100 * len(d) + 65536
        if r["peak"] > bound:
            rep.fail("python-decoder-memory", "apply_delta held %d bytes at its peak for a delta of %d bytes declaring %s; "
                     "Delta.mat_py allows %d materialised bytes (bound used %d)" % (r["peak"], len(d), declared(d), mat, bound), case)


def run(rep):
    rep.extra["rule"] = ("corpus of design-time reproducers; exhaustive tails over an opcode-covering alphabet behind the "
                         "correct source-size header for 5 bases; structured mutations of valid deltas (size varints of "
                         "1..11 bytes, declared sizes up to 2^77, truncations, opcode 0, mask flips); create x apply matrix "
                         "over {python, rust, git, model}.  distinct non-trivial = distinct (base, delta) whose header "
                         "parses and names the base length, plus distinct (base,target) pairs with >1 opcode")
    rep.trusted += ["difflib.SequenceMatcher / similar crate outputs are inputs, checked each run by valid_opcodesb / by decoding",
                    "C git 2.39.5 (unpack-objects, pack-objects) as third encoder/decoder"]
    rep.assumptions += ["Rust extension built with the dev profile (cargo build --offline), as the shipped .so files are"]
    cases = []
    for name, c in load_corpus(PROP):
        cases.append(("corpus:" + name, c["src"], unhx(c["delta"])))
    cases += gen_exhaustive(rep)
    apply_cases(rep, cases, "exhaustive")
    helper_level(rep)
    valid = create_matrix(rep, gen_pairs(rep))
    # mutations of valid deltas against the named bases
    muts = []
    seeds = [("hello", GD.enc(11) + GD.enc(13) + b"\x90\x06" + b"\x02!!" + b"\x91\x06\x05"),
             ("b300", GD.enc(300) + GD.enc(300 + 5) + b"\x90\x64" + b"\x05abcde" + b"\x91\x64\xc8"),
             ("b70k", GD.enc(70000) + GD.enc(70000) + b"\xb0\xff\xff" + b"\xb3\xff\xff\xff\x71\x11"),
             ("z66k", GD.enc(66000) + GD.enc(65536 + 3) + b"\x80" + b"\x03abc"),
             ("one", GD.enc(1) + GD.enc(2) + b"\x90\x01\x01Z"),
             ("empty", GD.enc(0) + GD.enc(3) + b"\x03abc")]
    nmut = 150 if rep.tier == "quick" else 6000
    for name, d in seeds:
        muts.append(("valid-seed", "@" + name, d))
        muts += mutate(rep, name, d, nmut)
    apply_cases(rep, muts, "mutations")
    big_offset(rep)
    memory(rep)


def replay(rep, body):
    first = body.get("first", {})
    case = first.get("case", first)
    if "delta" in case:
        apply_cases(rep, [("replay", case.get("src", "-"), unhx(case["delta"]))], "replay")
    else:
        run(rep)
