"""C02 — pack entry headers, pack index lookup, whole packs with git."""
import hashlib, struct
from common import Model, Impl, hx, unhx, compare

PROP = "C02"
LEVEL = "proof"


def edit(rng, base, n):
    t = bytearray(base)
    for _ in range(n):
        pos = rng.randrange(len(t) + 1)
        k = rng.choice([1, 3, 20, 200])
        how = rng.randrange(3)
        if how == 0:
            t[pos:pos] = rng.randbytes(k)
        elif how == 1:
            del t[pos:pos + k]
        else:
            t[pos:pos + k] = rng.randbytes(k)
    return bytes(t)


def gen_blobs(rng, big=False):
    out = [b"", b"a", rng.randbytes(15), rng.randbytes(16), rng.randbytes(2047), rng.randbytes(2048)]
    base = rng.randbytes(rng.choice([300, 3000]))
    for _ in range(rng.randrange(2, 10)):
        base = edit(rng, base, rng.randrange(1, 4))
        out.append(base)
    if big:
        b2 = rng.randbytes(70000)
        b3 = bytes(2**18 + 1)
        out += [b2, b2[:66000] + b"patch" + b2[66000:], b3, b3[:-7] + b"seven!!"]
    if rng.random() < 0.5:
        out.append(out[-1])            # duplicated content
    rng.shuffle(out)
    return out[: rng.randrange(0, len(out) + 1)] if rng.random() < 0.3 else out


def run(rep):
    rng = rep.rng
    thorough = rep.tier == "thorough"
    rep.extra["rule"] = ("helper level: entry headers for all 7 types x sizes straddling 15/16, 2^11, 2^18, 2^32; OFS offsets around "
                         "127/128, 16511/16512 and zero; indexes v1/v2/v3 over synthetic sorted names (first bytes 00 and ff, "
                         "offsets >= 2^31, the crafted CRC table of the recorded defect) with present and absent probes vs the "
                         "model's fan-out + bisection; whole packs over the option matrix {deltify, window, level -1..9, idx 1/2/3} "
                         "read back by random access and iteration, verified by git index-pack --strict / verify-pack; packs "
                         "written by git pack-objects --depth up to 50 with and without --delta-base-offset read by dulwich.  "
                         "distinct non-trivial = distinct requests")
    rep.trusted += ["C git 2.39.5 index-pack / verify-pack / pack-objects", "Python zlib shared by writer and reader (pack payloads are not modelled)"]
    impl = Impl(PROP, case_timeout=300, mem_gb=6)
    model = Model(PROP)
    items = []
    sizes = [0, 1, 15, 16, 17, 2047, 2048, 2**11 - 1, 2**18 - 1, 2**18, 2**25, 2**32 - 1, 2**32, 2**40, 2**63]
    for t in range(1, 8):
        for n in sizes:
            items.append(dict(kind="object-header", line="objhdr %x %x" % (t, n), req={"fn": "helpers", "what": "objhdr", "t": "%x" % t, "size": "%x" % n}))
    for n in [1, 2, 126, 127, 128, 129, 16383, 16384, 16511, 16512, 16513, 2113663, 2113664, 2**24, 2**31, 2**32, 2**40]:
        items.append(dict(kind="ofs-offset", line="ofs %x" % n, req={"fn": "helpers", "what": "ofs", "n": "%x" % n}))
    res = compare(rep, PROP, items, impl=impl, model=model)
    items = []
    origin = {}
    for it, m, r in res:
        if isinstance(r, dict) and r.get("v"):
            what = "dechdr" if it["kind"] == "object-header" else "decofs"
            items.append(dict(kind="decode-" + it["kind"], line="%s %s" % (what, r["v"] + "aabb"), req={"fn": "helpers", "what": what, "s": r["v"] + "aabb"}))
            origin[items[-1]["line"]] = it
    for s in (b"", b"\x80", b"\x80\x80", b"\x00", b"\x80\x00", b"\xff\xff\x7f", b"\x81\x00", b"\x80\x80\x00"):
        items.append(dict(kind="decode-malformed", line="decofs " + hx(s), req={"fn": "helpers", "what": "decofs", "s": hx(s)}))
        items.append(dict(kind="decode-malformed", line="dechdr " + hx(s), req={"fn": "helpers", "what": "dechdr", "s": hx(s)}))
    for it, m, r in compare(rep, PROP, items, impl=impl, model=model):
        # the implementation reading back what it wrote itself
        o = origin.get(it["line"])
        if o is None or not isinstance(r, dict) or "v" not in r:
            continue
        q = o["req"]
        want = ("%s %s aabb" % (q["t"], q["size"])) if q["what"] == "objhdr" else ("%s aabb" % q["n"])
        if r["v"] != want:
            rep.fail("header-roundtrip", "dulwich decodes the %s it wrote for %s as %s" % (o["kind"], want[:-5], r["v"]), {"written": it["req"]["s"][:-4], "request": q})
    # ---- index lookup
    reqs, meta = [], []
    def mk_idx(names, shalen, version, offs=None, crcs=None, extra_probes=()):
        names = sorted(set(names))
        offs = offs or [12 + 50 * i for i in range(len(names))]
        crcs = crcs or [rng.getrandbits(32) for _ in names]
        probes = list(names) + list(extra_probes)
        for n in names[:6]:
            b = bytearray(n); b[-1] ^= 1; probes.append(bytes(b))
            b = bytearray(n); b[1] ^= 0x80; probes.append(bytes(b))
        probes += [bytes([0] * shalen), bytes([0xFF] * shalen), bytes([0xFF] * (shalen - 1) + [0xFE]), bytes([0x7F] * shalen)]
        reqs.append({"fn": "idx", "shalen": shalen, "version": version, "entries": [[hx(n), o, c] for n, o, c in zip(names, offs, crcs)],
                     "probes": [hx(p) for p in probes]})
        meta.append((names, offs, probes))
    # the recorded defect: five names ff 0i 00.., CRCs spelling X = ff fe 00 01 .. 11
    crafted = [bytes([0xFF, i]) + b"\0" * 18 for i in range(5)]
    X = bytes([0xFF, 0xFE]) + bytes(range(0, 18))
    crcs = list(struct.unpack(">5L", X))
    mk_idx(crafted, 20, 2, crcs=crcs, extra_probes=[X])
    for _ in range(60 if not thorough else 1500):
        shalen = rng.choice([20, 20, 32])
        version = rng.choice([1, 2, 3]) if shalen == 20 else 2      # (writing a SHA-256 v3 index is not implemented in dulwich)
        n = rng.choice([0, 1, 2, 5, 40, 300])
        firsts = rng.choice([[0], [255], [0, 255], list(range(256)), [7, 8, 9]])
        names = [bytes([rng.choice(firsts)]) + rng.randbytes(shalen - 1) for _ in range(n)]
        offs = None
        if version != 1 and rng.random() < 0.4 and n:
            offs = sorted(rng.sample(range(12, 2**31), len(set(names)) // 2) + rng.sample(range(2**31, 2**40), len(set(names)) - len(set(names)) // 2))
        mk_idx(names, shalen, version, offs=offs)
    ires = impl.run(reqs)
    lines = ["lookup %s %s" % (",".join(hx(n) for n in names) or "_", ",".join(hx(p) for p in probes)) for names, offs, probes in meta]
    mres = model.run(lines)
    for q, (names, offs, probes), r, m in zip(reqs, meta, ires, mres):
        case = {"version": q["version"], "names": [hx(n) for n in names][:8], "n": len(names)}
        rep.case("index-lookup", key=repr(q)[:3000], nontrivial=len(names) > 1, sample=case)
        if "v" not in r:
            rep.fail("index-write-or-load", "writing / loading a pack index failed: %r" % (r,), case)
            continue
        got = r["v"].split(",")
        mm = m.split(",")
        want_m = ["none" if x == "none" else str(offs[int(x)]) for x in mm]
        if got != want_m:
            k = next(i for i, (a, b) in enumerate(zip(got, want_m)) if a != b)
            rep.disagree("PackIndex.object_offset vs PackIdx.idx_lookup", dict(case, probe=hx(probes[k])), want_m[k], got[k])
        # the property itself
        pos = {n: o for n, o in zip(names, offs)}
        for p, g in zip(probes, got):
            w = str(pos[p]) if p in pos else "none"
            if g != w:
                rep.fail("index-lookup-wrong", "object_offset(%s..) = %s, the index %s" % (hx(p)[:8], g, "holds offset " + w if p in pos else "does not contain it"),
                         dict(case, probe=hx(p)))
                break
        if not r.get("iter_ok"):
            rep.fail("index-iteration", "iterentries() does not return the entries written", case)
    # ---- whole packs
    reqs = []
    npk = 24 if not thorough else 500
    for k in range(npk):
        opts = {"deltify": rng.choice([True, False]), "window": rng.choice([None, 1, 5]), "level": rng.choice([-1, 0, 1, 6, 9]),
                "idx": rng.choice([1, 2, 3])}
        big = (k % 6 == 0)
        if big:
            opts["deltify"] = False      # unrelated 256 KiB blobs in one delta window take minutes in the diff library
        blobs = gen_blobs(rng, big=big)
        if k % 6 == 3:
            # deltified large blobs of one family: copy runs > 64 KiB, offsets needing 3 bytes
            # (on their own: an unrelated small blob in the same delta window costs minutes in the Myers diff)
            b2 = rng.randbytes(70000)
            blobs = [b2, b2[:66000] + b"patch" + b2[66000:], b2[100:]]
            opts["deltify"] = True
        reqs.append({"fn": "pack_roundtrip", "blobs": [hx(b) for b in blobs], "opts": opts, "git": k < (12 if not thorough else 200)})
    # entries whose deflate stream ends exactly on / next to a 64 KiB read-slice boundary of the pack reader
    import zlib
    for target in (65535, 65536, 65537, 131072) + ((196608, 65536 * 2 - 1) if thorough else ()):
        for level in (-1, 0):
            n = target - 40
            blob = None
            for _ in range(200):
                b = rng.randbytes(max(n, 1))
                ln = len(zlib.compress(b, level))
                if ln == target:
                    blob = b
                    break
                n += target - ln
            if blob is not None:
                reqs.append({"fn": "pack_roundtrip", "blobs": [hx(blob), hx(b"tail" * 10)], "git": True, "boundary": target,
                             "opts": {"deltify": False, "window": None, "level": level, "idx": 2}})
    rep.extra["stream_boundary_cases"] = sum(1 for q in reqs if q.get("boundary"))
    for q, r in zip(reqs, impl.run(reqs)):
        case = {"opts": q["opts"], "blobs": [len(unhx(b)) for b in q["blobs"]]}
        rep.case("pack-roundtrip", key=repr(q)[:2000], nontrivial=len(q["blobs"]) > 1, sample=case)
        if "write_exc" in r or "read_exc" in r or "n" not in r:
            rep.fail("pack-io-failed", "writing or reading back a pack failed: %r" % (r,), case)
            continue
        for flag in ("random_ok", "seq_ok", "check_ok", "trailer_ok", "crc_ok", "derived_ok"):
            if not r.get(flag):
                rep.fail("pack-" + flag, "pack written by dulwich: %s is false" % flag, case)
        if r.get("len") != r["n"]:
            rep.fail("pack-count", "pack holds %s objects, %s distinct objects were written" % (r.get("len"), r["n"]), case)
        if q["git"]:
            if r.get("git_index_pack") != 0 or not r.get("git_ids_ok"):
                rep.fail("git-rejects-pack", "git index-pack --strict: %s %s" % (r.get("git_index_pack"), r.get("git_err")), case)
            elif r.get("git_verify_pack") != 0:
                rep.fail("git-rejects-idx", "git verify-pack on dulwich's index: %s" % r.get("git_verify_err"), case)
    # the object store's own pack-writing path, with objects passed more than once
    reqs = []
    for k in range(6 if not thorough else 60):
        blobs = [rng.randbytes(rng.randrange(1, 300)) for _ in range(rng.randrange(1, 6))]
        blobs += rng.sample(blobs, rng.randrange(1, len(blobs) + 1))
        rng.shuffle(blobs)
        reqs.append({"fn": "store_add_objects", "blobs": [hx(b) for b in blobs]})
    for q, r in zip(reqs, impl.run(reqs)):
        case = {"blobs": [len(unhx(b)) for b in q["blobs"]], "distinct": len(set(q["blobs"]))}
        rep.case("store-add-objects", key=repr(q)[:500], nontrivial=True, sample=case)
        if "entries" not in r:
            rep.fail("add-objects-failed", "DiskObjectStore.add_objects failed: %r" % (r,), case)
        elif r["entries"] != r["unique"] or not r["readable"]:
            rep.fail("pack-count", "add_objects: the pack index lists %s entries for %s distinct objects" % (r["entries"], r["unique"]), case)
        elif r.get("git_index_pack") != 0:
            rep.fail("git-rejects-pack", "git index-pack --strict on the pack written by add_objects: %s" % r.get("git_err"), case)
    # packs written from objects that already sit deltified in a pack: reused deltas, reused compressed chunks, subsets
    reqs = []
    for k in range(16 if not thorough else 200):
        base = rng.randbytes(rng.choice([300, 2000]))
        chain = [base]
        for _ in range(rng.choice([2, 5, 12])):
            chain.append(edit(rng, rng.choice(chain), 1))
        chain = list(dict.fromkeys(chain))
        n = len(chain)
        how = rng.choice(["container", "container", "data"])
        subset = list(range(n)) if how == "data" or rng.random() < 0.4 else sorted(rng.sample(range(n), rng.randrange(1, n + 1)))
        reqs.append({"fn": "repack_roundtrip", "blobs": [hx(b) for b in chain], "source": rng.choice(["git", "dulwich"]), "ofs": rng.random() < 0.5, "how": how,
                     "subset": subset, "deltify": rng.random() < 0.3, "reuse": rng.random() < 0.8, "comp": rng.random() < 0.6, "level": rng.choice([-1, 0, 9])})
    reused = 0
    for q, r in zip(reqs, impl.run(reqs)):
        case = {k: v for k, v in q.items() if k not in ("fn", "blobs")}
        case["n"] = len(q["blobs"])
        rep.case("repack-roundtrip", key=repr(q)[:1500], nontrivial=r.get("src_deltas", 0) > 0, outcome="%s/%s" % (q["how"], "deltas" if r.get("out_deltas") else "full"), sample=case)
        reused += 1 if r.get("out_deltas") else 0
        if "setup_exc" in r:
            rep.note("repack source could not be built: %r" % (r,))
            continue
        if "write_exc" in r or "read_exc" in r or "random_ok" not in r:
            rep.fail("repack-io-failed", "writing a pack from packed objects, or reading it back, failed: %r" % (r,), case)
            continue
        for flag in ("random_ok", "seq_ok", "check_ok"):
            if not r.get(flag):
                rep.fail("repack-" + flag, "pack rewritten from packed objects: %s is false" % flag, case)
        if r.get("git_index_pack") != 0:
            rep.fail("git-rejects-pack", "git index-pack --strict on a pack rewritten from packed objects: %s" % r.get("git_err"), case)
    rep.extra["repacks_with_reused_deltas"] = reused
    reqs = []
    for k in range(8 if not thorough else 120):
        base = rng.randbytes(4000)
        chain = [base]
        for _ in range(rng.choice([5, 20, 60])):
            chain.append(edit(rng, chain[-1], 1))
        reqs.append({"fn": "git_pack", "blobs": [hx(b) for b in chain], "depth": rng.choice([1, 10, 50]), "ofs": rng.random() < 0.5})
    depths = []
    for q, r in zip(reqs, impl.run(reqs)):
        case = {"depth": q["depth"], "ofs": q["ofs"], "n": len(q["blobs"])}
        rep.case("git-written-pack", key=repr(case) + q["blobs"][1][:40], nontrivial=True, sample=case)
        if not r.get("random_ok") or not r.get("seq_ok"):
            rep.fail("dulwich-misreads-git-pack", "a pack written by git pack-objects is not read back correctly: %r" % (r,), case)
        depths.append(r.get("maxdepth", 0))
    rep.extra["max_delta_depth_seen"] = max(depths or [0])


def replay(rep, body):
    run(rep)
