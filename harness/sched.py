"""Deterministic scheduling of 1..n actors at the granularity of file-system calls, with fault injection.

Runs inside the implementation child process.  Each actor is a callable run in its own thread; the calls listed in
POINTS (module-level functions of `os`, `builtins.open`, and write/flush/close of files returned by `os.fdopen`) are
interposed from outside: before making such a call an actor parks, and the controller lets exactly one parked actor
proceed at a time, chosen by the schedule.  A schedule entry is (actor, fault) where fault is None or the name of an
exception the chosen call raises instead of executing.  Nothing in /repo is modified: the interposition patches the
`os` / `builtins` modules of the child interpreter for the duration of one run.
"""
import builtins, errno, os, threading

OS_POINTS = ("open", "replace", "rename", "remove", "unlink", "fsync", "chmod", "mkdir", "rmdir", "link", "listdir", "scandir", "stat", "lstat", "utime")
FAULTS = {
    "ENOSPC": lambda: OSError(errno.ENOSPC, "No space left on device"),
    "EIO": lambda: OSError(errno.EIO, "Input/output error"),
    "EPERM": lambda: PermissionError(errno.EPERM, "Operation not permitted"),
    "KI": lambda: KeyboardInterrupt(),
}


class _FileProxy:
    """file object whose write / flush / close are scheduling points"""

    def __init__(self, sched, f):
        object.__setattr__(self, "_s", sched)
        object.__setattr__(self, "_f", f)

    def write(self, data):
        return self._s._point("f.write", (len(data),), lambda: self._f.write(data))

    def flush(self):
        return self._s._point("f.flush", (), self._f.flush)

    def close(self):
        if self._f.closed:
            return None
        return self._s._point("f.close", (), self._f.close, on_fault=self._f.close)

    def __getattr__(self, k):
        return getattr(self._f, k)

    def __enter__(self):
        return self

    def __exit__(self, *a):
        self.close()

    def __iter__(self):
        return iter(self._f)


class Sched:
    def __init__(self, points=("open", "replace", "rename", "remove", "unlink", "fsync"), file_points=True, builtin_open=True, root=None, only=None):
        self.points = points
        self.file_points = file_points
        self.builtin_open = builtin_open
        self.root = os.fspath(root) if root else None     # only calls naming a path under root are scheduling points
        self.only = only                                  # optional predicate on the path: further restriction

    # ---- actor side
    def _me(self):
        return self.ids.get(threading.get_ident())

    def _relevant(self, args):
        if self.root is None:
            return True
        for a in args[:2]:
            if isinstance(a, (str, bytes, os.PathLike)):
                p = os.fspath(a)
                if isinstance(p, bytes):
                    p = os.fsdecode(p)
                p = os.path.abspath(p)
                return p.startswith(self.root) and (self.only is None or self.only(p))
        return True

    def _point(self, name, args, call, on_fault=None):
        me = self._me()
        if me is None or self.in_point.get(me):
            return call()
        self.in_point[me] = True
        try:
            self.pending[me] = (name, args)
            self.back.set()
            self.go[me].wait()
            self.go[me].clear()
            if self.kill:
                raise SystemExit
            fault = self.fault.pop(me, None)
            if fault:
                self.trace.append((me, name, self._sh(args), "raise " + fault))
                if on_fault:
                    try:
                        on_fault()
                    except Exception:  # noqa: BLE001
                        pass
                raise FAULTS[fault]()
            try:
                r = call()
            except BaseException as e:  # noqa: BLE001
                self.trace.append((me, name, self._sh(args), type(e).__name__))
                raise
            self.trace.append((me, name, self._sh(args), "ok"))
            if self.after:
                self.after(len(self.trace), me, name)
            return r
        finally:
            self.in_point[me] = False

    def _sh(self, args):
        out = []
        for a in args[:2]:
            if isinstance(a, (bytes, str, os.PathLike)):
                p = os.fspath(a)
                if isinstance(p, bytes):
                    p = os.fsdecode(p)
                p = os.path.abspath(p)
                out.append(os.path.relpath(p, self.root) if self.root and p.startswith(self.root) else os.path.basename(p))
            elif isinstance(a, int):
                out.append(a)
        return out

    # ---- controller side
    def run(self, actors, schedule=(), default="first", after=None):
        """Run the actors under the schedule prefix, then by the default policy.  Returns a dict with the trace
        [(actor, call, args, outcome)], the choice points [(enabled actors, chosen)], and each actor's result."""
        self.ids, self.go, self.pending, self.fault, self.in_point = {}, {}, {}, {}, {}
        self.trace, self.kill, self.after = [], False, after
        self.back = threading.Event()
        results = [None] * len(actors)
        done = [False] * len(actors)
        saved = {n: getattr(os, n) for n in self.points}
        saved_fdopen, saved_open = os.fdopen, builtins.open

        def mk(n, orig):
            def w(*a, **k):
                if threading.get_ident() not in self.ids or not self._relevant(a):
                    return orig(*a, **k)
                return self._point("os." + n, a, lambda: orig(*a, **k))
            return w

        def fdopen(fd, *a, **k):
            f = saved_fdopen(fd, *a, **k)
            if threading.get_ident() in self.ids and self.file_points:
                return _FileProxy(self, f)
            return f

        def bopen(file, *a, **k):
            if threading.get_ident() not in self.ids or isinstance(file, int) or not self._relevant((file,)):
                return saved_open(file, *a, **k)
            return self._point("open", (file,) + a[:1], lambda: saved_open(file, *a, **k))

        def body(i, fn):
            self.ids[threading.get_ident()] = i
            try:
                results[i] = ("ok", fn())
            except SystemExit:
                results[i] = ("killed", None)
            except BaseException as e:  # noqa: BLE001
                results[i] = ("exc", type(e).__name__ + ":" + str(e)[:80])
            finally:
                done[i] = True
                self.pending.pop(i, None)
                self.back.set()

        for n in self.points:
            setattr(os, n, mk(n, saved[n]))
        os.fdopen = fdopen
        if self.builtin_open:
            builtins.open = bopen
        threads = []
        choices = []
        pend = []
        try:
            for i, fn in enumerate(actors):
                self.go[i] = threading.Event()
                t = threading.Thread(target=body, args=(i, fn), daemon=True)
                threads.append(t)
            for i, t in enumerate(threads):
                # start one at a time: each runs to its first scheduling point (or finishes)
                self.back.clear()
                t.start()
                while not (done[i] or i in self.pending):
                    self.back.wait(10)
                    self.back.clear()
            k = 0
            schedule = list(schedule)
            while True:
                enabled = sorted(self.pending)
                if not enabled:
                    break
                fault = None
                if k < len(schedule):
                    who, fault = schedule[k] if isinstance(schedule[k], (tuple, list)) else (schedule[k], None)
                    if who not in enabled:
                        who = enabled[0]
                        fault = None
                else:
                    who = enabled[0] if default == "first" else enabled[-1]
                choices.append((enabled, who, self.pending[who][0]))
                pend.append({a: self.pending[a][0] for a in enabled})
                k += 1
                if fault:
                    self.fault[who] = fault
                del self.pending[who]
                self.back.clear()
                self.go[who].set()
                while not (done[who] or who in self.pending):
                    if not self.back.wait(20):
                        raise RuntimeError("actor %d stuck after %r" % (who, self.trace[-3:]))
                    self.back.clear()
        finally:
            self.kill = True
            for i in list(self.go):
                self.go[i].set()
            for n in self.points:
                setattr(os, n, saved[n])
            os.fdopen = saved_fdopen
            builtins.open = saved_open
            for t in threads:
                if t.is_alive():
                    t.join(2)
        return {"trace": self.trace, "choices": choices, "results": results, "pending_calls": pend}


def _short(args):
    out = []
    for a in args[:2]:
        if isinstance(a, (bytes, str, os.PathLike)):
            p = os.fspath(a)
            if isinstance(p, bytes):
                p = os.fsdecode(p)
            out.append(os.path.basename(p))
        elif isinstance(a, int):
            out.append(a)
    return out


def explore(make, max_runs=100000, faults=(), max_faults=1, preemption_bound=None, no_fault_calls=("os.remove", "os.unlink")):
    """Stateless depth-first enumeration of the schedules of the scenario produced by make() -> (sched, actors, finish).
    Every complete schedule (with at most max_faults injected faults, and at most preemption_bound pre-emptions when
    given) is run exactly once.  Yields (schedule prefix, run result, finish(run result))."""
    stack = [[]]
    seen = 0
    while stack and seen < max_runs:
        prefix = stack.pop()
        sched, actors, finish = make()
        r = sched.run(actors, prefix)
        seen += 1
        yield prefix, r, finish(r)
        ch = r["choices"]
        path = [tuple(x) for x in prefix] + [(c[1], None) for c in ch[len(prefix):]]
        nf = 0
        pre = 0
        for k in range(len(ch)):
            enabled = ch[k][0]
            if k >= len(prefix):
                for alt in enabled:
                    for fl in (None,) + tuple(faults):
                        if (alt, fl) == path[k]:
                            continue
                        if fl and nf >= max_faults:
                            continue
                        if fl and r["pending_calls"][k].get(alt) in no_fault_calls:
                            # removing the lock file is the release itself: an environment that refuses it cannot be compensated
                            continue
                        if preemption_bound is not None and k > 0 and path[k - 1][0] in enabled and alt != path[k - 1][0] and pre >= preemption_bound:
                            continue
                        stack.append(path[:k] + [(alt, fl)])
            if path[k][1]:
                nf += 1
            if k > 0 and path[k - 1][0] in enabled and path[k][0] != path[k - 1][0]:
                pre += 1
