"""C12 — tree build / flatten / diff / patch: Model/TreeDiff.v vs dulwich.diff_tree, dulwich.object_store,
dulwich.index.commit_tree, with C git (write-tree, diff-tree --raw) as oracle."""
from common import Model, Impl

PROP = "C12"
LEVEL = "proof"

NAMES = [b"a", b"a.b", b"a-", b"a0", b"a b", b"b", b"ab", b"a.", b"a!", b"B", b"c", b"\xff", b"a\x01", b"a+"]
FILE_MODES = [0o100644, 0o100644, 0o100755, 0o120000, 0o160000]
FLAGS = [(0, 0, 0), (0, 0, 1), (1, 0, 0), (0, 1, 0), (1, 1, 0), (0, 1, 1), (1, 1, 1)]


def gen_dir(rng, depth, maxdepth, width):
    out = {}
    for name in rng.sample(NAMES, rng.randrange(1, width + 1)):
        if depth < maxdepth and rng.random() < 0.35:
            for p, v in gen_dir(rng, depth + 1, maxdepth, width).items():
                out[name + b"/" + p] = v
        else:
            out[name] = (rng.choice(FILE_MODES), rng.randrange(16))
    return out


def valid(lst):
    # no path may also be a directory of another one (names around '/' make the two non-adjacent in byte order)
    ds = set(dirs_of(lst))
    return not any(p in ds for p in lst)


def dirs_of(lst):
    d = set()
    for p in lst:
        parts = p.split(b"/")
        for i in range(1, len(parts)):
            d.add(b"/".join(parts[:i]))
    return sorted(d)


def mutate(rng, a, maxdepth):
    b = dict(a)
    for _ in range(rng.choice([1, 1, 2, 3, 6])):
        op = rng.choice(["del", "add", "mode", "id", "type", "file2dir", "dir2file", "deldir", "rename", "adddeep"])
        files = sorted(b)
        dirs = dirs_of(b)
        if op == "del" and files:
            del b[rng.choice(files)]
        elif op == "add":
            base = rng.choice([b""] + [d + b"/" for d in dirs])
            b.setdefault(base + rng.choice(NAMES), (rng.choice(FILE_MODES), rng.randrange(16)))
        elif op == "adddeep":
            base = rng.choice([b""] + [d + b"/" for d in dirs])
            p = base + b"/".join(rng.choice(NAMES) for _ in range(rng.randrange(2, maxdepth + 2)))
            b.setdefault(p, (rng.choice(FILE_MODES), rng.randrange(16)))
        elif op == "mode" and files:
            p = rng.choice(files)
            if b[p][0] in (0o100644, 0o100755):
                b[p] = (0o100644 + 0o100755 - b[p][0], b[p][1])
        elif op == "id" and files:
            p = rng.choice(files)
            b[p] = (b[p][0], (b[p][1] + rng.randrange(1, 16)) % 16)
        elif op == "type" and files:
            p = rng.choice(files)
            b[p] = (rng.choice([m for m in FILE_MODES if m != b[p][0]]), b[p][1])
        elif op == "file2dir" and files:
            p = rng.choice(files)
            v = b.pop(p)
            for q, w in gen_dir(rng, 0, 1, 2).items():
                b[p + b"/" + q] = w
        elif op == "dir2file" and dirs:
            d = rng.choice(dirs)
            for p in [p for p in b if p.startswith(d + b"/")]:
                del b[p]
            b[d] = (rng.choice(FILE_MODES), rng.randrange(16))
        elif op == "deldir" and dirs:
            d = rng.choice(dirs)
            for p in [p for p in b if p.startswith(d + b"/")]:
                del b[p]
        elif op == "rename" and files:
            p = rng.choice(files)
            v = b.pop(p)
            base = rng.choice([b""] + [d + b"/" for d in dirs])
            b.setdefault(base + rng.choice(NAMES), v)
    return b


def spec(lst):
    return [[p.hex(), m, k] for p, (m, k) in sorted(lst.items())]


def hexpath(p):
    return "/".join(c.hex() for c in p.split(b"/"))


def run(rep):
    rng = rep.rng
    thorough = rep.tier == "thorough"
    rep.extra["rule"] = ("pairs of flat listings over names that sort around '/' (a, a.b, a-, a0, 'a b', a!, a+, 0xff, 0x01), files / "
                         "executables / symlinks / gitlinks, directories up to depth 4 (6 in thorough); the second listing is the first "
                         "under 1..6 edits {delete, add, deep add, mode, id, type, file->dir, dir->file, delete dir, rename} or an "
                         "independent listing or the empty listing.  Per pair: commit_tree both, dump the stored trees to the model; "
                         "tree_changes under 7 flag combinations, iter_tree_contents and tree_lookup_path are compared with the model "
                         "verbatim (order included); property predicates on the implementation alone (build/flatten inverse, change "
                         "list applied to listing A gives B with no path twice, path filters restrict, commit_tree_changes in 2 random "
                         "orders rebuilds B's id, rename detection still maps A to B); tree ids vs git write-tree and changes vs git "
                         "diff-tree -r --raw -z on a sample.  distinct non-trivial = distinct listing pairs with a non-empty diff")
    rep.trusted += ["C git 2.39.5 update-index --index-info / write-tree / diff-tree as oracle for tree ids and raw diffs"]
    impl = Impl(PROP, case_timeout=300)
    model = Model(PROP)
    n = 220 if not thorough else 2000
    ngit = 60 if not thorough else 400
    reqs, meta = [], []
    for k in range(n):
        maxdepth = rng.choice([1, 2, 3, 4] + ([6] if thorough else []))
        width = rng.choice([2, 3, 5, 8])
        a = gen_dir(rng, 0, maxdepth, width)
        r = rng.random()
        if r < 0.72:
            b = mutate(rng, a, maxdepth)
        elif r < 0.9:
            b = gen_dir(rng, 0, maxdepth, width)
        elif r < 0.95:
            b = {}
        else:
            a, b = {}, a
        if not valid(a) or not valid(b):
            continue
        paths = sorted(set(a) | set(b))
        probes = set(paths) | set(dirs_of(paths))
        for p in paths[:4]:
            probes.add(p + b"/" + rng.choice(NAMES))
            probes.add(p[:-1] + b"z")
        probes = sorted(hexpath(p) for p in probes if p and b"//" not in p)[:40]
        cand = sorted(set(paths) | set(dirs_of(paths)))
        filters = [[hexpath(p) for p in rng.sample(cand, min(len(cand), rng.randrange(1, 3)))] for _ in range(2)] if cand else []
        reqs.append({"fn": "pair", "a": spec(a), "b": spec(b), "flags": FLAGS, "probes": probes, "filters": filters,
                     "seed": rng.randrange(1 << 30), "orders": 2, "renames": rng.choice([0, 1, 2]) if len(paths) < 30 else 0,
                     "git": k < ngit})
        meta.append((a, b))
    ires = impl.run(reqs)
    lines, plan = [], []
    for q, (a, b), r in zip(reqs, meta, ires):
        case = {"a": [(p.decode("latin1"), "%o" % m, k) for p, (m, k) in sorted(a.items())],
                "b": [(p.decode("latin1"), "%o" % m, k) for p, (m, k) in sorted(b.items())]}
        rep.case("listing-pair", key=repr((q["a"], q["b"])), nontrivial=a != b, sample=case)
        if not isinstance(r, dict) or "store" not in r:
            rep.fail("tree-api-raised", "building / diffing the trees raised: %r" % (r,), dict(case, impl_request=q))
            continue
        full = dict(case, impl_request=q)
        for flag, what in (("build_flatten_a", "flatten(commit_tree(A)) is not A"), ("build_flatten_b", "flatten(commit_tree(B)) is not B"),
                           ("ids_stable", "a stored tree does not re-serialise to its own id"),
                           ("apply_ok", "the change list applied to listing A does not give listing B"),
                           ("filters_ok", "tree_changes(paths=...) is not the full diff restricted to the filter"),
                           ("patch_ok", "commit_tree_changes(A, changes) is not the tree rebuilt from the changed listing")):
            if not r.get(flag):
                rep.fail(flag.replace("_", "-"), what + " " + str(r.get("apply_notes") or r.get("filter_diff") or r.get("patch_diff") or ""), full)
        if r.get("apply_notes"):
            rep.fail("diff-path-twice", "tree_changes: %s" % r["apply_notes"], full)
        if r.get("patch_corrupts_store"):
            rep.fail("patch-corrupts-store", "commit_tree_changes changed the tree stored under the original id", full)
        if "rename_exc" in r:
            rep.fail("rename-raised", "tree_changes with a RenameDetector raised %s" % r["rename_exc"], full)
        elif q["renames"] and not (r.get("rename_apply_ok") and r.get("rename_unique")):
            rep.fail("rename-apply", "changes with rename detection do not turn listing A into B (apply %s, unique targets %s)" % (r.get("rename_apply_ok"), r.get("rename_unique")), full)
        if q["git"]:
            rep.case("git-oracle", key=repr((q["a"], q["b"])), nontrivial=a != b)
            if r.get("git_ida") != bytes.fromhex(r["ida"]).decode() or r.get("git_idb") != bytes.fromhex(r["idb"]).decode():
                rep.fail("tree-id-differs-from-git", "commit_tree id %s / %s, git write-tree %s / %s" % (bytes.fromhex(r["ida"]).decode()[:10], bytes.fromhex(r["idb"]).decode()[:10], str(r.get("git_ida"))[:30], str(r.get("git_idb"))[:30]), full)
            elif not r.get("git_diff_ok"):
                rep.fail("diff-differs-from-git", "tree_changes differs from git diff-tree -r --raw: %s" % r.get("git_diff_delta"), full)
        st = r["store"]
        for wu, it, cts in FLAGS:
            key = "%d%d%d" % (wu, it, cts)
            lines.append("changes %d %d %d %s %s %s" % (wu, it, cts, r["ida"], r["idb"], st))
            plan.append(("tree_changes[%s]" % key, full, r["changes"][key]))
        lines.append("flatten %s %s" % (r["ida"], st))
        plan.append(("iter_tree_contents", full, r["flat_a"]))
        for side in ("a", "b"):
            lines.append("build %s" % r["items_" + side])
            plan.append(("commit_tree vs TreeBuild.commit_tree", dict(full, side=side), r["struct_" + side]))
        for p in q["probes"]:
            lines.append("look %s %s %s" % (r["ida"], p, st))
            v = r["look"][p]
            plan.append(("tree_lookup_path", dict(full, probe=p), "none" if v == "dir" else v))
        if q["probes"]:
            lines.append("patched %s %s %s %s" % (r["ida"], r["idb"], st, ",".join(q["probes"])))
            plan.append(("model self-check patched = look B", full, "ok"))
    mres = model.run(lines)
    kinds = {}
    for (fn, case, want), m in zip(plan, mres):
        kinds[fn.split("[")[0]] = kinds.get(fn.split("[")[0], 0) + 1
        if fn.startswith("commit_tree vs"):
            m = m.split(" | ")[0]          # the structure; the model's own flattening follows it
        if m != want:
            rep.disagree(fn, case, m, want)
            if fn.startswith("model self-check"):
                continue
    rep.extra["model_comparisons"] = kinds


def replay(rep, body):
    run(rep)
