"""C13 — merge-base / ancestry: Model/Lca.v vs dulwich.graph and git merge-base."""
import itertools
from common import Model, Impl

PROP = "C13"
LEVEL = "proof"


def all_dags(n, maxpar=3):
    opts = [[list(c) for k in range(0, min(i, maxpar) + 1) for c in itertools.combinations(range(i), k)] for i in range(n)]
    for ps in itertools.product(*opts):
        yield [list(p) for p in ps]


def dag_str(d):
    return ",".join(".".join(map(str, ps)) or "-" for ps in d)


def closure(d, v):
    seen, todo = {v}, [v]
    while todo:
        c = todo.pop()
        for p in d[c]:
            if p not in seen:
                seen.add(p); todo.append(p)
    return seen


def max_common(d, a, bs):
    ca = closure(d, a) & set().union(*[closure(d, b) for b in bs])
    anc = {x: closure(d, x) for x in ca}
    return sorted(x for x in ca if not any(y != x and x in closure(d, y) for y in ca))


def random_dag(rng, n):
    d = []
    for i in range(n):
        k = 0 if i == 0 else rng.choice([1, 1, 1, 2, 2, 3, 0 if rng.random() < 0.05 else 1])
        k = min(k, i)
        recent = list(range(max(0, i - 8), i))
        ps = set(rng.sample(recent, min(k, len(recent))))
        if k and rng.random() < 0.2:
            ps.add(rng.randrange(i))
        d.append(sorted(ps))
    return d


def run(rep):
    rng = rep.rng
    thorough = rep.tier == "thorough"
    rep.extra["rule"] = ("every DAG with up to 4 commits (quick; 120 of the 1024 5-commit DAGs sampled, 400 in thorough) x timestamp "
                         "vectors over {0,1,2} (ties, backwards clocks) x all ordered query pairs: _find_lcas vs the model vs the "
                         "graph-theoretic answer computed independently; random DAGs up to 300 commits with skewed and negative "
                         "timestamps, multi-commit queries; find_merge_base / can_fast_forward / independent on a MemoryRepo; "
                         "git merge-base --all / --is-ancestor on a sample.  distinct non-trivial = distinct (DAG, stamps, query) "
                         "whose commits are not all identical")
    rep.trusted += ["C git 2.39.5 merge-base as second oracle; an independent closure-based reference in the harness"]
    impl = Impl(PROP, case_timeout=300)
    model = Model(PROP)
    reqs, meta = [], []
    dags = []
    for n in range(1, 5):
        dags += list(all_dags(n))
    five = list(all_dags(5))
    dags += rng.sample(five, 120 if not thorough else 400)
    for d in dags:
        n = len(d)
        stamps = list(itertools.product(range(3), repeat=n)) if n <= 4 else list(itertools.product(range(2), repeat=n))
        if n == 5:
            stamps = rng.sample(stamps, 8 if not thorough else 12)
        queries = [(a, [b]) for a in range(n) for b in range(n) if a != b]
        if n >= 3:
            queries += [(a, [b, c]) for a in range(n) for b in range(n) for c in range(b + 1, n) if a not in (b, c)][:10]
        reqs.append({"fn": "lcas_batch", "dag": dag_str(d), "stamps": [list(s) for s in stamps], "queries": queries})
        meta.append((d, stamps, queries))
    ires = impl.run(reqs)
    lines = []
    for (d, stamps, queries) in meta:
        for s in stamps:
            for (a, bs) in queries:
                lines.append("lcas %s %s %d %s" % (dag_str(d), ",".join(map(str, s)), a, ".".join(map(str, bs))))
    mres = model.run(lines)
    k = 0
    for (d, stamps, queries), r in zip(meta, ires):
        v = r.get("v") if isinstance(r, dict) else None
        j = 0
        for s in stamps:
            for (a, bs) in queries:
                want = ".".join(map(str, max_common(d, a, bs))) or "-"
                got = v[j] if v else "worker:" + str(r)[:80]
                m = mres[k]
                case = {"dag": dag_str(d), "stamps": list(s), "c1": a, "c2s": bs}
                rep.case("lcas-exhaustive", key=(dag_str(d), s, a, tuple(bs)), nontrivial=len(d) > 1, outcome=None,
                         sample=case)
                if m != got:
                    rep.disagree("_find_lcas vs Lca.find_lcas", case, m, got)
                if got != want:
                    rep.fail("lca-not-exact", "_find_lcas differs from the maximal common ancestors (%s, want %s)" % (got, want), case)
                j += 1; k += 1
    rep.extra["exhaustive_up_to"] = 4
    # chains with one or two merge commits on top (octopus merges included): the shapes on which the order of
    # discovery of nested candidates matters; many timestamp orders each, every query pair
    fam = []
    for k in range(3, 6 if not thorough else 7):
        chain = [[]] + [[i - 1] for i in range(1, k)]
        for size in range(2, min(k, 4) + 1):
            for ps in itertools.combinations(range(k), size):
                fam.append(chain + [list(ps)])
                if k <= 4:
                    for ps2 in itertools.combinations(range(k + 1), 2):
                        fam.append(chain + [list(ps), list(ps2)])
    reqs, meta = [], []
    for d in fam:
        n = len(d)
        stamps = [tuple(rng.randrange(n) for _ in range(n)) for _ in range(120 if not thorough else 400)]
        queries = [(a, [b]) for a in range(n) for b in range(n) if a != b]
        reqs.append({"fn": "lcas_batch", "dag": dag_str(d), "stamps": [list(x) for x in stamps], "queries": queries})
        meta.append((d, stamps, queries))
    lines = []
    for (d, stamps, queries) in meta:
        for s in stamps[:6]:
            for (a, bs) in queries:
                lines.append("lcas %s %s %d %s" % (dag_str(d), ",".join(map(str, s)), a, ".".join(map(str, bs))))
    mres = iter(model.run(lines))
    nfam = 0
    for (d, stamps, queries), r in zip(meta, impl.run(reqs)):
        v = r.get("v") if isinstance(r, dict) else None
        wants = {(a, tuple(bs)): ".".join(map(str, max_common(d, a, bs))) or "-" for (a, bs) in queries}
        j = 0
        for si, s in enumerate(stamps):
            for (a, bs) in queries:
                got = v[j] if v else "worker:" + str(r)[:80]
                want = wants[(a, tuple(bs))]
                case = {"dag": dag_str(d), "stamps": list(s), "c1": a, "c2s": bs}
                if si < 6:
                    m = next(mres)
                    if m != got:
                        rep.disagree("_find_lcas vs Lca.find_lcas", case, m, got)
                if got != want:
                    rep.fail("lca-not-exact", "_find_lcas differs from the maximal common ancestors (%s, want %s)" % (got, want), case)
                j += 1; nfam += 1
        rep.case("lcas-chain-octopus", key=dag_str(d), nontrivial=True, sample={"dag": dag_str(d), "stamp_vectors": len(stamps), "queries": len(queries)})
    rep.extra["chain_octopus_evaluations"] = nfam
    # random larger DAGs through the repository API
    reqs, meta, lines = [], [], []
    for k in range(40 if not thorough else 160):
        # (the extracted model needs about a second per query on a 120-commit DAG: a dozen of those, the rest smaller)
        n = rng.choice([6, 10, 25, 60] + ([120] if k < 12 else []))
        d = random_dag(rng, n)
        mode = rng.choice(["mono", "skew", "neg", "equal"])
        stamps = [i * 10 for i in range(n)] if mode == "mono" else [rng.randrange(0, 50) for _ in range(n)] if mode == "skew" \
            else [rng.randrange(-1000, 1000) for _ in range(n)] if mode == "neg" else [7] * n
        queries = []
        for _ in range(12):
            a = rng.randrange(n)
            bs = rng.sample(range(n), rng.choice([1, 1, 1, 2, 3]))
            if a not in bs:
                queries.append((a, bs))
        sets = [rng.sample(range(n), rng.randrange(2, 5)) for _ in range(3)]
        reqs.append({"fn": "repo_api", "dag": dag_str(d), "stamps": stamps, "queries": queries, "sets": sets})
        meta.append((d, stamps, queries, sets))
        for (a, bs) in queries:
            lines.append("lcas %s %s %d %s" % (dag_str(d), ",".join(str(max(s, 0)) for s in stamps), a, ".".join(map(str, bs))))
    ires = impl.run(reqs)
    mres = iter(model.run(lines))
    for (d, stamps, queries, sets), r in zip(meta, ires):
        if "exc" in r or "mb" not in r:
            rep.fail("repo-api", "graph API raised: %r" % (r,), {"dag": dag_str(d), "stamps": stamps})
            for _ in queries:
                next(mres)
            continue
        for q, (a, bs) in enumerate(queries):
            want = ".".join(map(str, max_common(d, a, bs))) or "-"
            m = next(mres)
            case = {"dag": dag_str(d), "stamps": stamps, "c1": a, "c2s": bs}
            rep.case("merge-base-random", key=(dag_str(d), tuple(stamps), a, tuple(bs)), nontrivial=True)
            if m != want:
                rep.disagree("Lca.find_lcas vs reference closure", case, m, want)
            if r["mb"][q] != want:
                rep.fail("lca-not-exact", "find_merge_base = %s, maximal common ancestors = %s" % (r["mb"][q], want), case)
            ff_want = "1" if a in closure(d, bs[0]) else "0"
            if r["ff"][q] != ff_want:
                rep.fail("ff-not-exact", "can_fast_forward(%d, %d) = %s but is_ancestor = %s" % (a, bs[0], r["ff"][q], ff_want), case)
        for s, got in zip(sets, r.get("ind", [])):
            want = sorted(x for x in set(s) if not any(y != x and x in closure(d, y) for y in set(s)))
            # independent() keeps list order and duplicates out of scope: compare as sets
            if got != (".".join(map(str, want)) or "-"):
                rep.fail("independent-not-exact", "independent(%s) = %s, want %s" % (s, got, want), {"dag": dag_str(d), "set": s})
            rep.case("independent", key=(dag_str(d), tuple(s)), nontrivial=True)
    # ---- history walks
    reqs, meta = [], []
    nw = 60 if not thorough else 400
    for k in range(nw):
        n = rng.choice([3, 6, 9, 14, 30] + ([80] if thorough else []))
        d = random_dag(rng, n)
        mode = rng.choice(["mono", "mono", "ties", "equal", "skew"])
        if mode == "skew":
            stamps = [rng.randrange(0, 50) for _ in range(n)]
        else:
            stamps, t = [], 100
            for i in range(n):
                # parents have smaller indexes: non-decreasing along the index is monotone along every edge
                t += 0 if mode == "equal" else rng.choice([0, 0, 1, 5]) if mode == "ties" else rng.randrange(1, 9)
                stamps.append(t)
        ws = []
        for _ in range(8):
            inc = rng.sample(range(n), rng.choice([1, 1, 2, 3]))
            exc = rng.sample(range(n), rng.choice([0, 0, 1, 1, 2]))
            w = {"inc": inc, "exc": exc, "order": rng.choice(["date", "topo"]), "rev": rng.random() < 0.3, "max": None, "since": None, "until": None}
            r = rng.random()
            if r < 0.15:
                w["max"] = rng.randrange(0, n + 2)
            elif r < 0.3 and mode != "skew":
                w["since"] = rng.choice(stamps)
            elif r < 0.45:
                w["until"] = rng.choice(stamps)
            ws.append(w)
        # the shape of the recorded regression: an excluded run sharing one timestamp above an included root
        if k % 10 == 0:
            m = rng.randrange(6, 12)
            d = [[]] + [[i - 1] for i in range(1, m)] + [[0]]
            stamps = [100] * (m + 1)
            ws = [{"inc": [m, 0], "exc": [m - 1], "order": o, "rev": rv, "max": None, "since": None, "until": None} for o in ("date", "topo") for rv in (False, True)] + \
                 [{"inc": [0], "exc": [m - 1], "order": "date", "rev": False, "max": None, "since": None, "until": None}]
            mode = "equal"
        reqs.append({"fn": "walks", "dag": dag_str(d), "stamps": stamps, "walks": ws, "git": k < (25 if not thorough else 300)})
        meta.append((d, stamps, ws, mode))
    for q, (d, stamps, ws, mode), r in zip(reqs, meta, impl.run(reqs)):
        v = r.get("v") if isinstance(r, dict) else None
        if v is None:
            rep.fail("walk-worker", "walker worker failed: %r" % (r,), {"dag": dag_str(d)})
            continue
        for wi, (w, got) in enumerate(zip(ws, v)):
            case = {"dag": dag_str(d), "stamps": stamps, "walk": w}
            rep.case("walk-" + mode, key=(dag_str(d), tuple(stamps), repr(w)), nontrivial=len(d) > 2, sample=case)
            if isinstance(got, str):
                rep.fail("walk-raised", "Walker raised %s" % got, case)
                continue
            reach = set().union(*[closure(d, i) for i in w["inc"]])
            excl = set().union(*[closure(d, i) for i in w["exc"]]) if w["exc"] else set()
            if len(set(got)) != len(got):
                rep.fail("walk-duplicate", "a commit is yielded twice: %s" % got, case)
            if not set(got) <= reach:
                rep.fail("walk-unreachable", "a commit not reachable from the starting points is yielded: %s" % sorted(set(got) - reach), case)
            plain = w["max"] is None and w["since"] is None and w["until"] is None
            exact = mode != "skew" or not w["exc"]
            if plain and exact and set(got) != reach - excl:
                rep.fail("walk-set", "walk yields %s, reachable minus excluded is %s (timestamps %s)" % (sorted(got), sorted(reach - excl), "monotone" if mode != "skew" else "skewed, no excludes"), case)
            if mode != "skew" and w["max"] is None and (w["since"] is not None or w["until"] is not None):
                want = {c for c in reach - excl if (w["since"] is None or stamps[c] >= w["since"]) and (w["until"] is None or stamps[c] <= w["until"])}
                if set(got) != want:
                    rep.fail("walk-since-until", "walk with since/until yields %s, want %s" % (sorted(got), sorted(want)), case)
            if w["order"] == "topo":
                pos = {c: i for i, c in enumerate(got if not w["rev"] else got[::-1])}
                bad = [(c, p) for c in pos for p in d[c] if p in pos and pos[p] < pos[c]]
                if bad:
                    rep.fail("walk-topo", "topological order yields parent %d before child %d" % (bad[0][1], bad[0][0]), case)
            if w["max"] is not None and len(got) > w["max"]:
                rep.fail("walk-max", "max_entries=%d but %d commits yielded" % (w["max"], len(got)), case)
            if "git" in r and plain and mode != "skew":
                g = r["git"][wi]
                rep.case("walk-git", key=(dag_str(d), tuple(stamps), repr(w)), nontrivial=True)
                if set(g) != set(got):
                    rep.fail("walk-differs-from-git", "git rev-list yields %s, the walker %s" % (sorted(g), sorted(got)), case)
    # ---- the walk queue and _topo_reorder against the model (Model/Walk.v)
    reqs, meta = [], []
    small = []
    for n in range(1, 5):
        small += list(all_dags(n))
    pool = small + [random_dag(rng, rng.choice([6, 9, 14])) for _ in range(40 if not thorough else 300)]
    for d in (rng.sample(pool, min(len(pool), 120)) if not thorough else pool):
        n = len(d)
        stamps = rng.sample(range(100, 100 + 3 * n + 5), n)          # pairwise distinct: the pop order is then fully determined
        incs = [[rng.randrange(n)] for _ in range(2)] + [rng.sample(range(n), min(n, 2))]
        orders = []
        for _ in range(3):
            sub = sorted(set().union(*[closure(d, i) for i in rng.sample(range(n), min(n, rng.choice([1, 2])))]))
            rng.shuffle(sub)
            orders.append(sub)
        orders.append(sorted(range(n), reverse=True))
        reqs.append({"fn": "walk_model", "dag": dag_str(d), "stamps": stamps, "includes": incs, "orders": orders})
        meta.append((d, stamps, incs, orders))
    lines = []
    for (d, stamps, incs, orders) in meta:
        for inc in incs:
            lines.append("walk %s %s %s" % (dag_str(d), ",".join(map(str, stamps)), ".".join(map(str, inc))))
        for o in orders:
            lines.append("topo %s %s" % (dag_str(d), ".".join(map(str, o)) or "-"))
    mres = iter(model.run(lines))
    for (d, stamps, incs, orders), r in zip(meta, impl.run(reqs)):
        if "walk" not in r:
            rep.fail("walk-model-worker", "walk comparison failed: %r" % (r,), {"dag": dag_str(d)})
            for _ in incs + orders:
                next(mres)
            continue
        for inc, got in zip(incs, r["walk"]):
            m = next(mres)
            case = {"dag": dag_str(d), "stamps": stamps, "include": inc}
            rep.case("walk-vs-model", key=(dag_str(d), tuple(stamps), tuple(inc)), nontrivial=len(d) > 2, sample=case)
            if m != got:
                rep.disagree("Walker (date order, no excludes) vs Walk.walk", case, m, got)
        for o, got in zip(orders, r["topo"]):
            m = next(mres)
            case = {"dag": dag_str(d), "entries": o}
            rep.case("topo-vs-model", key=(dag_str(d), tuple(o)), nontrivial=len(o) > 2, sample=case)
            if m != got:
                rep.disagree("_topo_reorder vs Walk.topo", case, m, got)
            seq = [int(x) for x in got.split(".")] if got not in ("-", "") and not got.startswith("exc") else []
            pos = {c: i for i, c in enumerate(seq)}
            if sorted(seq) != sorted(o) or any(pos[p] < pos[c] for c in pos for p in d[c] if p in pos):
                rep.fail("topo-order-wrong", "_topo_reorder(%s) = %s: not a permutation with children before parents" % (o, got), case)
    # git as oracle on a sample
    reqs, meta = [], []
    for _ in range(6 if not thorough else 80):
        n = rng.choice([5, 8, 15, 40])
        d = random_dag(rng, n)
        stamps = [rng.randrange(0, 30) for _ in range(n)]
        queries = [(rng.randrange(n), [rng.randrange(n)]) for _ in range(6)]
        queries = [(a, bs) for a, bs in queries if a != bs[0]]
        reqs.append({"fn": "git_merge_base", "dag": dag_str(d), "stamps": stamps, "queries": queries})
        meta.append((d, queries))
    for (d, queries), r in zip(meta, impl.run(reqs)):
        if "mb" not in r:
            rep.note("git fast-import failed: %s" % str(r)[:100])
            continue
        for q, (a, bs) in enumerate(queries):
            want = ".".join(map(str, max_common(d, a, bs))) or "-"
            rep.case("git-merge-base", key=(dag_str(d), a, tuple(bs)), nontrivial=True)
            if r["mb"][q] != want:
                rep.disagree("git merge-base --all vs reference closure", {"dag": dag_str(d), "c1": a, "c2s": bs}, want, r["mb"][q])


def replay(rep, body):
    run(rep)
