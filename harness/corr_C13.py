"""C13 — merge-base / ancestry: Model/Lca.v vs dulwich.graph and git merge-base."""
import itertools
from common import Model, Impl

PROP = "C13"
LEVEL = "proof"


def all_dags(n, maxpar=3):
    opts = [[list(c) for k in range(0, min(i, maxpar) + 1) for c in itertools.combinations(range(i), k)] for i in range(n)]
    for ps in itertools.product(*opts):
        yield [list(p) for p in ps]


def dag_str(d):
    return ",".join(".".join(map(str, ps)) or "-" for ps in d)


def closure(d, v):
    seen, todo = {v}, [v]
    while todo:
        c = todo.pop()
        for p in d[c]:
            if p not in seen:
                seen.add(p); todo.append(p)
    return seen


def max_common(d, a, bs):
    ca = closure(d, a) & set().union(*[closure(d, b) for b in bs])
    anc = {x: closure(d, x) for x in ca}
    return sorted(x for x in ca if not any(y != x and x in closure(d, y) for y in ca))


def random_dag(rng, n):
    d = []
    for i in range(n):
        k = 0 if i == 0 else rng.choice([1, 1, 1, 2, 2, 3, 0 if rng.random() < 0.05 else 1])
        k = min(k, i)
        recent = list(range(max(0, i - 8), i))
        ps = set(rng.sample(recent, min(k, len(recent))))
        if k and rng.random() < 0.2:
            ps.add(rng.randrange(i))
        d.append(sorted(ps))
    return d


def run(rep):
    rng = rep.rng
    thorough = rep.tier == "thorough"
    rep.extra["rule"] = ("every DAG with up to 4 commits (quick; 5-commit DAGs sampled, all of them in thorough) x timestamp "
                         "vectors over {0,1,2} (ties, backwards clocks) x all ordered query pairs: _find_lcas vs the model vs the "
                         "graph-theoretic answer computed independently; random DAGs up to 300 commits with skewed and negative "
                         "timestamps, multi-commit queries; find_merge_base / can_fast_forward / independent on a MemoryRepo; "
                         "git merge-base --all / --is-ancestor on a sample.  distinct non-trivial = distinct (DAG, stamps, query) "
                         "whose commits are not all identical")
    rep.trusted += ["C git 2.39.5 merge-base as second oracle; an independent closure-based reference in the harness"]
    impl = Impl(PROP, case_timeout=300)
    model = Model(PROP)
    reqs, meta = [], []
    dags = []
    for n in range(1, 5):
        dags += list(all_dags(n))
    five = list(all_dags(5))
    dags += five if thorough else rng.sample(five, 120)
    for d in dags:
        n = len(d)
        stamps = list(itertools.product(range(3), repeat=n)) if n <= 4 else list(itertools.product(range(2), repeat=n))
        if not thorough and n == 5:
            stamps = rng.sample(stamps, 8)
        queries = [(a, [b]) for a in range(n) for b in range(n) if a != b]
        if n >= 3:
            queries += [(a, [b, c]) for a in range(n) for b in range(n) for c in range(b + 1, n) if a not in (b, c)][:10]
        reqs.append({"fn": "lcas_batch", "dag": dag_str(d), "stamps": [list(s) for s in stamps], "queries": queries})
        meta.append((d, stamps, queries))
    ires = impl.run(reqs)
    lines = []
    for (d, stamps, queries) in meta:
        for s in stamps:
            for (a, bs) in queries:
                lines.append("lcas %s %s %d %s" % (dag_str(d), ",".join(map(str, s)), a, ".".join(map(str, bs))))
    mres = model.run(lines)
    k = 0
    for (d, stamps, queries), r in zip(meta, ires):
        v = r.get("v") if isinstance(r, dict) else None
        j = 0
        for s in stamps:
            for (a, bs) in queries:
                want = ".".join(map(str, max_common(d, a, bs))) or "-"
                got = v[j] if v else "worker:" + str(r)[:80]
                m = mres[k]
                case = {"dag": dag_str(d), "stamps": list(s), "c1": a, "c2s": bs}
                rep.case("lcas-exhaustive", key=(dag_str(d), s, a, tuple(bs)), nontrivial=len(d) > 1, outcome=None,
                         sample=case)
                if m != got:
                    rep.disagree("_find_lcas vs Lca.find_lcas", case, m, got)
                if got != want:
                    rep.fail("lca-not-exact", "_find_lcas differs from the maximal common ancestors (%s, want %s)" % (got, want), case)
                j += 1; k += 1
    rep.extra["exhaustive_up_to"] = 5 if thorough else 4
    # random larger DAGs through the repository API
    reqs, meta, lines = [], [], []
    for _ in range(40 if not thorough else 600):
        n = rng.choice([6, 10, 25, 60] + ([150, 300] if thorough else [120]))
        d = random_dag(rng, n)
        mode = rng.choice(["mono", "skew", "neg", "equal"])
        stamps = [i * 10 for i in range(n)] if mode == "mono" else [rng.randrange(0, 50) for _ in range(n)] if mode == "skew" \
            else [rng.randrange(-1000, 1000) for _ in range(n)] if mode == "neg" else [7] * n
        queries = []
        for _ in range(12):
            a = rng.randrange(n)
            bs = rng.sample(range(n), rng.choice([1, 1, 1, 2, 3]))
            if a not in bs:
                queries.append((a, bs))
        sets = [rng.sample(range(n), rng.randrange(2, 5)) for _ in range(3)]
        reqs.append({"fn": "repo_api", "dag": dag_str(d), "stamps": stamps, "queries": queries, "sets": sets})
        meta.append((d, stamps, queries, sets))
        for (a, bs) in queries:
            lines.append("lcas %s %s %d %s" % (dag_str(d), ",".join(str(max(s, 0)) for s in stamps), a, ".".join(map(str, bs))))
    ires = impl.run(reqs)
    mres = iter(model.run(lines))
    for (d, stamps, queries, sets), r in zip(meta, ires):
        if "exc" in r or "mb" not in r:
            rep.fail("repo-api", "graph API raised: %r" % (r,), {"dag": dag_str(d), "stamps": stamps})
            for _ in queries:
                next(mres)
            continue
        for q, (a, bs) in enumerate(queries):
            want = ".".join(map(str, max_common(d, a, bs))) or "-"
            m = next(mres)
            case = {"dag": dag_str(d), "stamps": stamps, "c1": a, "c2s": bs}
            rep.case("merge-base-random", key=(dag_str(d), tuple(stamps), a, tuple(bs)), nontrivial=True)
            if m != want:
                rep.disagree("Lca.find_lcas vs reference closure", case, m, want)
            if r["mb"][q] != want:
                rep.fail("lca-not-exact", "find_merge_base = %s, maximal common ancestors = %s" % (r["mb"][q], want), case)
            ff_want = "1" if a in closure(d, bs[0]) else "0"
            if r["ff"][q] != ff_want:
                rep.fail("ff-not-exact", "can_fast_forward(%d, %d) = %s but is_ancestor = %s" % (a, bs[0], r["ff"][q], ff_want), case)
        for s, got in zip(sets, r.get("ind", [])):
            want = sorted(x for x in set(s) if not any(y != x and x in closure(d, y) for y in set(s)))
            # independent() keeps list order and duplicates out of scope: compare as sets
            if got != (".".join(map(str, want)) or "-"):
                rep.fail("independent-not-exact", "independent(%s) = %s, want %s" % (s, got, want), {"dag": dag_str(d), "set": s})
            rep.case("independent", key=(dag_str(d), tuple(s)), nontrivial=True)
    # git as oracle on a sample
    reqs, meta = [], []
    for _ in range(6 if not thorough else 80):
        n = rng.choice([5, 8, 15, 40])
        d = random_dag(rng, n)
        stamps = [rng.randrange(0, 30) for _ in range(n)]
        queries = [(rng.randrange(n), [rng.randrange(n)]) for _ in range(6)]
        queries = [(a, bs) for a, bs in queries if a != bs[0]]
        reqs.append({"fn": "git_merge_base", "dag": dag_str(d), "stamps": stamps, "queries": queries})
        meta.append((d, queries))
    for (d, queries), r in zip(meta, impl.run(reqs)):
        if "mb" not in r:
            rep.note("git fast-import failed: %s" % str(r)[:100])
            continue
        for q, (a, bs) in enumerate(queries):
            want = ".".join(map(str, max_common(d, a, bs))) or "-"
            rep.case("git-merge-base", key=(dag_str(d), a, tuple(bs)), nontrivial=True)
            if r["mb"][q] != want:
                rep.disagree("git merge-base --all vs reference closure", {"dag": dag_str(d), "c1": a, "c2s": bs}, want, r["mb"][q])


def replay(rep, body):
    run(rep)
