"""C16 — ref-name validity (Model/RefName.v vs dulwich and git check-ref-format)
and ref backends."""
import itertools, subprocess, os
from concurrent.futures import ThreadPoolExecutor
from common import Model, Impl, hx, unhx
import gitoracle as G

PROP = "C16"
LEVEL = "proof"
# one symbol per character class of the rules
ALPHA = [b"a", b"/", b".", b"@", b"{", b"l", b"o", b"c", b"k", b"\\", b" ", b"~", b"^", b":", b"?", b"*", b"[",
         b"\x7f", b"\x1f", b"\xff", b"-"]


def git_check_many(names, nproc=16):
    """git check-ref-format for many names (bytes, NUL-free, not starting with '-'):
    one bash loop per partition reading NUL-delimited names."""
    import tempfile, shutil
    d = tempfile.mkdtemp(prefix="verif-refname-", dir=G.scratch_root())
    try:
        parts = [names[i::nproc] for i in range(nproc)]
        procs = []
        script = 'while IFS= read -r -d "" n; do if git check-ref-format "$n" >/dev/null 2>&1; then printf 1; else printf 0; fi; done'
        for i, part in enumerate(parts):
            f = os.path.join(d, "in%d" % i)
            open(f, "wb").write(b"".join(n + b"\0" for n in part))
            env = dict(G.GIT_ENV); env["LC_ALL"] = "C"
            procs.append(subprocess.Popen(["bash", "-c", script], stdin=open(f, "rb"), stdout=subprocess.PIPE, env=env, cwd=d))
        out = {}
        for part, p in zip(parts, procs):
            o = p.communicate()[0].decode()
            assert len(o) == len(part), (len(o), len(part))
            out.update(zip(part, o))
        return out
    finally:
        shutil.rmtree(d, ignore_errors=True)


def gen_names(rep):
    rng = rep.rng
    names = []
    full = 3
    for n in range(0, full + 1):
        for t in itertools.product(ALPHA, repeat=n):
            names.append(b"".join(t))
    l4 = [b"".join(t) for t in itertools.product(ALPHA, repeat=4)]
    names += l4 if rep.tier == "thorough" else rng.sample(l4, 25000)
    fixed = [b"@", b"a/@", b"@/a", b"a/b.lock", b"a/.lock", b"a.lock/b", b"a/b.lockx", b"a/b.loc", b"a/..lock", b"a/b.lock.lock",
             b"a/b.l.lock", b"refs/heads/master", b"a/b@{", b"a@/{b", b"a./.b", b"a/b/", b"/a/b", b"a//b", b"a/b.", b"a/.b",
             b"HEAD", b"heads/.lock", b"heads/x.lock/y", b"a/b\tc", b"a/b\nc"]
    names += fixed
    comp = [b"a", b"b.c", b".a", b"a.", b"x.lock", b".lock", b"@", b"@{", b"a@{b", b"a..b", b"", b"*", b"l", b"lock", b".lo", b"a b", b"\xc3\xa9"]
    for _ in range(3000 if rep.tier == "quick" else 60000):
        names.append(b"/".join(rng.choice(comp) for _ in range(rng.randrange(1, 5))))
    return names


def run(rep):
    rep.extra["rule"] = ("ref names: all strings up to length 3 over a 21-symbol alphabet with one representative per character "
                         "class of the rules, a sample (quick) or all (thorough) of length 4, hand-picked edge names and random "
                         "joins of tricky components; each name also behind the prefix x/.  Model(dulwich) vs check_ref_format, "
                         "model(git) vs `git check-ref-format`, and dulwich vs git directly.  distinct non-trivial = distinct names")
    rep.trusted += ["C git 2.39.5 `git check-ref-format` (names beginning with '-' or containing NUL cannot be passed on a command line and are tested behind the prefix x/ or not at all)"]
    names = gen_names(rep)
    names = names + [b"x/" + n for n in names[:: 3 if rep.tier == "quick" else 1]]
    names = list(dict.fromkeys(names))
    model = Model(PROP)
    B = 200
    lines, chunks = [], []
    for i in range(0, len(names), B):
        part = names[i:i + B]
        chunks.append(part)
        lines.append("names " + ",".join(hx(n) for n in part))
    mres = model.run(lines)
    impl = Impl(PROP)
    ires = impl.run([{"fn": "names", "l": [hx(n) for n in part]} for part in chunks])
    # git binary on every NUL-free name not starting with '-'
    gitable = [n for n in names if n and b"\0" not in n and not n.startswith(b"-")]
    # a git process costs 10-20 ms here: the binary sees all names up to length 2, the
    # hand-picked ones and a seeded sample (quick), or everything (thorough)
    if rep.tier == "quick":
        short = [n for n in gitable if len(n) <= 2 or (n.startswith(b"x/") and len(n) <= 4)]
        rest = [n for n in gitable if n not in set(short)]
        gitable = short + rep.rng.sample(rest, min(len(rest), 1800))
    elif len(gitable) > 60000:
        # a process per name: thorough gives the binary a sample of 60 000 (the model sees every name in both tiers)
        gitable = rep.rng.sample(gitable, 60000)
    gres = git_check_many(gitable)
    for part, m, r in zip(chunks, mres, ires):
        v = r.get("v", "") if isinstance(r, dict) else ""
        for k, n in enumerate(part):
            md, mg = m[2 * k], m[2 * k + 1]
            iv = v[k] if k < len(v) else "?"
            rep.case("refname", key=n, nontrivial=len(n) > 0, outcome="valid" if iv == "1" else "invalid",
                     sample={"name": n.decode("latin1"), "dulwich": iv, "git": gres.get(n)})
            if md != iv:
                rep.disagree("check_ref_format vs RefName.check_ref_format", {"name": hx(n)}, md, iv)
            g = gres.get(n)
            if g is not None and mg != g:
                rep.disagree("git check-ref-format vs RefName.git_check_refname_format", {"name": hx(n)}, mg, g)
            if g is not None and iv != g:
                rep.fail("refname-differs-from-git", "check_ref_format(%r) = %s but git check-ref-format says %s" % (n, iv, g), {"name": hx(n)})
    # _check_refname wrapper
    rn = [b"HEAD", b"refs/stash", b"refs/", b"refs/heads", b"refs/heads/a", b"refs/heads//a", b"refs//heads/a", b"refs/heads/a//",
          b"refs/heads//.a", b"heads/a", b"refs/heads/a.lock", b"refs/tags//v1.0", b"REFS/heads/a", b"refs/heads/a/", b"refs/heads/@"]
    rn += [b"refs/" + n for n in names[:4000]]
    lines = ["refname " + hx(n) for n in rn]
    mres = model.run(lines)
    ires = impl.run([{"fn": "refnames", "l": [hx(n) for n in rn]}])
    v = ires[0].get("v", "")
    for k, n in enumerate(rn):
        rep.case("check_refname", key=("rn", n), nontrivial=True)
        if mres[k] != (v[k] if k < len(v) else "?"):
            rep.disagree("_check_refname vs RefName.check_refname", {"name": hx(n)}, mres[k], v[k:k + 1])
    import corr_C16_backends
    corr_C16_backends.run(rep)
    import corr_C16_packed
    corr_C16_packed.run(rep)


def replay(rep, body):
    run(rep)
