"""The corpus of minimised failures: corpus/<property>/<name>.py are self-contained scripts (most of them written by the
defect-hunting sub-agents, which saw only the property text and a scratch checkout) that set up what they need in a
temporary directory, perform the operations against /repo's working tree and exit 1 when the violation is present, 0
when it is not.  Every script runs on every check of its property.  A script that exits 1 is a failing input of class
corpus:<name>: listed as `known` in known_findings.json it prints a KNOWN-FINDING line, otherwise it is a violation —
so a repaired defect that comes back is reported again."""
import glob, os, shutil, subprocess, tempfile

V = os.path.dirname(os.path.dirname(os.path.abspath(__file__)))


def run(rep):
    scripts = sorted(glob.glob(os.path.join(V, "corpus", rep.prop, "*.py")))
    if not scripts:
        return
    scratch = tempfile.mkdtemp(prefix="verif-corpus-", dir=os.environ.get("VERIF_SCRATCH") or None)
    # the scripts were written under a global configuration with init.defaultBranch = main; give them exactly that
    home = os.path.join(scratch, "home")
    os.makedirs(home)
    with open(os.path.join(home, ".gitconfig"), "w") as f:
        f.write("[user]\n\tname = builder\n\temail = builder@example.invalid\n[init]\n\tdefaultBranch = main\n[safe]\n\tdirectory = *\n")
    # the extension modules are the ones rebuilt from /repo/crates (build/rustext), not whatever lies in /repo/dulwich:
    # every interpreter a script starts puts that directory first on the package's search path
    shim = os.path.join(scratch, "shim")
    os.makedirs(shim)
    with open(os.path.join(shim, "sitecustomize.py"), "w") as f:
        f.write("import os\next = os.environ.get('VERIF_RUSTEXT')\n"
                "if ext and os.path.isdir(ext) and not os.environ.get('VERIF_NO_RUSTEXT'):\n"
                "    try:\n        import dulwich\n        dulwich.__path__.insert(0, ext)\n    except Exception:\n        pass\n")
    import build as B
    env = dict(os.environ, PYTHONPATH=shim + os.pathsep + "/repo", PYTHONHASHSEED="0", CORPUS_TMP=scratch, HOME=home, GIT_CONFIG_NOSYSTEM="1",
               LC_ALL="C", VERIF_RUSTEXT=B.RUSTEXT)
    env.pop("PYTHONSTARTUP", None)
    env.pop("GIT_CONFIG_GLOBAL", None)
    env.pop("XDG_CONFIG_HOME", None)
    procs = []
    try:
        # a few at a time: some of them race threads against each other and want a quiet machine
        pending = list(scripts)
        results = {}
        while pending or procs:
            while pending and len(procs) < 4:
                s = pending.pop(0)
                out = open(os.path.join(scratch, os.path.basename(s) + ".out"), "wb")
                procs.append((s, out, subprocess.Popen(["timeout", "600", "/venv/bin/python", s], cwd=scratch, env=env, stdout=out, stderr=subprocess.STDOUT)))
            s, out, p = procs.pop(0)
            rc = p.wait()
            out.close()
            results[s] = (rc, open(out.name, "rb").read().decode("utf-8", "replace"))
        for s in scripts:
            rc, text = results[s]
            name = os.path.basename(s)[:-3]
            rep.case("corpus", key=name, nontrivial=True, outcome={0: "absent", 1: "present"}.get(rc, "rc=%d" % rc), sample={"script": "corpus/%s/%s.py" % (rep.prop, name)})
            if rc == 0:
                continue
            tail = "\n".join(text.strip().split("\n")[-6:])[-700:]
            doc = ""
            for line in open(s):
                if line.startswith('"""'):
                    doc = line.strip().strip('"')
                    break
            if rc == 1:
                rep.fail("corpus:" + name, "%s -- %s" % (doc[:200], tail), {"script": "corpus/%s/%s.py" % (rep.prop, name), "replay": "PYTHONPATH=/repo /venv/bin/python corpus/%s/%s.py" % (rep.prop, name)})
            else:
                rep.fail("corpus-script-broken:" + name, "the script ended with status %d: %s" % (rc, tail), {"script": "corpus/%s/%s.py" % (rep.prop, name)})
    finally:
        shutil.rmtree(scratch, ignore_errors=True)
