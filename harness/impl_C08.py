"""Implementation side of C08: ref operations of several actors (each with its own Repo object, as separate processes
would have) on one bare repository under the deterministic scheduler; histories of invocations / responses."""
import os, shutil, tempfile
import sched
from dulwich.file import FileLocked
from dulwich.repo import Repo
from dulwich.objects import Blob, Commit, Tree

R = b"refs/heads/main"
POINTS = ("open", "replace", "rename", "remove", "unlink", "stat", "lstat", "rmdir", "mkdir", "listdir", "scandir")


def _objects():
    b = Blob.from_string(b"x")
    t = Tree()
    t.add(b"f", 0o100644, b.id)
    cs = []
    for i in range(5):
        c = Commit()
        c.tree = t.id
        c.parents = []
        c.author = c.committer = b"a <a@x>"
        c.author_time = c.commit_time = 1700000000 + i
        c.author_timezone = c.commit_timezone = 0
        c.message = b"v%d" % i
        cs.append(c)
    return b, t, cs


_B, _T, _CS = _objects()
VAL = {i: c.id for i, c in enumerate(_CS)}
NAME = {c.id: i for i, c in enumerate(_CS)}


def _v(x):
    return None if x is None else VAL[x]


def _n(x):
    if x is None:
        return None
    return NAME.get(x, "?" + x[:8].decode("latin1"))


def _label(o):
    m = o.message
    if m.startswith(b"commit-"):
        return 100 + int(m[7:])
    return NAME.get(o.id, "?")


def _setup(d, init):
    """init: {"loose": v|None, "packed": v|None, "head": bool}"""
    r = (Repo.init if init.get("nonbare") else Repo.init_bare)(os.path.join(d, "r.git"), mkdir=True)
    r.object_store.add_objects([(_B, None), (_T, None)] + [(c, None) for c in _CS])
    other = b"refs/heads/other"
    r.refs[other] = VAL[4]
    if init.get("packed") is not None:
        r.refs[R] = VAL[init["packed"]]
        r.refs.pack_refs(all=True)
    elif init.get("pack_other"):
        r.refs.pack_refs(all=True)
    if init.get("loose") is not None:
        r.refs[R] = VAL[init["loose"]]
    if init.get("head"):
        r.refs.set_symbolic_ref(b"HEAD", R)
    path = r.path
    r.close()
    return path


def _op(path, spec):
    """an actor: opens its own Repo and performs one operation; returns a JSON-able result"""
    kind = spec[0]

    def run():
        r = Repo(path)
        try:
            name = b"HEAD" if len(spec) > 1 and spec[-1] == "via-head" else R
            try:
                if kind == "cas":
                    return r.refs.set_if_equals(name, _v(spec[1]), _v(spec[2]))
                if kind == "set":
                    r.refs[name] = _v(spec[1])
                    return True
                if kind == "add":
                    return r.refs.add_if_new(name, _v(spec[1]))
                if kind == "del":
                    return r.refs.remove_if_equals(R, _v(spec[1]))
                if kind == "delu":
                    return r.refs.remove_if_equals(R, None)
                if kind == "pack":
                    r.refs.pack_refs(all=True)
                    return True
                if kind == "sym":
                    r.refs.set_symbolic_ref(R, b"refs/heads/other")
                    return True
                if kind == "commit":
                    from dulwich.errors import CommitError
                    kw = dict(message=b"commit-%d" % spec[1], committer=b"a <a@x>", author=b"a <a@x>", commit_timestamp=1700000100 + spec[1],
                              commit_timezone=0, author_timestamp=1700000100 + spec[1], author_timezone=0, tree=_T.id, ref=R)
                    try:
                        if len(spec) > 2 and spec[2] == "base":
                            r.do_commit(**kw)
                        else:
                            r.get_worktree().commit(**kw)
                        return True
                    except CommitError:
                        return False
                if kind == "read":
                    try:
                        v = r.refs[name]
                    except KeyError:
                        return None
                    return _n(v) if v in NAME else _label(r.object_store[v])
                if kind == "keys":
                    return R in set(r.refs.allkeys())
                if kind == "dict":
                    return _n(r.refs.as_dict().get(R))
            except FileLocked:
                return "locked"
            raise ValueError(kind)
        finally:
            r.close()
    return run


def explore(req):
    out = []
    d0 = tempfile.mkdtemp(prefix="verif-c08-", dir=os.environ.get("VERIF_SCRATCH") or None)
    try:
        template = _setup(d0, req["init"])

        def make():
            d = tempfile.mkdtemp(prefix="verif-c08r-", dir=os.environ.get("VERIF_SCRATCH") or None)
            path = os.path.join(d, "r.git")
            shutil.copytree(template, path)
            # scheduling points: calls on the ref files (loose refs and their directories, packed-refs, HEAD and the lock files)
            s = sched.Sched(root=d, points=POINTS, file_points=False,
                            only=lambda p: "/refs" in p or os.path.basename(p) in ("packed-refs", "packed-refs.lock", "HEAD", "HEAD.lock"))
            marks = {}

            def wrap(i, fn):
                def run():
                    marks[i] = [len(s.trace), None]
                    try:
                        return fn()
                    finally:
                        marks[i][1] = len(s.trace)
                return run
            actors = [wrap(i, _op(path, sp)) for i, sp in enumerate(req["actors"])]

            def finish(r):
                try:
                    rr = Repo(path)
                    try:
                        try:
                            final = _n(rr.refs[R])
                        except KeyError:
                            final = None
                        # ancestry of the final tip, commits labelled by the message they were made with
                        anc, todo = [], []
                        try:
                            todo = [rr.refs[R]]
                        except KeyError:
                            pass
                        seen = set()
                        while todo:
                            c = todo.pop()
                            if c in seen or c not in rr.object_store:
                                continue
                            seen.add(c)
                            o = rr.object_store[c]
                            anc.append(_label(o))
                            todo.extend(o.parents)
                        try:
                            final = _label(rr.object_store[rr.refs[R]])
                        except KeyError:
                            final = None
                        try:
                            other = _n(rr.refs[b"refs/heads/other"])
                        except KeyError:
                            other = None
                        loose = rr.refs.read_loose_ref(R)
                        packed = rr.refs.get_packed_refs().get(R)
                        locks = [os.path.join(dp, n) for dp, dn, fn in os.walk(path) for n in fn if n.endswith(".lock")]
                    finally:
                        rr.close()
                    return {"anc": anc, "final": final, "loose": _n(loose) if loose and not loose.startswith(b"ref:") else (loose.decode() if loose else None),
                            "packed": _n(packed), "other": other, "locks": [os.path.relpath(x, path) for x in locks], "marks": dict(marks)}
                finally:
                    shutil.rmtree(d, ignore_errors=True)
            return s, actors, finish

        for prefix, r, fin in sched.explore(make, max_runs=req.get("max_runs", 3000), preemption_bound=req.get("preempt", 2)):
            ops = []
            for i, x in enumerate(r["results"]):
                inv, resp = fin["marks"].get(i, [0, None])
                ops.append({"inv": inv, "resp": resp if resp is not None else 10 ** 9, "res": x[1] if x and x[0] == "ok" else "exc:" + str(x[1] if x else None)})
            out.append({"sched": ".".join(str(c[1]) for c in r["choices"]), "ops": ops, "final": fin["final"], "other": fin["other"], "loose": fin["loose"], "packed": fin["packed"], "anc": fin["anc"],
                        "locks": fin["locks"], "trace": ["%d:%s:%s:%s" % (a, c.replace("os.", ""), "/".join(map(str, ar[:1])), o) for (a, c, ar, o) in r["trace"]]})
    finally:
        shutil.rmtree(d0, ignore_errors=True)
    return {"runs": out}


HANDLERS = {"explore": explore}
