"""Implementation side of C13: merge-base, ancestry, independence, walks."""
import itertools, os, shutil, subprocess, tempfile
from dulwich import graph as G
from dulwich.objects import Commit, Tree
from dulwich.repo import MemoryRepo


def _dag(s):
    return [[int(x) for x in part.split(".")] if part not in ("-", "") else [] for part in s.split(",")]


def lcas_batch(req):
    """_find_lcas on dict-backed lookups for every (stamps, c1, c2) of one DAG"""
    d = _dag(req["dag"])
    n = len(d)
    ids = [b"%040d" % i for i in range(n)]
    par = {ids[i]: [ids[p] for p in d[i]] for i in range(n)}
    out = []
    for stamps in req["stamps"]:
        st = {ids[i]: stamps[i] for i in range(n)}
        for (a, bs) in req["queries"]:
            try:
                r = G._find_lcas(lambda c: par[c], ids[a], [ids[b] for b in bs], lambda c: st[c])
                out.append(".".join(str(x) for x in sorted(int(x) for x in r)) or "-")
            except Exception as e:
                out.append("exc:" + type(e).__name__)
    return {"v": out}


def build_repo(d, stamps):
    r = MemoryRepo()
    t = Tree()
    r.object_store.add_object(t)
    ids = []
    for i, ps in enumerate(d):
        c = Commit()
        c.tree = t.id
        c.parents = [ids[p] for p in ps]
        c.author = c.committer = b"a <a@x>"
        c.author_time = c.commit_time = stamps[i]
        c.author_timezone = c.commit_timezone = 0
        c.message = b"c%d" % i
        r.object_store.add_object(c)
        ids.append(c.id)
    return r, ids


def repo_api(req):
    """find_merge_base / can_fast_forward / independent / find_octopus_base on a MemoryRepo"""
    d = _dag(req["dag"])
    r, ids = build_repo(d, req["stamps"])
    idx = {v: i for i, v in enumerate(ids)}
    out = {}
    try:
        out["mb"] = [".".join(str(x) for x in sorted(idx[c] for c in G.find_merge_base(r, [ids[a]] + [ids[b] for b in bs])))
                     or "-" for (a, bs) in req["queries"]]
        out["ff"] = ["1" if G.can_fast_forward(r, ids[a], ids[bs[0]]) else "0" for (a, bs) in req["queries"]]
        out["ind"] = [".".join(str(x) for x in sorted(idx[c] for c in G.independent(r, [ids[x] for x in s]))) or "-" for s in req.get("sets", [])]
    except Exception as e:
        out["exc"] = type(e).__name__ + ":" + str(e)[:100]
    return out


GIT_ENV = {"GIT_CONFIG_NOSYSTEM": "1", "GIT_CONFIG_GLOBAL": "/dev/null", "HOME": "/nonexistent", "LC_ALL": "C",
           "PATH": os.environ.get("PATH", "/usr/bin:/bin")}


def git_merge_base(req):
    """the same DAG in a real git repository (fast-import), git merge-base --all / --is-ancestor"""
    d = _dag(req["dag"])
    tmp = tempfile.mkdtemp(prefix="verif-mb-", dir=os.environ.get("VERIF_SCRATCH") or None)
    try:
        subprocess.run(["git", "init", "-q", "--bare", tmp], env=GIT_ENV, check=True)
        stream = []
        for i, ps in enumerate(d):
            msg = "c%d\n" % i      # distinct messages: siblings with one timestamp would otherwise be one and the same commit
            stream.append("commit refs/heads/n%d\nmark :%d\ncommitter c <c@x> %d +0000\ndata %d\n%s" % (i, i + 1, max(req["stamps"][i], 0), len(msg), msg))
            if ps:
                stream.append("from :%d\n" % (ps[0] + 1))
                for p in ps[1:]:
                    stream.append("merge :%d\n" % (p + 1))
            stream.append("\n")
        p = subprocess.run(["git", "fast-import", "--quiet"], cwd=tmp, env=GIT_ENV, input="".join(stream).encode(), capture_output=True)
        if p.returncode:
            return {"err": p.stderr.decode()[:200]}
        rev = {}
        for i in range(len(d)):
            rev[subprocess.run(["git", "rev-parse", "refs/heads/n%d" % i], cwd=tmp, env=GIT_ENV, capture_output=True).stdout.strip().decode()] = i
        mb, ff = [], []
        for (a, bs) in req["queries"]:
            o = subprocess.run(["git", "merge-base", "--all", "n%d" % a] + ["n%d" % b for b in bs], cwd=tmp, env=GIT_ENV, capture_output=True)
            mb.append(".".join(str(x) for x in sorted(rev[l] for l in o.stdout.decode().split())) or "-")
            o = subprocess.run(["git", "merge-base", "--is-ancestor", "n%d" % a, "n%d" % bs[0]], cwd=tmp, env=GIT_ENV)
            ff.append("1" if o.returncode == 0 else "0")
        return {"mb": mb, "ff": ff}
    finally:
        shutil.rmtree(tmp, ignore_errors=True)


def walks(req):
    """Walker over a MemoryRepo: every (include, exclude, order, reverse, max_entries, since, until) of the request;
    optionally the same history in git (fast-import) with git rev-list"""
    from dulwich.walk import Walker
    d = _dag(req["dag"])
    r, ids = build_repo(d, req["stamps"])
    idx = {v: i for i, v in enumerate(ids)}
    out = []
    for w in req["walks"]:
        try:
            kw = {}
            if w.get("max") is not None:
                kw["max_entries"] = w["max"]
            if w.get("since") is not None:
                kw["since"] = w["since"]
            if w.get("until") is not None:
                kw["until"] = w["until"]
            got = [idx[e.commit.id] for e in Walker(r.object_store, [ids[i] for i in w["inc"]], exclude=[ids[i] for i in w["exc"]] or None,
                                                     order=w["order"], reverse=w["rev"], **kw)]
            out.append(got)
        except Exception as e:  # noqa: BLE001
            out.append("exc:" + type(e).__name__ + ":" + str(e)[:80])
    res = {"v": out}
    if req.get("git"):
        tmp = tempfile.mkdtemp(prefix="verif-walk-", dir=os.environ.get("VERIF_SCRATCH") or None)
        try:
            subprocess.run(["git", "init", "-q", "--bare", tmp], env=GIT_ENV, check=True)
            stream = []
            for i, ps in enumerate(d):
                msg = "c%d\n" % i
                stream.append("commit refs/heads/n%d\nmark :%d\ncommitter c <c@x> %d +0000\ndata %d\n%s" % (i, i + 1, max(req["stamps"][i], 0), len(msg), msg))
                if ps:
                    stream.append("from :%d\n" % (ps[0] + 1))
                    for p in ps[1:]:
                        stream.append("merge :%d\n" % (p + 1))
                stream.append("\n")
            p = subprocess.run(["git", "fast-import", "--quiet"], cwd=tmp, env=GIT_ENV, input="".join(stream).encode(), capture_output=True)
            if p.returncode:
                res["git_err"] = p.stderr.decode()[:200]
                return res
            names = subprocess.run(["git", "for-each-ref", "--format=%(objectname) %(refname:short)"], cwd=tmp, env=GIT_ENV, capture_output=True).stdout.decode().split("\n")
            rev = {}
            for l in names:
                if l:
                    h, nme = l.split()
                    rev.setdefault(h, int(nme[1:]))
            res["git_collapsed"] = len(rev) != len(d)
            gl = []
            for w in req["walks"]:
                args = ["git", "rev-list"] + (["--topo-order"] if w["order"] == "topo" else []) + ["n%d" % i for i in w["inc"]] + ["^n%d" % i for i in w["exc"]]
                o = subprocess.run(args, cwd=tmp, env=GIT_ENV, capture_output=True)
                gl.append([rev.get(h, -1) for h in o.stdout.decode().split()])
            res["git"] = gl
        finally:
            shutil.rmtree(tmp, ignore_errors=True)
    return res


def walk_model(req):
    """date-ordered walks without excludes, and _topo_reorder on given entry orders, for comparison with the model"""
    from types import SimpleNamespace
    from dulwich.walk import Walker, _topo_reorder
    d = _dag(req["dag"])
    r, ids = build_repo(d, req["stamps"])
    idx = {v: i for i, v in enumerate(ids)}
    out = {"walk": [], "topo": []}
    for inc in req["includes"]:
        try:
            out["walk"].append(".".join(str(idx[e.commit.id]) for e in Walker(r.object_store, [ids[i] for i in inc])) or "-")
        except Exception as e:  # noqa: BLE001
            out["walk"].append("exc:" + type(e).__name__)
    for order in req["orders"]:
        ents = [SimpleNamespace(commit=SimpleNamespace(id=ids[i], parents=[ids[p] for p in d[i]])) for i in order]
        try:
            out["topo"].append(".".join(str(idx[e.commit.id]) for e in _topo_reorder(iter(ents))) or "-")
        except Exception as e:  # noqa: BLE001
            out["topo"].append("exc:" + type(e).__name__)
    return out


HANDLERS = dict(lcas_batch=lcas_batch, repo_api=repo_api, git_merge_base=git_merge_base, walks=walks, walk_model=walk_model)
