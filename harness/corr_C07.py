"""C07 — lock files: Model/LockFile.v vs the real _GitFile under a deterministic scheduler; fault injection in callers."""
from common import Model, Impl

PROP = "C07"
LEVEL = "proof"
NAMES = {"0": "(finished)", "1": "os.open", "2": "f.write", "3": "f.flush", "4": "os.fsync", "5": "f.close", "6": "os.replace", "7": "f.close", "8": "os.remove", "9": "open"}
CALLERS = ["locked-index", "index-write-new", "index-rewrite", "config-write", "ref-set-loose", "ref-set-packed", "ref-add-new", "ref-remove-loose",
           "ref-remove-packed", "symref-set", "pack-refs", "put-named-file", "shallow-update", "add-alternate", "commit-graph"]


def run(rep):
    thorough = rep.tier == "thorough"
    rep.extra["rule"] = ("actors = writers (with GitFile(p,'wb') as f: f.write(data), optionally raising in the body) and readers on one "
                         "path, run as threads that park before every os.open / f.write / f.flush / os.fsync / f.close / os.replace / "
                         "os.remove / open; every schedule (all of them for 2 actors, bounded pre-emptions for 3) x at most one injected "
                         "fault (ENOSPC or KeyboardInterrupt) at any call; per run the call trace, each actor's outcome, the final content "
                         "and the lock file are compared with the model run on the same schedule; mutual exclusion is read off the real "
                         "trace.  Callers: 15 dulwich routines that write through GitFile, a fault at every scheduling point of each: "
                         "no .lock file may remain and every file is old or new.  distinct non-trivial = distinct (actors, schedule)")
    rep.trusted += ["the interposition layer harness/sched.py (patches os.* and builtins.open inside the child interpreter)",
                    "the kernel's O_EXCL and rename atomicity (the model's step granularity)"]
    impl = Impl(PROP, case_timeout=900)
    model = Model(PROP)
    scen = [
        (0, "w1,w2", [], None, 2000),
        (0, "w1,w2", ["ENOSPC", "KI"], 2, 4000 if not thorough else 40000),
        (0, "w1,w2,w3", [], 3 if not thorough else 5, 3000 if not thorough else 60000),
        (0, "w1,a2,r", ["ENOSPC"], 2, 3000 if not thorough else 30000),
        (None, "w1,r,r", ["KI"], 2, 2000 if not thorough else 20000),
        (0, "a1,w2,w3", ["EIO"], 1 if not thorough else 3, 2500 if not thorough else 40000),
        (0, "w1,r", ["ENOSPC", "KI", "EPERM"], None, 3000),
    ]
    reqs = [{"fn": "explore", "t0": t0, "actors": a, "faults": f, "preempt": pb, "max_runs": mr} for (t0, a, f, pb, mr) in scen]
    res = impl.run(reqs)
    lines, plan = [], []
    for q, r in zip(reqs, res):
        if "runs" not in r:
            rep.fail("explore-worker", "exploration failed: %r" % (r,), q)
            continue
        for x in r["runs"]:
            lines.append("run %s %s %s" % ("-" if q["t0"] is None else q["t0"], q["actors"], x["sched"]))
            plan.append((q, x))
    rep.extra["schedules_run"] = len(lines)
    nfault = 0
    for (q, x), m in zip(plan, model.run(lines)):
        case = {"t0": q["t0"], "actors": q["actors"], "schedule": x["sched"]}
        rep.case("schedule", key=(q["actors"], q["t0"], x["sched"]), nontrivial=True, outcome=x["out"], sample=dict(case, trace=x["trace"]))
        nfault += "x" in x["sched"]
        if x["overlap"]:
            rep.fail("two-lock-holders", "actor %s obtained the lock while %s held it" % tuple(x["overlap"]), dict(case, trace=x["trace"]))
        if x["extra"]:
            rep.fail("stray-file", "files other than the target and its lock were left: %s" % x["extra"], dict(case, trace=x["trace"]))
        parts = [p.strip() for p in m.split("|")]
        if len(parts) != 5:
            rep.disagree("LockFile.run", case, m, x["trace"])
            continue
        mtrace = ",".join("%s:%s%s" % (t.split(":")[0], NAMES[t.split(":")[1].rstrip("x")], "x" if t.endswith("x") else "") for t in parts[0].split(",") if t)
        mine = "%s | %s | %s | %s" % (mtrace, parts[1], parts[2], "1" if parts[3] != "-" else "0")
        theirs = "%s | %s | %s | %s" % (x["trace"], x["out"], x["target"], "1" if x["lock"] else "0")
        if mine != theirs:
            rep.disagree("_GitFile under schedule vs LockFile.run", dict(case, exceptions=x["excs"]), mine, theirs)
            # is the property itself broken on this schedule?
            if x["lock"] and all(o != "@" for o in x["out"].split(",")):
                rep.fail("lock-left-behind", "all actors finished but the lock file is still there", dict(case, trace=x["trace"]))
            outs = x["out"].split(",")
            datas = {a[1:] for a, o in zip(q["actors"].split(","), outs) if o == "C"} | {"-" if q["t0"] is None else str(q["t0"])}
            if x["target"] not in datas:
                rep.fail("torn-or-foreign-content", "the protected file holds %r, neither the initial content nor a committed writer's data" % x["target"], dict(case, trace=x["trace"]))
    rep.extra["schedules_with_fault"] = nfault
    # ---- callers under fault injection
    reqs = [{"fn": "callers", "op": c, "faults": ["ENOSPC", "KI"] if not thorough else ["ENOSPC", "KI", "EIO", "EPERM"]} for c in CALLERS]
    npts = {}
    for q, r in zip(reqs, impl.run(reqs)):
        if "runs" not in r:
            rep.fail("caller-clean-run", "the undisturbed run of %s failed: %r" % (q["op"], r), q)
            continue
        npts[q["op"]] = r["points"]
        if r.get("locks_after_clean_run"):
            rep.fail("lock-left-behind", "%s leaves %s behind after a successful run" % (q["op"], r["locks_after_clean_run"]), q)
        for x in r["runs"]:
            rep.case("caller-fault:" + q["op"], key=(q["op"], x["k"], x["fault"]), nontrivial=True, outcome=x["result"],
                     sample={"op": q["op"], "point": x["k"], "fault": x["fault"], "at": x["at"]})
            for b in x["bad"]:
                cls = "caller-lock-left" if b.startswith("lock file") else "caller-torn-file"
                rep.fail(cls + ":" + q["op"], "%s with %s raised at call %d (%s): %s" % (q["op"], x["fault"], x["k"], x["at"], b),
                         {"op": q["op"], "point": x["k"], "fault": x["fault"], "calls": r["calls"]})
    rep.extra["caller_scheduling_points"] = npts


def replay(rep, body):
    run(rep)
