"""C04 — hostile input is contained: Model/DeltaGraph.v vs delta resolution on crafted packs; exhaustive mutation
sweeps of a pack, a pack index, a loose object, packed-refs and an index file."""
import itertools
from common import Model, Impl

PROP = "C04"
LEVEL = "proof"


def mutants(size, rng, thorough, values=(0x00, 0xFF, 0x01, 0x80, 0x7F, 0x40)):
    out = [["same"]]
    for pos in range(size):
        vs = values if not thorough else range(256)
        for v in vs:
            out.append(["byte", pos, v])
        for b in range(8):
            out.append(["bit", pos, b])
    for n in range(size):
        out.append(["trunc", n])
    for tail in ("00", "ff", "0000000000000000000000000000000000000000", "5041434b00000002"):
        out.append(["tail", tail])
    return out


def fixed_mutants(size, thorough, values=(0x00, 0xFF, 0x01, 0x80, 0x7F, 0x40, 0x10, 0x08)):
    """damage the checksum cannot see: the trailer is recomputed after the change"""
    out = []
    for pos in range(size - 20):
        for v in (values if not thorough else range(256)):
            out.append(["bytefix", pos, v])
    for n in range(12, size - 20):
        out.append(["truncfix", n])
    return out


def run(rep):
    rng = rep.rng
    thorough = rep.tier == "thorough"
    rep.extra["rule"] = ("delta graphs: every graph over up to 4 entries (5 in thorough) where each entry is full, a delta on any entry "
                         "(itself and later ones included), a delta on an id that exists nowhere, or a delta on an object only the receiver "
                         "has; spelled as OFS deltas where the base is earlier and as REF deltas otherwise; add_thin_pack verdict vs the "
                         "model.  Mutation sweeps: every position x {6 byte values (all 256 in thorough), 8 bit flips}, every truncation "
                         "and 4 appended tails of a 289-byte five-object pack (OFS + REF delta) through add_thin_pack, add_pack+commit, "
                         "MemoryObjectStore.add_thin_pack/add_pack/add_pack_data, add_pack_data and PackStreamReader, and again with the trailer "
                         "recomputed after the damage (so that the checksum does not mask what lies behind it); delta graphs through every "
                         "store kind and ingestion path; reads of installed packs with crafted index and base names vs read_entry; entries whose stream inflates to 64 MiB (256 MiB in thorough) behind "
                         "a header announcing 1000 / 70000 / 2^20 bytes, delivered in reads of 512 / 4096 / 65536 / unlimited bytes: refused with peak "
                         "memory (tracemalloc) below 4 x announced + 4 x compressed + 2 MiB; of its 1156-byte v2 index, a loose object, packed-refs "
                         "and an index file through Repo() reads.  A mutant must end as ok or as an ordinary Exception within 20 s; a "
                         "failed ingestion must leave set(store) and the directory listing (temporary files aside) unchanged; whatever "
                         "a success makes visible must hash to its name.  distinct non-trivial = mutants and graphs")
    rep.trusted += ["the raw pack writer in harness/impl_C04.py (independent of dulwich's)"]
    impl = Impl(PROP, case_timeout=1800, mem_gb=4)
    model = Model(PROP)
    # ---- delta graphs
    n = 4 if not thorough else 5
    graphs = []
    for k in range(1, n + 1):
        opts = [["f", "x", "e"] + ["d%d" % b for b in range(k)]] * k
        for g in itertools.product(*opts):
            graphs.append(list(g))
    if not thorough and len(graphs) > 900:
        graphs = graphs[:300] + rng.sample(graphs[300:], 600)
    reqs = [{"fn": "graph", "entries": g} for g in graphs]
    # the same verdict is owed by every store kind and ingestion path
    # (add_pack_data takes parsed entries with known names, so it has no delta graphs of its own)
    variants = [("disk", "add_pack"), ("memory", "thin"), ("memory", "add_pack")]
    vgraphs = [g for g in graphs if len(g) <= 3] if not thorough else [g for g in graphs if len(g) <= 4]
    vreqs = [{"fn": "graph", "entries": g, "store": st, "path": pa} for g in vgraphs for st, pa in variants]
    # model: "e" (external base present in the store) behaves as a full object's dependant that resolves; "x" never resolves
    lines = []
    for g in graphs:
        m = []
        for e in g:
            m.append("f" if e == "f" else "d%d" % (len(g) + 1) if e == "x" else "d%d" % len(g) if e == "e" else e)
        m.append("f")        # position len(g): the external object the store already has
        lines.append("resolve " + ",".join(m))
    mres = model.run(lines)
    verdict = {",".join(g): m for g, m in zip(graphs, mres)}
    allg = [(g, {}, r, m) for g, r, m in zip(graphs, impl.run(reqs), mres)]
    allg += [(q["entries"], {"store": q["store"], "path": q["path"]}, r, verdict[",".join(q["entries"])]) for q, r in zip(vreqs, impl.run(vreqs))]
    for g, var, r, m in allg:
        case = dict({"entries": g}, **var)
        rep.case("delta-graph" + (":%s/%s" % (var["store"], var["path"]) if var else ""), key=",".join(g) + repr(sorted(var.items())), nontrivial=len(g) > 1, outcome=r.get("cls"), sample=case)
        if "cls" not in r:
            rep.fail("graph-worker", "graph ingestion failed: %r" % (r,), case)
            continue
        want_ok = m.startswith("ok")
        got_ok = r["cls"] == "ok"
        if want_ok != got_ok:
            rep.disagree("add_thin_pack verdict vs DeltaGraph.resolve", case, m, r["cls"])
        if r["cls"] in ("hang",) or r["cls"].startswith(("resource", "baseexception")):
            rep.fail("not-contained", "a crafted delta graph ended as %s" % r["cls"], case)
        if r["changed_on_failure"]:
            rep.fail("failed-ingest-left-trace", "the pack was refused (%s) but the store changed" % r["cls"], case)
        if got_ok and (not r["all_present"] or r["bad"]):
            rep.fail("ingest-inconsistent", "accepted pack: all objects present %s, wrong hashes %s" % (r["all_present"], r["bad"]), case)
    # ---- reads of an installed pack whose index and base names were crafted: Pack.resolve_object vs DeltaGraph.read_entry
    rgraphs = []
    for k in range(1, (4 if not thorough else 5) + 1):
        for g in itertools.product(*([["f"] + ["d%d" % b for b in range(k + 1)]] * k)):
            rgraphs.append(list(g))
    if not thorough and len(rgraphs) > 500:
        rgraphs = rgraphs[:200] + rng.sample(rgraphs[200:], 300)
    rreqs = [{"fn": "crafted_read", "entries": g, "ofs": o} for g in rgraphs for o in (False, True)]
    rlines = ["read %s %d" % (",".join(g), i) for g in rgraphs for i in range(len(g))]
    mr = iter(model.run(rlines))
    want = {",".join(g): [next(mr) for _ in g] for g in rgraphs}
    for q, r in zip(rreqs, impl.run(rreqs)):
        case = {"entries": q["entries"], "ofs": q["ofs"], "read": True}
        rep.case("crafted-read", key=",".join(q["entries"]) + str(q["ofs"]), nontrivial=len(q["entries"]) > 1, outcome=repr(r.get("reads")), sample=case)
        if "reads" not in r:
            rep.fail("read-worker", "reading the crafted pack failed: %r" % (r,), case)
            continue
        for i, (got, m) in enumerate(zip(r["reads"], want[",".join(q["entries"])])):
            if got == "hang" or got.startswith(("resource", "baseexception")):
                rep.fail("not-contained", "reading entry %d of a crafted pack ended as %s" % (i, got), case)
            elif got == "ok:other":
                rep.fail("read-wrong-object", "entry %d of the crafted pack read back as another object" % i, case)
            elif (got == "ok:same") != (m == "ok"):
                rep.disagree("Pack.resolve_object vs DeltaGraph.read_entry (entry %d)" % i, case, m, got)
    # ---- decompression bombs: an entry that inflates to far more than its header announces
    breqs = [{"fn": "bomb", "path": pa, "seg": seg, "announced": ann, "real": (64 if not thorough else 256) << 20}
             for pa in ("stream", "thin", "memory", "add_pack") for seg in (512, 4096, 65536, None) for ann in (1000, 70000, 1 << 20)]
    for q, r in zip(breqs, impl.run(breqs)):
        case = dict(q, bomb=True)
        rep.case("bomb:" + q["path"], key=repr(q), nontrivial=True, outcome=r.get("cls"), sample=case)
        if "cls" not in r:
            rep.fail("bomb-worker", "the bomb case failed: %r" % (r,), case)
        elif not r["cls"].startswith("error:"):
            rep.fail("not-contained", "an entry inflating to %d MiB behind a header announcing %d bytes ended as %s" % (q["real"] >> 20, q["announced"], r["cls"]), case)
        elif r["changed"]:
            rep.fail("failed-ingest-left-trace", "the bomb was refused (%s) but the store changed" % r["cls"], case)
        elif r["peak"] > 4 * q["announced"] + 4 * r["stream"] + (2 << 20):
            rep.fail("not-contained", "refusing an entry that announces %d bytes took %d bytes of memory at the peak (the stream inflates to %d MiB): the reader did not stop at the announced size"
                     % (q["announced"], r["peak"], q["real"] >> 20), case)
    # ---- mutation sweeps
    psize = impl.run([{"fn": "sample_size"}])[0]["size"]
    reqs = []
    muts = mutants(psize, rng, thorough)
    chunks = [muts[i::8] for i in range(8)]
    for path in ("thin", "add_pack", "memory", "stream"):
        for ch in chunks:
            reqs.append({"fn": "pack_sweep", "path": path, "mutants": ch})
    fsize = impl.run([{"fn": "sample_size_full"}])[0]["size"]
    fm, fmf = fixed_mutants(psize, thorough), fixed_mutants(fsize, thorough)
    for path in ("thin", "add_pack", "add_pack_data", "memory", "memory_add_pack", "memory_add_pack_data", "stream"):
        pm = fmf if path.endswith("add_pack_data") else fm
        pm = pm if thorough or path in ("thin", "memory_add_pack") else pm[::3]
        for i in range(8):
            reqs.append({"fn": "pack_sweep", "path": path, "mutants": pm[i::8], "label": path + "+trailer-fixed"})
    fmuts = mutants(fsize, rng, thorough)
    for path in ("add_pack_data", "memory_add_pack", "memory_add_pack_data"):
        pm = fmuts if path.endswith("add_pack_data") else muts
        for i in range(8):
            reqs.append({"fn": "pack_sweep", "path": path, "mutants": pm[i::8][::2] if not thorough else pm[i::8]})
    sizes = {}
    for kind in ("idx", "loose", "packed-refs", "index"):
        sizes[kind] = impl.run([{"fn": "file_sweep", "kind": kind, "size_only": True, "mutants": []}])[0]["size"]
        ms = mutants(sizes[kind], rng, thorough, values=(0x00, 0xFF, 0x80) if kind == "idx" and not thorough else (0x00, 0xFF, 0x01, 0x80, 0x7F, 0x40))
        for i in range(8):
            reqs.append({"fn": "file_sweep", "kind": kind, "mutants": ms[i::8]})
    totals = {}
    for q, r in zip(reqs, impl.run(reqs)):
        what = q.get("label") or q.get("path") or q["kind"]
        if "classes" not in r:
            rep.fail("sweep-worker", "mutation sweep %s failed: %r" % (what, r), {"sweep": what})
            continue
        t = totals.setdefault(what, {"n": 0, "classes": {}, "tmp_leaks": 0, "slow": 0})
        t["n"] += r["n"]
        t["tmp_leaks"] += r.get("tmp_leaks", 0)
        t["slow"] += r.get("slow", 0)
        for k, v in r["classes"].items():
            t["classes"][k] = t["classes"].get(k, 0) + v
        for v in r["violations"]:
            cls = "not-contained:" + what
            if what == "idx" and (v["why"].startswith("get_raw(") or v["why"].startswith("iterobjects_subset yields")):
                # the recorded finding, met in the sweep: the offset table of the index is trusted by the raw read paths
                cls = "corpus:get-raw-trusts-damaged-index"
            rep.fail(cls, "%s mutant %s: %s" % (what, v["mutant"], v["why"]), {"sweep": what, "mutant": v["mutant"]})
        if r.get("violations_more"):
            rep.note("%d further violations in sweep %s" % (r["violations_more"], what))
    for what, t in totals.items():
        rep.case("sweep:" + what, key=what, nontrivial=True, outcome=repr(sorted(t["classes"].items())), sample={"sweep": what, "mutants": t["n"]})
    rep.extra["sweeps"] = totals
    rep.extra["artifact_sizes"] = dict(sizes, pack=psize)
    # completing a thin pack, against Model/ThinPack.v
    import corr_C04_thin
    corr_C04_thin.run(rep)


def replay(rep, body):
    run(rep)
