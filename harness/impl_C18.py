"""Implementation side of C18: trees checked out into a work tree, staged back, edited; dulwich's status against the
three listings (HEAD, index, directory) kept by the harness and against git status."""
import os, shutil, stat, subprocess, tempfile
from dulwich import porcelain
from dulwich.index import commit_tree
from dulwich.objects import Blob, Commit
from dulwich.repo import Repo

GIT_ENV = dict(os.environ, GIT_CONFIG_NOSYSTEM="1", HOME="/nonexistent", GIT_CONFIG_GLOBAL="/dev/null", GIT_OPTIONAL_LOCKS="0", LC_ALL="C")
MODES = {"f": 0o100644, "x": 0o100755, "l": 0o120000}


def content(seed, size):
    if size == 0:
        return b""
    unit = (b"%d-" % seed) * 8 + b"\n"
    return (unit * (size // len(unit) + 1))[:size]


def make_tree(store, listing):
    """listing: [[path-hex, kind f/x/l, seed, size]]"""
    blobs = []
    for ph, kind, seed, size in listing:
        data = content(seed, size) if kind != "l" else b"target-%d" % seed
        b = Blob.from_string(data)
        store.add_object(b)
        blobs.append((bytes.fromhex(ph), b.id, MODES[kind]))
    return commit_tree(store, blobs)


def make_commit(store, tree, parent, n):
    c = Commit()
    c.tree = tree
    c.parents = [parent] if parent else []
    c.author = c.committer = b"a <a@x>"
    c.author_time = c.commit_time = 1700000000 + n
    c.author_timezone = c.commit_timezone = 0
    c.message = b"c%d" % n
    store.add_object(c)
    return c.id


def read_wt(root):
    out = {}
    for dp, dn, fn in os.walk(root):
        if ".git" in dn:
            dn.remove(".git")
        for n in fn + [d for d in dn if os.path.islink(os.path.join(dp, d))]:
            p = os.path.join(dp, n)
            rel = os.fsencode(os.path.relpath(p, root))
            st = os.lstat(p)
            if stat.S_ISLNK(st.st_mode):
                out[rel.hex()] = ["l", os.fsencode(os.readlink(p)).hex()]
            else:
                with open(p, "rb") as f:
                    d = f.read()
                out[rel.hex()] = ["x" if st.st_mode & 0o100 else "f", __import__("hashlib").sha1(d).hexdigest()]
        dn[:] = [d for d in dn if not os.path.islink(os.path.join(dp, d))]
    return out


def want_wt(listing):
    out = {}
    for ph, kind, seed, size in listing:
        if kind == "l":
            out[ph] = ["l", (b"target-%d" % seed).hex()]
        else:
            out[ph] = [kind, __import__("hashlib").sha1(content(seed, size)).hexdigest()]
    return out


def dul_status(r):
    s = porcelain.status(r, untracked_files="all")
    return {"add": sorted(p.hex() for p in s.staged["add"]), "delete": sorted(p.hex() for p in s.staged["delete"]), "modify": sorted(p.hex() for p in s.staged["modify"]),
            "unstaged": sorted(p.hex() for p in s.unstaged), "untracked": sorted(os.fsencode(p).hex() if isinstance(p, str) else p.hex() for p in s.untracked)}


def git_status(path):
    p = subprocess.run(["git", "-c", "core.quotepath=off", "status", "--porcelain=v1", "-z", "--untracked-files=all", "--no-renames"], cwd=path, env=GIT_ENV, capture_output=True)
    if p.returncode:
        return {"err": p.stderr.decode("latin1")[:200]}
    out = {"add": [], "delete": [], "modify": [], "unstaged": [], "untracked": []}
    for rec in p.stdout.split(b"\0"):
        if not rec:
            continue
        x, y, path_ = rec[0:1], rec[1:2], rec[3:]
        if x == b"?":
            out["untracked"].append(path_.hex())
            continue
        if x == b"A":
            out["add"].append(path_.hex())
        elif x == b"D":
            out["delete"].append(path_.hex())
        elif x in (b"M", b"T"):
            out["modify"].append(path_.hex())
        if y in (b"M", b"D", b"T"):
            out["unstaged"].append(path_.hex())
    return {k: sorted(v) for k, v in out.items()}


def apply_edit(root, e):
    """e: [kind, path-hex, ...]"""
    kind = e[0]
    p = os.path.join(os.fsencode(root), bytes.fromhex(e[1]))
    if kind == "modify":          # new content, given size
        if os.path.islink(p) or os.path.isdir(p):
            return False
        with open(p, "wb") as f:
            f.write(content(e[2], e[3]))
    elif kind == "chmod":
        if os.path.islink(p) or not os.path.isfile(p):
            return False
        os.chmod(p, os.lstat(p).st_mode ^ 0o111)
    elif kind == "delete":
        if os.path.isdir(p) and not os.path.islink(p):
            shutil.rmtree(p)
        elif os.path.lexists(p):
            os.remove(p)
        else:
            return False
    elif kind == "create":
        if os.path.lexists(p):
            return False
        os.makedirs(os.path.dirname(p), exist_ok=True)
        with open(p, "wb") as f:
            f.write(content(e[2], e[3]))
    elif kind == "to-symlink":
        if not os.path.lexists(p) or (os.path.isdir(p) and not os.path.islink(p)):
            return False
        os.remove(p)
        os.symlink(b"target-%d" % e[2], p)
    elif kind == "to-file":
        if not os.path.islink(p):
            return False
        os.remove(p)
        with open(p, "wb") as f:
            f.write(content(e[2], e[3]))
    elif kind == "to-dir":
        if not os.path.lexists(p) or (os.path.isdir(p) and not os.path.islink(p)):
            return False
        os.remove(p)
        os.makedirs(p)
        with open(os.path.join(p, b"inner"), "wb") as f:
            f.write(content(e[2], e[3]))
    return True


def snapshot(r, wt, head_map):
    """the three listings as they are now: HEAD's tree (constant), the index with, per entry, whether lstat still gives the
    recorded signature (_stat_matches_entry), and the work tree: files and symlinks with the blob id of what they hold, and
    directories standing where a tracked path is"""
    from dulwich.index import _stat_matches_entry, blob_from_path_and_stat, cleanup_mode
    root = os.fsencode(wt)
    ix = r.open_index()
    index = {}
    for pb, e in ix.items():
        fp = os.path.join(root, pb)
        try:
            st_ = os.lstat(fp)
            same = (not stat.S_ISDIR(st_.st_mode)) and _stat_matches_entry(st_, e, True)
        except OSError:
            same = False
        index[pb.hex()] = [cleanup_mode(e.mode), e.sha.decode(), same]
    work = {}
    for dp, dn, fn in os.walk(root):
        if b".git" in dn:
            dn.remove(b".git")
        for n in fn + [d for d in dn if os.path.islink(os.path.join(dp, d))]:
            fp = os.path.join(dp, n)
            st_ = os.lstat(fp)
            if not (stat.S_ISREG(st_.st_mode) or stat.S_ISLNK(st_.st_mode)):
                continue
            work[os.path.relpath(fp, root).hex()] = [cleanup_mode(st_.st_mode), blob_from_path_and_stat(fp, st_).id.decode(), False]
        dn[:] = [d for d in dn if not os.path.islink(os.path.join(dp, d))]
        for d in dn:
            rel = os.path.relpath(os.path.join(dp, d), root)
            if rel.hex() in index or rel.hex() in head_map:
                work[rel.hex()] = [0o40000, "0" * 40, True]
    return {"head": head_map, "index": index, "work": work}


def session(req):
    base = tempfile.mkdtemp(prefix="verif-c18-", dir=os.environ.get("VERIF_SCRATCH") or None)
    try:
        wt = os.path.join(base, "wt")
        r = Repo.init(wt, mkdir=True)
        res = {"steps": []}
        try:
            trees, commits, parent = [], [], None
            for n, listing in enumerate(req["trees"]):
                t = make_tree(r.object_store, listing)
                c = make_commit(r.object_store, t, parent, n)
                trees.append(t)
                commits.append(c)
                r.refs[b"refs/heads/t%d" % n] = c
            r.refs[b"refs/heads/master"] = commits[0]
            # ---- checkout of the first tree
            try:
                porcelain.reset(r, "hard", commits[0])
                res["checkout"] = "ok"
            except Exception as e:  # noqa: BLE001
                res["checkout"] = "exc:" + type(e).__name__ + ":" + str(e)[:80]
                return res
            res["wt_ok"] = read_wt(wt) == want_wt(req["trees"][0])
            if not res["wt_ok"]:
                got, want = read_wt(wt), want_wt(req["trees"][0])
                res["wt_diff"] = sorted(bytes.fromhex(k).decode("latin1") for k in set(got) | set(want) if got.get(k) != want.get(k))[:5]
            res["clean"] = dul_status(r)
            res["git_clean"] = git_status(wt)
            # ---- stage everything again: same tree
            try:
                porcelain.add(r, paths=[os.path.join(wt.encode(), bytes.fromhex(ph)) for ph, *_ in req["trees"][0]])
                res["restaged_tree"] = r.open_index().commit(r.object_store) == trees[0]
                res["restaged_clean"] = dul_status(r)
            except Exception as e:  # noqa: BLE001
                res["restaged_tree"] = "exc:" + type(e).__name__ + ":" + str(e)[:80]
            g = subprocess.run(["git", "add", "-A"], cwd=wt, env=GIT_ENV, capture_output=True)
            g2 = subprocess.run(["git", "write-tree"], cwd=wt, env=GIT_ENV, capture_output=True)
            res["git_write_tree"] = g2.stdout.strip().decode() == trees[0].decode() if g.returncode == 0 and g2.returncode == 0 else (g.stderr + g2.stderr).decode("latin1")[:100]
            # ---- edits and staging, status after each
            head_map = {}
            try:
                from dulwich.index import cleanup_mode as _cm
                for ent in r.object_store.iter_tree_contents(trees[0]):
                    head_map[ent.path.hex()] = [_cm(ent.mode), ent.sha.decode()]
                res["snap0"] = snapshot(r, wt, head_map)
            except Exception as ex:  # noqa: BLE001
                res["snap0"] = {"exc": type(ex).__name__ + ":" + str(ex)[:80]}
            for e in req.get("edits", []):
                step = {"edit": e}
                try:
                    if e[0] == "stage":
                        porcelain.add(r, paths=[os.path.join(wt.encode(), bytes.fromhex(e[1]))])
                        step["applied"] = True
                    elif e[0] == "stage-all":
                        porcelain.add(r)
                        step["applied"] = True
                    elif e[0] == "unstage":
                        if bytes.fromhex(e[1]) in r.open_index():
                            r.get_worktree().unstage([os.fsdecode(bytes.fromhex(e[1]))])      # (what porcelain.reset_file / restore --staged run)
                            step["applied"] = True
                        else:
                            step["applied"] = False
                    elif e[0] == "rm-cached":
                        if bytes.fromhex(e[1]) in r.open_index():
                            porcelain.remove(r, paths=[os.path.join(wt.encode(), bytes.fromhex(e[1]))], cached=True)
                            step["applied"] = True
                        else:
                            step["applied"] = False      # not tracked (any more): git rm --cached refuses as well
                    else:
                        step["applied"] = apply_edit(wt, e)
                except Exception as ex:  # noqa: BLE001
                    step["applied"] = "exc:" + type(ex).__name__ + ":" + str(ex)[:60]
                try:
                    step["dulwich"] = dul_status(r)
                except Exception as ex:  # noqa: BLE001
                    step["dulwich"] = {"exc": type(ex).__name__ + ":" + str(ex)[:80]}
                try:
                    step["snap"] = snapshot(r, wt, head_map)
                except Exception as ex:  # noqa: BLE001
                    step["snap"] = {"exc": type(ex).__name__ + ":" + str(ex)[:80]}
                step["git"] = git_status(wt)
                # where the two disagree about unstaged paths: what is really the case (work tree content and mode against
                # the index entry, read directly) -- an index rewritten without smudging racily clean entries fools git
                try:
                    du, gu = set(step["dulwich"].get("unstaged", [])), set(step["git"].get("unstaged", []))
                    if du != gu:
                        ix = r.open_index()
                        truth = {}
                        for hx_ in du ^ gu:
                            pb = bytes.fromhex(hx_)
                            fp = os.path.join(os.fsencode(wt), pb)
                            try:
                                ent = ix[pb]
                            except KeyError:
                                truth[hx_] = "not-in-index"
                                continue
                            try:
                                st_ = os.lstat(fp)
                                from dulwich.index import blob_from_path_and_stat, cleanup_mode
                                changed = blob_from_path_and_stat(fp, st_).id != ent.sha or cleanup_mode(st_.st_mode) != cleanup_mode(ent.mode)
                                truth[hx_] = "changed" if changed else "same"
                            except (FileNotFoundError, NotADirectoryError, IsADirectoryError):
                                truth[hx_] = "changed"
                        step["truth"] = truth
                except Exception:  # noqa: BLE001
                    pass
                res["steps"].append(step)
            # ---- switching between the trees of the family
            sw = []
            for (i, j) in req.get("switches", []):
                one = {"from": i, "to": j}
                try:
                    # (reset --hard would move the current branch: the family is only ever reached by branch checkouts)
                    porcelain.checkout(r, b"t%d" % i, force=True)
                    porcelain.checkout(r, b"t%d" % j)
                    got, want = read_wt(wt), want_wt(req["trees"][j])
                    one["wt_ok"] = got == want
                    if got != want:
                        one["diff"] = sorted(bytes.fromhex(k).decode("latin1") for k in set(got) | set(want) if got.get(k) != want.get(k))[:5]
                    one["status"] = dul_status(r)
                    one["git"] = git_status(wt)
                    one["index_tree_ok"] = r.open_index().commit(r.object_store) == trees[j]
                except Exception as ex:  # noqa: BLE001
                    one["exc"] = type(ex).__name__ + ":" + str(ex)[:80]
                sw.append(one)
            res["switches"] = sw
            return res
        finally:
            r.close()
    finally:
        shutil.rmtree(base, ignore_errors=True)


def check_entries(req):
    """_check_entry_for_changes on one real file and a constructed index entry, for each combination"""
    import inspect
    from dulwich.index import _check_entry_for_changes, index_entry_from_stat
    base = tempfile.mkdtemp(prefix="verif-c18e-", dir=os.environ.get("VERIF_SCRATCH") or None)
    out = []
    try:
        root = os.fsencode(base)
        has_fm = "honor_filemode" in inspect.signature(_check_entry_for_changes).parameters
        for n, (fm, imode, iid, same_sig, w) in enumerate(req["items"]):
            p = os.path.join(root, b"f%d" % n)
            if w is None:
                st = None
            elif w[2]:
                os.mkdir(p)
                st = os.lstat(p)
            else:
                with open(p, "wb") as f:
                    f.write(b"content-%02d" % w[1])
                os.chmod(p, 0o755 if w[0] == 0o100755 else 0o644)
                st = os.lstat(p)
            if st is None:
                with open(p, "wb") as f:
                    f.write(b"content-%02d" % iid)
                st0 = os.lstat(p)
                os.remove(p)
            else:
                st0 = st
            e = index_entry_from_stat(st0, Blob.from_string(b"content-%02d" % iid).id, mode=imode)
            if not same_sig:
                mt = e.mtime if isinstance(e.mtime, tuple) else (int(e.mtime), 0)
                e = e._replace(mtime=(mt[0] - 5, mt[1])) if hasattr(e, "_replace") else e
                if not hasattr(e, "_replace"):
                    import dataclasses
                    e = dataclasses.replace(e, mtime=(mt[0] - 5, mt[1]))
            kw = {"honor_filemode": bool(fm)} if has_fm else {}
            try:
                r = _check_entry_for_changes(b"f%d" % n, e, root, None, True, **kw)
                out.append("1" if r is not None else "0")
            except Exception as ex:  # noqa: BLE001
                out.append("exc:" + type(ex).__name__)
        return {"v": out, "has_filemode_parameter": has_fm}
    finally:
        shutil.rmtree(base, ignore_errors=True)


HANDLERS = {"session": session, "check_entries": check_entries}
