"""Implementation side of C11: dulwich.index entry / file codecs."""
import os, shutil, subprocess, tempfile
from io import BytesIO
import gen_delta
from dulwich import index as I
from dulwich.objects import sha_to_hex, hex_to_sha

R = gen_delta.resolve


def hx(b):
    return bytes(b).hex() or "-"


def hi(n):
    return "%x" % n


def parse_entry(s):
    p = s.split(":")
    name = R(p[0])
    n = [int(x, 16) for x in p[1:11]]
    return I.SerializedIndexEntry(name, (n[0], n[1]), (n[2], n[3]), n[4], n[5], n[6], n[7], n[8], n[9],
                                  sha_to_hex(R(p[11])), int(p[12], 16), int(p[13], 16))


def show_entry(e):
    ct, mt = e.ctime, e.mtime
    return ":".join([hx(e.name), hi(ct[0]), hi(ct[1]), hi(mt[0]), hi(mt[1]), hi(e.dev), hi(e.ino), hi(e.mode), hi(e.uid),
                     hi(e.gid), hi(e.size), hx(hex_to_sha(e.sha)), hi(e.flags), hi(e.extended_flags)])


def entry(req):
    v = int(req["v"], 16)
    prev = R(req["prev"])
    f = BytesIO()
    try:
        I.write_cache_entry(f, parse_entry(req["e"]), v, prev)
    except AssertionError:
        return {"v": "assert"}
    except Exception as e:
        return {"v": "exc:" + type(e).__name__}
    b = f.getvalue()
    g = BytesIO(b + b"\xaa\xbb")
    try:
        e2 = I.read_cache_entry(g, v, prev)
        back = show_entry(e2) + " " + hx(g.read())
    except Exception as ex:
        back = "exc:" + type(ex).__name__
    return {"v": hx(b) + " " + back}


def read_entry(req):
    g = BytesIO(R(req["s"]))
    try:
        e2 = I.read_cache_entry(g, int(req["v"], 16), R(req["prev"]))
        return {"v": show_entry(e2) + " " + hx(g.read())}
    except Exception as ex:
        return {"v": "none", "exc": type(ex).__name__}


def helpers(req):
    k = req["what"]
    try:
        if k == "gv_enc":
            return {"v": hx(I._encode_varint(int(req["n"], 16)))}
        if k == "compress":
            return {"v": hx(I._compress_path(R(req["p"]), R(req["prev"])))}
        if k == "decompress":
            try:
                p, used = I._decompress_path_from_stream(BytesIO(R(req["s"])), R(req["prev"]))
                return {"v": hx(p) + " " + hx(R(req["s"])[used:])}
            except ValueError:
                return {"v": "none"}
    except AttributeError:
        return {"missing": True}


GIT_ENV = {"GIT_CONFIG_NOSYSTEM": "1", "GIT_CONFIG_GLOBAL": "/dev/null", "HOME": "/nonexistent", "LC_ALL": "C",
           "PATH": os.environ.get("PATH", "/usr/bin:/bin")}


def _git(args, cwd, input=None):
    return subprocess.run(["git"] + args, cwd=cwd, env=GIT_ENV, input=input, stdout=subprocess.PIPE, stderr=subprocess.PIPE)


def index_file(req):
    """write an index through the Index class (sorting, version bump, SHA trailer),
    return the file, what dulwich reads back and, optionally, what git lists"""
    d = tempfile.mkdtemp(prefix="verif-index-", dir=os.environ.get("VERIF_SCRATCH") or None)
    try:
        _git(["init", "-q", d], "/")
        path = os.path.join(d, ".git", "index")
        idx = I.Index(path, read=False, skip_hash=bool(req.get("skip_hash")), version=int(req["v"], 16))
        ents = [] if req["es"] == "_" else [parse_entry(x) for x in req["es"].split(",")]
        for e in ents:
            ie = I.IndexEntry.from_serialized(e)
            st = e.stage()
            if st == I.Stage.NORMAL:
                idx[e.name] = ie
            else:
                c = idx._byname.setdefault(e.name, I.ConflictedIndexEntry())
                setattr(c, {I.Stage.MERGE_CONFLICT_ANCESTOR: "ancestor", I.Stage.MERGE_CONFLICT_THIS: "this",
                            I.Stage.MERGE_CONFLICT_OTHER: "other"}[st], ie)
        try:
            idx.write()
        except Exception as ex:
            return {"err": type(ex).__name__ + ":" + str(ex)[:80], "exists": os.path.exists(path)}
        data = open(path, "rb").read()
        res = {"file": hx(data)}
        try:
            with open(path, "rb") as f:
                back = list(I.read_index(f))
            res["back"] = ",".join(show_entry(e) for e in back) or "_"
            idx2 = I.Index(path)
            res["reopen_ok"] = True
            res["version_read"] = idx2._version
        except Exception as ex:
            res["back"] = "exc:" + type(ex).__name__
        if req.get("git"):
            g = _git(["ls-files", "--stage", "-z"], d)
            items = []
            for rec in g.stdout.split(b"\0"):
                if not rec:
                    continue
                meta, _, name = rec.partition(b"\t")
                mode, sha, stage = meta.split(b" ")
                items.append("%s:%s:%s:%s" % (hx(name), mode.decode().lstrip("0") or "0", sha.decode(), stage.decode()))
            res["git"] = ",".join(items) or "_"
            res["giterr"] = g.stderr.decode("latin1")[:200]
            res["gitrc"] = g.returncode
            dbg = _git(["ls-files", "--debug", "-z"], d).stdout
            res["gitdebug"] = dbg.decode("latin1")[:20000]
        return res
    finally:
        shutil.rmtree(d, ignore_errors=True)


def git_index(req):
    """let git write an index, read it with dulwich"""
    d = tempfile.mkdtemp(prefix="verif-index-", dir=os.environ.get("VERIF_SCRATCH") or None)
    try:
        _git(["init", "-q", d], "/")
        info = b"".join(b"%s %s %d\t%s\n" % (m.encode(), s.encode(), int(st), R(n)) for (n, m, s, st) in req["items"])
        r = _git(["update-index", "--index-version", str(req["v"]), "--index-info"], d, input=info)
        if r.returncode:
            return {"giterr": r.stderr.decode("latin1")[:200]}
        for n in req.get("skip", []):
            _git(["update-index", "--skip-worktree", "--", os.fsdecode(R(n))], d)
        # what git itself marked (it refuses paths that a directory/file conflict replaced, and unmerged ones)
        marked = sorted(hx(rec[2:]) for rec in _git(["ls-files", "-t", "-z"], d).stdout.split(b"\0") if rec[:2] in (b"S ", b"s "))
        listed = _git(["ls-files", "--stage", "-z"], d).stdout
        want = []
        for rec in listed.split(b"\0"):
            if rec:
                meta, _, name = rec.partition(b"\t")
                mode, sha, stage = meta.split(b" ")
                want.append("%s:%s:%s:%s" % (hx(name), mode.decode().lstrip("0") or "0", sha.decode(), stage.decode()))
        path = os.path.join(d, ".git", "index")
        data = open(path, "rb").read()
        try:
            with open(path, "rb") as f:
                ents = list(I.read_index(f))
            got = ["%s:%o:%s:%d" % (hx(e.name), e.mode, e.sha.decode(), (e.flags >> 12) & 3) for e in ents]
            idx = I.Index(path)
            skipped = sorted(hx(k) for k, v in idx.items() if isinstance(v, I.IndexEntry) and v.extended_flags & 0x4000)
        except Exception as ex:
            return {"exc": type(ex).__name__ + ":" + str(ex)[:100], "file": hx(data)[:4000], "want": ",".join(want)}
        return {"got": ",".join(got) or "_", "want": ",".join(want) or "_", "file": hx(data), "skipped": skipped, "git_skipped": marked}
    finally:
        shutil.rmtree(d, ignore_errors=True)


from impl_C11_ext import ext_sweep

HANDLERS = dict(entry=entry, read_entry=read_entry, helpers=helpers, index_file=index_file, git_index=git_index, ext_sweep=ext_sweep)
