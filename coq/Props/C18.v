(* Props/C18.v — work-tree round trip and exact status.  Property theorems only. *)
From DV Require Import Status StatusP.

(* the unstaged check reports exactly the tracked paths whose work-tree file is
   missing or differs from the index entry in content or (with core.filemode) in
   mode — for every index, every work tree, provided an unchanged stat signature
   means an unchanged file (the stat-cache assumption git makes too); a
   directory standing where a file is tracked counts as a difference *)
Theorem unstaged_is_exact : forall fm (i : index) (w : worktree) p x,
  i p = Some x ->
  (forall y, w p = Some y -> sig_faithful x y) ->
  unstaged fm i w p = differs fm x (w p).
Proof. intros fm i w p x E H. unfold unstaged. rewrite E. apply check_entry_exact. exact H. Qed.
Print Assumptions unstaged_is_exact.

(* immediately after a checkout nothing is staged, unstaged or untracked *)
Theorem clean_after_checkout : forall fm t sigs p,
  let i := fst (checkout t sigs) in let w := snd (checkout t sigs) in
  staged_add t i p = false /\ staged_delete t i p = false /\ staged_modify t i p = false /\
  unstaged fm i w p = false /\ untracked i w p = false.
Proof. intros fm t sigs p. exact (clean_after_checkout_lemma fm t sigs p). Qed.
Print Assumptions clean_after_checkout.

(* checking a tree out and staging everything gives back the tree *)
Theorem checkout_then_stage_is_identity : forall t sigs p, index_tree (add_all (snd (checkout t sigs))) p = t p.
Proof. exact restage_same_tree. Qed.
Print Assumptions checkout_then_stage_is_identity.

(* ---------- the session as a state machine (Model/StatusSession.v) ---------- *)
From DV Require Import StatusSession StatusSessionP.

(* after ANY sequence of work-tree edits (write, mkdir, delete) and index edits
   (add one path, add everything that is dirty, rm --cached, unstage), starting
   from any state that honours the stat-cache discipline -- the state right after
   a checkout does -- and provided no step is a racy write (ok_run: a write that
   leaves the recorded signature unchanged left the content unchanged),
   porcelain.status is exact: a path is listed as staged iff HEAD and the index
   differ there, as unstaged iff it is tracked and the work tree differs from the
   index entry (content; mode under core.filemode; missing; a directory in its
   place), as untracked iff it is a file the index does not know *)
Theorem status_exact_after_any_session : forall fm ops s0,
  Faithful s0 -> ok_run fm s0 ops ->
  let s := run fm s0 ops in
  forall p,
    (staged s p = true <-> hd s p <> index_tree (ix s) p) /\
    st_unstaged fm s p = match ix s p with Some x => differs fm x (wt s p) | None => false end /\
    (st_untracked s p = true <-> ix s p = None /\ exists y, wt s p = Some y /\ w_isdir y = false).
Proof. exact status_exact_lemma. Qed.
Print Assumptions status_exact_after_any_session.

(* the hypothesis is met by every checkout, and kept by every non-racy step *)
Theorem checkout_state_is_faithful : forall t sigs, Faithful (after_checkout t sigs).
Proof. exact checkout_faithful. Qed.
Print Assumptions checkout_state_is_faithful.

Theorem session_keeps_stat_cache_discipline : forall fm ops s, Faithful s -> ok_run fm s ops -> Faithful (run fm s ops).
Proof. exact run_faithful. Qed.
Print Assumptions session_keeps_stat_cache_discipline.

(* staging a path makes it clean *)
Theorem staging_a_path_cleans_it : forall fm s p,
  let s' := step fm s (OStage p) in st_unstaged fm s' p = false /\ st_untracked s' p = false.
Proof. exact stage_cleans. Qed.
Print Assumptions staging_a_path_cleans_it.
