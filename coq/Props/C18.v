(* Props/C18.v — work-tree round trip and exact status.  Property theorems only. *)
From DV Require Import Status StatusP.

(* the unstaged check reports exactly the tracked paths whose work-tree file is
   missing or differs from the index entry in content or (with core.filemode) in
   mode — for every index, every work tree, provided an unchanged stat signature
   means an unchanged file (the stat-cache assumption git makes too) and no
   directory stands where a file is tracked *)
Theorem unstaged_is_exact : forall fm (i : index) (w : worktree) p x,
  i p = Some x ->
  (forall y, w p = Some y -> w_isdir y = false /\ sig_faithful x y) ->
  unstaged fm i w p = differs fm x (w p).
Proof. intros fm i w p x E H. unfold unstaged. rewrite E. apply check_entry_exact. exact H. Qed.
Print Assumptions unstaged_is_exact.

(* immediately after a checkout nothing is staged, unstaged or untracked *)
Theorem clean_after_checkout : forall fm t sigs p,
  let i := fst (checkout t sigs) in let w := snd (checkout t sigs) in
  staged_add t i p = false /\ staged_delete t i p = false /\ staged_modify t i p = false /\
  unstaged fm i w p = false /\ untracked i w p = false.
Proof. intros fm t sigs p. exact (clean_after_checkout_lemma fm t sigs p). Qed.
Print Assumptions clean_after_checkout.

(* checking a tree out and staging everything gives back the tree *)
Theorem checkout_then_stage_is_identity : forall t sigs p, index_tree (add_all (snd (checkout t sigs))) p = t p.
Proof. exact restage_same_tree. Qed.
Print Assumptions checkout_then_stage_is_identity.
