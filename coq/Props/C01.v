(* Props/C01.v — object ids and serialisation.  Property theorems only. *)
From DV Require Import Bytes RustTwins Objects ObjectsP.

(* the id (and the raw bytes) observed after any sequence of field edits,
   raw-content replacements and observations always belong to the current field
   values: the _needs_serialization / _chunked_text / _sha cache is coherent *)
Theorem id_is_hash_of_current_fields : forall ops,
  Forall (fun p => fst p = snd p) (crun cache_init ops).
Proof. exact id_is_hash_of_current_fields_lemma. Qed.
Print Assumptions id_is_hash_of_current_fields.

(* commit / tag text: any list of headers (multi-line values folded with a
   leading space: mergetag, gpgsig, extra headers) and any body read back as
   the same headers in the same order and the same body *)
Theorem message_roundtrip : forall hs body,
  Forall (fun h => key_ok (fst h)) hs ->
  parse_message (format_message hs body) =
  map (fun h => PHeader (fst h) (snd h)) hs ++ [PBody (Some (match body with Some b => b | None => [] end))].
Proof. exact message_roundtrip_lemma. Qed.
Print Assumptions message_roundtrip.

(* trees: entries written with "%04o" modes are read back unchanged by
   parse_tree (either twin, see C15), for every name without NUL, every 32-bit
   mode and both id lengths *)
Theorem tree_roundtrip : forall sha_len es fuel,
  Forall (entry_ok sha_len) es -> (length es < fuel)%nat ->
  py_parse_tree fuel sha_len false (serialize_tree es) = Some es.
Proof. exact tree_roundtrip_lemma. Qed.
Print Assumptions tree_roundtrip.
