(* Props/C01.v — object ids and serialisation.  Property theorems only. *)
From DV Require Import Bytes RustTwins Objects ObjectsP.

(* the id (and the raw bytes) observed after any sequence of field edits,
   raw-content replacements and observations always belong to the current field
   values: the _needs_serialization / _chunked_text / _sha cache is coherent *)
Theorem id_is_hash_of_current_fields : forall ops,
  Forall (fun p => fst p = snd p) (crun cache_init ops).
Proof. exact id_is_hash_of_current_fields_lemma. Qed.
Print Assumptions id_is_hash_of_current_fields.

(* commit / tag text: any list of headers (multi-line values folded with a
   leading space: mergetag, gpgsig, extra headers) and any body read back as
   the same headers in the same order and the same body *)
Theorem message_roundtrip : forall hs body,
  Forall (fun h => key_ok (fst h)) hs ->
  parse_message (format_message hs body) =
  map (fun h => PHeader (fst h) (snd h)) hs ++ [PBody (Some (match body with Some b => b | None => [] end))].
Proof. exact message_roundtrip_lemma. Qed.
Print Assumptions message_roundtrip.

(* trees: entries written with "%04o" modes are read back unchanged by
   parse_tree (either twin, see C15), for every name without NUL, every 32-bit
   mode and both id lengths *)
Theorem tree_roundtrip : forall sha_len es fuel,
  Forall (entry_ok sha_len) es -> (length es < fuel)%nat ->
  py_parse_tree fuel sha_len false (serialize_tree es) = Some es.
Proof. exact tree_roundtrip_lemma. Qed.
Print Assumptions tree_roundtrip.

(* ---------- author / committer / tagger lines (Model/TimeEntry.v) ---------- *)
From DV Require Import TimeEntry TimeEntryP.

(* every time zone git emits — a whole number of minutes, with "-0000" as the
   only use of the minus sign on a non-negative offset — is written and read back
   unchanged, whatever its size *)
Theorem timezone_roundtrip_git_spellings : forall offset neg, offset mod 60 = 0 -> (neg = true -> offset = 0) ->
  exists t, format_timezone offset neg = Some t /\ parse_timezone t = Some (offset, neg).
Proof. intros offset neg M N. destruct (timezone_roundtrip offset neg M N) as (t & F & P & _). eauto. Qed.
Print Assumptions timezone_roundtrip_git_spellings.

(* and so is the whole line: an identity ending in '>', any time stamp (negative,
   beyond 2^32), any such zone *)
Theorem time_entry_line_roundtrip : forall p time tz neg, tz mod 60 = 0 -> (neg = true -> tz = 0) ->
  exists v, format_time_entry (p ++ [GT]) time tz neg = Some v /\ parse_time_entry v = TOk (p ++ [GT]) time tz neg.
Proof. exact time_entry_roundtrip. Qed.
Print Assumptions time_entry_line_roundtrip.

(* outside git's spellings the minus flag on a positive offset that is no multiple
   of half an hour does not survive ("--" zones come only from broken commits) *)
Example minus_flag_on_one_minute_is_lost :
  format_timezone 60 true = Some [45; 48; 48; 53; 57] /\ parse_timezone [45; 48; 48; 53; 57] = Some (-3540, false).
Proof. vm_compute. split; reflexivity. Qed.
