(* Props/C10.v — maintenance never loses reachable objects.  Property theorems only. *)
From DV Require Import Gc GcP.

(* find_reachable_objects: whatever order references are met in, the marked set
   is exactly the set of objects reachable from the ref values *)
Theorem reachable_set_is_exact : forall deps roots fuel R,
  find_reachable deps fuel roots = Some R -> forall o, In o R <-> reachable deps roots o.
Proof. exact find_reachable_exact. Qed.
Print Assumptions reachable_set_is_exact.

(* prune / garbage_collect remove a subset of what is stored, unmarked and old
   enough: every stored reachable object survives, and whatever disappears was
   unreachable and older than the grace period *)
Theorem gc_keeps_everything_reachable : forall deps roots fuel R stored old_enough to_prune,
  find_reachable deps fuel roots = Some R ->
  (forall o, In o to_prune -> In o (prunable stored R old_enough)) ->
  (forall o, In o stored -> reachable deps roots o -> In o (after_gc stored to_prune)) /\
  (forall o, In o stored -> ~ In o (after_gc stored to_prune) -> ~ reachable deps roots o /\ old_enough o = true).
Proof. exact gc_removes_only_unreachable. Qed.
Print Assumptions gc_keeps_everything_reachable.

Example reach_instance :
  let deps := fun o => match o with 5 => [4; 2] | 4 => [3] | 2 => [1] | _ => [] end in
  find_reachable deps 10 [5; 2] = Some [3; 1; 4; 2; 5].
Proof. vm_compute. reflexivity. Qed.
