(* Props/C10.v — maintenance never loses reachable objects.  Property theorems only. *)
From DV Require Import Gc GcP.

(* find_reachable_objects: whatever order references are met in, the marked set
   is exactly the set of objects reachable from the ref values *)
Theorem reachable_set_is_exact : forall deps roots fuel R,
  find_reachable deps fuel roots = Some R -> forall o, In o R <-> reachable deps roots o.
Proof. exact find_reachable_exact. Qed.
Print Assumptions reachable_set_is_exact.

(* prune / garbage_collect remove a subset of what is stored, unmarked and old
   enough: every stored reachable object survives, and whatever disappears was
   unreachable and older than the grace period *)
Theorem gc_keeps_everything_reachable : forall deps roots fuel R stored old_enough to_prune,
  find_reachable deps fuel roots = Some R ->
  (forall o, In o to_prune -> In o (prunable stored R old_enough)) ->
  (forall o, In o stored -> reachable deps roots o -> In o (after_gc stored to_prune)) /\
  (forall o, In o stored -> ~ In o (after_gc stored to_prune) -> ~ reachable deps roots o /\ old_enough o = true).
Proof. exact gc_removes_only_unreachable. Qed.
Print Assumptions gc_keeps_everything_reachable.

Example reach_instance :
  let deps := fun o => match o with 5 => [4; 2] | 4 => [3] | 2 => [1] | _ => [] end in
  find_reachable deps 10 [5; 2] = Some [3; 1; 4; 2; 5].
Proof. vm_compute. reflexivity. Qed.

(* ---------- a lookup racing a maintenance process (Model/PackLookup.v) ---------- *)
From DV Require Import PackLookup PackLookupP.

(* PackBasedObjectStore.get_raw for an object that exists throughout (as a loose file or in
   a pack present), interleaved step by step -- every probe of a cached pack, every reading
   of the pack directory, the look at the loose file -- with a maintenance process that adds
   packs and then deletes packs and loose files without ever deleting the last copy: whatever
   the reader had cached or opened before (stale entries included), whatever the order of the
   steps, the lookup does not answer "missing" *)
Theorem lookup_never_misses_during_a_repack : forall content o d c io do evs,
  exists_o content o d = true ->
  let '(_, r', _) := run content o true d (start c io do) evs in ctl r' <> Missing.
Proof. exact lookup_never_misses_lemma. Qed.
Print Assumptions lookup_never_misses_during_a_repack.

(* "adds, then deletes" cannot be dropped: when a second maintenance run starts adding
   before the lookup is over, three attempts are not enough *)
Theorem lookup_during_two_repacks_refuted :
  exists content o d c evs,
    exists_o content o d = true /\
    let '(_, r', bad) := run content o false d (start c [] []) evs in ctl r' = Missing /\ bad = false.
Proof. exact two_repacks_starve_the_lookup. Qed.
Print Assumptions lookup_during_two_repacks_refuted.
