(* Props/C04.v — hostile delta graphs are contained.  Property theorems only. *)
From DV Require Import DeltaGraph DeltaGraphP.

(* resolving the entries of a pack always terminates within [length es]
   iterations, whatever the base pointers are (self references, cycles, bases
   that are no entry of the pack) *)
Theorem delta_resolution_terminates : forall es, resolve es <> None.
Proof. exact resolve_total. Qed.
Print Assumptions delta_resolution_terminates.

(* it succeeds exactly when every entry's chain of bases ends in a full object,
   and then every entry is resolved; otherwise some entry has a chain that never
   does (a delta to itself, a cycle, a missing base) and the pack is refused *)
Theorem delta_resolution_exact : forall es,
  (forall r, resolve es = Some (Some r) ->
     (forall i, i < length es -> exists k, reaches es k i = true) /\ (forall i, In i r <-> i < length es)) /\
  (resolve es = Some None -> exists i, i < length es /\ forall k, reaches es k i = false).
Proof. exact resolve_exact. Qed.
Print Assumptions delta_resolution_exact.

Example cyclic_and_self_referencing_deltas_refused :
  resolve [EFull; EDelta 0; EDelta 2; EDelta 4; EDelta 3; EDelta 9] = Some None /\
  resolve [EFull; EDelta 0; EDelta 1; EDelta 1] = Some (Some [3; 2; 1; 0]).
Proof. vm_compute. auto. Qed.

(* reading one entry of an installed pack (Pack.resolve_object) walks down the
   chain of bases at most [length es] times whatever the base pointers and the
   index say: a chain that revisits an entry is refused instead of followed *)
Theorem delta_read_terminates : forall es i, read_entry es i <> None.
Proof. exact read_entry_total. Qed.
Print Assumptions delta_read_terminates.

(* and it yields the object exactly when the chain of bases ends in a full object *)
Theorem delta_read_exact : forall es i,
  (exists d, read_entry es i = Some (Some d)) <-> exists k, reaches es k i = true.
Proof. exact read_entry_exact. Qed.
Print Assumptions delta_read_exact.

Example cyclic_chain_is_refused_on_read :
  read_entry [EDelta 1; EDelta 0; EFull; EDelta 2; EDelta 3; EDelta 7] 0 = Some None /\
  read_entry [EDelta 1; EDelta 0; EFull; EDelta 2; EDelta 3; EDelta 7] 4 = Some (Some 2) /\
  read_entry [EDelta 1; EDelta 0; EFull; EDelta 2; EDelta 3; EDelta 7] 5 = Some None.
Proof. vm_compute. auto. Qed.

(* ---------- completing a thin pack (Model/ThinPack.v) ---------- *)
From DV Require Import ThinPack ThinPackP.

(* a thin pack whose entries have distinct names and that is resolved completely -- whatever its deltas name as
   bases: other entries, objects only the receiver has, objects the receiver has and the pack holds too -- is
   completed (entries, then the objects extend_pack appends) without holding any object twice *)
Theorem completed_thin_pack_has_no_duplicates : forall store order es,
  NoDup (map fst es) ->
  let s := complete true store order es in
  (forall n, In n (map fst es) -> In n (prod s)) ->
  NoDup (completed_names es s).
Proof. exact completed_pack_has_no_duplicates_lemma. Qed.
Print Assumptions completed_thin_pack_has_no_duplicates.

(* without taking a resolved entry off the list of external bases (the code before its repair): P is a delta on
   Q, Q a delta on an outside X, the receiver has Q and X, Q sorts first -- the completed pack holds Q twice *)
Theorem completion_without_dedupe_refuted :
  let s := complete false ex_store [1; 5] ex_entries in
  (forall n, In n (map fst ex_entries) -> In n (prod s)) /\ completed_names ex_entries s = [1; 2; 5; 1].
Proof. exact without_the_repair_a_duplicate. Qed.
Print Assumptions completion_without_dedupe_refuted.
