(* Props/C06.v — push status and server refs.  Property theorems only. *)
From DV Require Import Bytes Receive ReceiveP.

(* non-atomic push over distinct refs: a ref reported ok holds the requested
   value and its old value matched; a ref not reported ok is untouched; refs not
   named are untouched *)
Theorem status_truthful : forall objs cs m m' ss,
  NoDup (map c_ref cs) -> run_plain objs m cs = (m', ss) ->
  length ss = length cs /\
  (forall q, ~ In q (map c_ref cs) -> rget q m' = rget q m) /\
  Forall2 (fun c s => (s = SOk -> requested c m' = true /\ cur m (c_ref c) = c_old c) /\
                      (s <> SOk -> rget (c_ref c) m' = rget (c_ref c) m)) cs ss.
Proof. exact run_plain_spec. Qed.
Print Assumptions status_truthful.

(* atomic push: every update applied and reported ok, or none applied and none reported ok *)
Theorem atomic_all_or_none : forall objs m cs m' ss,
  NoDup (map c_ref cs) -> run_atomic objs m cs = (m', ss) ->
  (Forall (fun s => s = SOk) ss /\ (forall c, In c cs -> requested c m' = true) /\ length ss = length cs)
  \/ (Forall (fun s => s <> SOk) ss /\ m' = m /\ length ss = length cs).
Proof. exact atomic_all_or_none_lemma. Qed.
Print Assumptions atomic_all_or_none.

(* the server never ends up with a ref naming an object it does not have *)
Theorem refs_stay_valid : forall atomic objs m cs m' ss,
  NoDup (map c_ref cs) -> valid objs m -> apply_pack atomic objs m cs = (m', ss) -> valid objs m'.
Proof. exact refs_stay_valid_lemma. Qed.
Print Assumptions refs_stay_valid.

(* ---------- the status report on the wire (Model/ReportStatus.v) ---------- *)
From DV Require Import Bytes PackedFile Caps CapsP ReportStatus ReportStatusP.

(* what ReceivePackHandler._report_status writes for an unpack result and a list of ref statuses is read back by the
   client's ReportStatusParser as exactly that list — for ref names without white space and NUL, and messages that are not
   empty, hold no line feed and neither start nor end with white space (every message dulwich's server produces) *)
Theorem status_report_roundtrip : forall unpack refs,
  msg_ok unpack = true -> Forall entry_ok refs ->
  parse_report (report unpack refs) = Some (UNPACK_ ++ [SP] ++ unpack, refs).
Proof. exact report_roundtrip_lemma. Qed.
Print Assumptions status_report_roundtrip.

(* the side condition on messages is needed: an "ng" line whose message is empty makes check() raise ValueError *)
Theorem empty_failure_message_roundtrip_refuted : forall ref,
  clean ref /\ ref <> [] -> parse_status (status_line ref (Some [])) = PCrash.
Proof. exact ng_without_message_crashes. Qed.
Print Assumptions empty_failure_message_roundtrip_refuted.
