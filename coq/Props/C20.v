(* Props/C20.v — configuration value / subsection codecs.  Property theorems only. *)
From DV Require Import Bytes Config ConfigP.

(* what write_to_file emits for a value (after the '='), read by dulwich's
   _parse_string, gives the value back — for every byte string: blanks at either
   end, quotes, backslashes, both comment characters, LF, CR, tabs, VT/FF *)
Theorem value_roundtrip : forall v, parse_string (value_part v) = Some v.
Proof. exact value_roundtrip_lemma. Qed.
Print Assumptions value_roundtrip.

(* ... and read by git's own parse_value (transcribed from config.c 2.39,
   CRLF folding included) gives the same value *)
Theorem git_reads_dulwich : forall v, git_parse_value (value_part v) = Some v.
Proof. exact git_reads_dulwich_lemma. Qed.
Print Assumptions git_reads_dulwich.

(* subsection names: every name the writer accepts is read back unchanged *)
Theorem subsection_roundtrip : forall n e, escape_subsection n = Some e -> unescape_subsection e = n.
Proof. exact subsection_roundtrip_lemma. Qed.
Print Assumptions subsection_roundtrip.

(* the case-insensitive multi-valued dictionary behind every section: for every
   sequence of add / set / delete the lookup cache agrees with the ordered list
   of pairs (what items() and the writer emit) *)
From DV Require Import ConfigDictP.
Theorem multidict_coherent : forall ops k,
  md_getitem (md_run ops) k = last_val (lower k) (md_real (md_run ops)).
Proof. exact multidict_coherent_lemma. Qed.
Print Assumptions multidict_coherent.

(* deleting a key removes all of its values and nothing else, in any state *)
Theorem multidict_delete : forall s k q,
  md_get_all (fst (md_step s (MDel k))) q =
  if snd (md_step s (MDel k)) then md_get_all s q
  else if bytes_beq (lower q) (lower k) then [] else md_get_all s q.
Proof. exact multidict_delete_lemma. Qed.
Print Assumptions multidict_delete.
