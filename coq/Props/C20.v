(* Props/C20.v — configuration value / subsection codecs.  Property theorems only. *)
From DV Require Import Bytes Config ConfigP.

(* what write_to_file emits for a value (after the '='), read by dulwich's
   _parse_string, gives the value back — for every byte string: blanks at either
   end, quotes, backslashes, both comment characters, LF, CR, tabs, VT/FF *)
Theorem value_roundtrip : forall v, parse_string (value_part v) = Some v.
Proof. exact value_roundtrip_lemma. Qed.
Print Assumptions value_roundtrip.

(* ... and read by git's own parse_value (transcribed from config.c 2.39,
   CRLF folding included) gives the same value *)
Theorem git_reads_dulwich : forall v, git_parse_value (value_part v) = Some v.
Proof. exact git_reads_dulwich_lemma. Qed.
Print Assumptions git_reads_dulwich.

(* subsection names: every name the writer accepts is read back unchanged *)
Theorem subsection_roundtrip : forall n e, escape_subsection n = Some e -> unescape_subsection e = n.
Proof. exact subsection_roundtrip_lemma. Qed.
Print Assumptions subsection_roundtrip.
