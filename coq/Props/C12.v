(* Props/C12.v — tree diff, flattening and lookup are mutually consistent.
   Property theorems only. *)
From DV Require Import Bytes RustTwins RustTwinsP TreeDiff TreeDiffP.

(* one directory level (_merge_entries): every name of either directory is paired
   exactly once, in increasing order, with the entries the two directories hold *)
Theorem merge_pairs_each_name_once : forall l1 l2, sortedb l1 = true -> sortedb l2 = true ->
  Forall (fun p => fst p = find (pair_name p) l1 /\ snd p = find (pair_name p) l2 /\ (fst p <> None \/ snd p <> None)) (merge l1 l2) /\
  sorted_pairs (merge l1 l2) /\
  (forall n, (find n l1 <> None \/ find n l2 <> None) -> In n (map pair_name (merge l1 l2))).
Proof. intros l1 l2 H1 H2. apply merge_ok; apply sortedb_sorted; assumption. Qed.
Print Assumptions merge_pairs_each_name_once.

(* tree_changes between two trees of one store (any depth within the fuel, any
   well-formed contents): a path is mentioned iff the file found there differs,
   and the change carries the old and the new file *)
Theorem diff_sound_and_complete : forall st f t1 t2,
  wfb f st (root t1) = true -> wfb f st (root t2) = true ->
  forall q o n, In (q, o, n) (tree_delta f st (root t1, root t2)) <->
                (o = look st (root t1) q /\ n = look st (root t2) q /\ o <> n).
Proof. intros st f t1 t2 W1 W2. apply diff_exact_l; [exact W1|exact W2|reflexivity]. Qed.
Print Assumptions diff_sound_and_complete.

Theorem diff_paths_unique : forall st f t1 t2,
  wfb f st (root t1) = true -> wfb f st (root t2) = true ->
  NoDup (map (fun d => fst (fst d)) (tree_delta f st (root t1, root t2))).
Proof. intros st f t1 t2 W1 W2. apply diff_paths_unique_l; [exact W1|exact W2|reflexivity]. Qed.
Print Assumptions diff_paths_unique.

(* applying the change list to the first tree's flat listing gives exactly the second's *)
Theorem diff_applies : forall st f t1 t2,
  wfb f st (root t1) = true -> wfb f st (root t2) = true ->
  forall q, patched f st (root t1, root t2) q = look st (root t2) q.
Proof. intros st f t1 t2 W1 W2. apply diff_applies_l; [exact W1|exact W2|reflexivity]. Qed.
Print Assumptions diff_applies.

(* iter_tree_contents yields exactly the (path, file) pairs that path lookup finds *)
Theorem flatten_is_lookup : forall st f e, wfb f st (Some e) = true ->
  forall q lf, In (q, lf) (flatten f st e) <-> look st (Some e) q = Some lf.
Proof. intros st f e W. apply flatten_spec. apply wfb_wft. exact W. Qed.
Print Assumptions flatten_is_lookup.

(* the order in which entries are serialised (key_entry) is git's base_name_compare
   (common prefix, then one byte with "/" standing in for the end of a directory
   name) on names without NUL and "/", which is every name git itself allows *)
Theorem canonical_order_is_gits : forall a b, plain (fst a) -> plain (fst b) -> py_tree_cmp a b = rs_tree_cmp_one_byte a b.
Proof. exact tree_order_one_byte_lemma. Qed.
Print Assumptions canonical_order_is_gits.

(* the hypotheses are satisfiable by a tree with a file/directory ordering conflict *)
Example wf_nonvacuous :
  let f := {| t_name := [97; 46; 98]; t_mode := 33188; t_id := [1] |} in
  let d := {| t_name := [97]; t_mode := 16384; t_id := [2] |} in
  let g := {| t_name := [98]; t_mode := 33188; t_id := [3] |} in
  let st := st_of [([9], [d; f]); ([2], [g]); ([8], [f])] in
  wfb 3 st (root [9]) = true /\ wfb 3 st (root [8]) = true /\
  length (tree_delta 3 st (root [9], root [8])) = 1%nat.
Proof. vm_compute. auto. Qed.

(* ---------- commit_tree (Model/TreeBuild.v) ---------- *)
From DV Require Import TreeBuild TreeBuildP.

(* for every listing in which no path is also a directory of another one, of any
   depth and width, and every collision-free way of naming trees: looking a path
   up in the tree commit_tree builds finds exactly what the listing holds for it *)
Theorem build_then_lookup_is_the_listing : forall (H : list tent -> bytes), (forall a b, H a = H b -> a = b) ->
  forall L, validb L = true ->
  let r := commit_tree H (depth L) L in
  forall q, q <> [] -> look (store_of H (snd r)) (root (fst r)) q = lookupL q L.
Proof.
  intros H Hi L V r q NE. destruct (validb_ok L V) as [OK N].
  apply (commit_tree_lookup H Hi (depth L) L OK); [|exact NE].
  intros q0 v I. split; [eapply N; eauto|eapply depth_bound; eauto].
Qed.
Print Assumptions build_then_lookup_is_the_listing.

(* and flattening it (iter_tree_contents) gives the listing back: build and flatten are inverse *)
Theorem build_then_flatten_is_the_listing : forall (H : list tent -> bytes), (forall a b, H a = H b -> a = b) ->
  forall L, validb L = true ->
  let r := commit_tree H (depth L) L in
  forall q lf, In (q, lf) (flatten (depth L) (store_of H (snd r)) {| t_name := []; t_mode := 16384; t_id := fst r |}) <-> In (q, lf) L.
Proof. intros H Hi L V. exact (commit_tree_flatten H Hi L V). Qed.
Print Assumptions build_then_flatten_is_the_listing.

Example a_listing_in_the_domain :
  validb [([[97]], (33188, [1])); ([[98]; [99]], (33261, [2])); ([[98]; [100]; [101]], (40960, [3])); ([[98; 46]], (57344, [4]))] = true.
Proof. vm_compute. reflexivity. Qed.
