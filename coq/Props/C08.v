(* Props/C08.v — ref updates are atomic compare-and-swap; commits are never lost.
   Property theorems only.  Every statement is about every list of operations
   (one per actor) and every interleaving of their steps. *)
From DV Require Import RefCas RefCasP.

(* the ref changes only in a write made while holding the lock, and the value
   replaced is the one the operation was conditioned on: an update conditioned
   on an old value succeeds only if that value is current at that moment *)
Theorem update_is_compare_and_swap : forall r0 l sched i,
  let s := run (init r0 l) sched in
  ref (step s i) <> ref s \/ hist (step s i) <> hist s ->
  a_pc (acts s i) = PWrite /\ lock s = Some i /\ cond (acts s i) (ref s) = true.
Proof. intros r0 l sched i s. apply write_is_atomic. apply run_inv. apply init_inv. Qed.
Print Assumptions update_is_compare_and_swap.

(* at most one actor is between locking and unlocking *)
Theorem ref_lock_is_exclusive : forall r0 l sched i j,
  let s := run (init r0 l) sched in
  holds_lock (a_pc (acts s i)) = true -> holds_lock (a_pc (acts s j)) = true -> i = j.
Proof. intros r0 l sched i j s. apply mutex_lemma. apply run_inv. apply init_inv. Qed.
Print Assumptions ref_lock_is_exclusive.

(* several actors committing on one branch (readers alongside): the values the
   branch has held form a chain in which each commit's parent is the value it
   replaced, the branch points at the newest, and every commit reported as
   successful is in that chain *)
Theorem no_commit_is_lost : forall r0 l sched, Forall commit_or_read l ->
  let s := run (init r0 l) sched in
  linked (parent s) (hist s) /\ ref s = hd None (hist s) /\
  forall i c, a_kind (acts s i) = KCommit c -> a_pc (acts s i) = PDone RTrue -> In (Some c) (hist s).
Proof.
  intros r0 l sched F s.
  destruct (run_inv2 sched _ (init_inv r0 l) (init_inv2 r0 l F)) as [_ [_ L]].
  pose proof (run_inv sched _ (init_inv r0 l)) as I. fold s in I, L.
  split; [exact L|]. split; [apply (I_ref _ I)|apply (I_done _ I)].
Qed.
Print Assumptions no_commit_is_lost.

Example two_committers_one_loses :
  let s := run (init (Some 7) [KCommit 1; KCommit 2]) [0; 1; 0; 0; 0; 1; 1; 1]%nat in
  ref s = Some 1 /\ a_pc (acts s 0%nat) = PDone RTrue /\ a_pc (acts s 1%nat) = PDone RFalse /\
  hist s = [Some 1; Some 7].
Proof. vm_compute. auto. Qed.

(* ---------- the same ref stored as a loose file and/or an entry of packed-refs,
   with any number of concurrent pack_refs (Model/PackedRefs.v) ---------- *)
From DV Require PackedRefs PackedRefsP.
Module Packed.
Import PackedRefs PackedRefsP.

(* with writers whose new values are new (every commit id is) and no deleter:
   whatever the interleaving, a step of pack_refs — locking packed-refs, reading
   the ref, rewriting packed-refs, pruning the loose file — never changes the
   value a reader of the ref finds *)
Theorem pack_refs_never_changes_a_ref : forall l0 p0 l sched i, fresh l0 p0 l ->
  let s := run (init l0 p0 l) sched in
  a_kind (acts s i) = KPack -> visible (step s i) = visible s.
Proof.
  intros l0 p0 l sched i F s K. apply step_visible; [apply run_inv; apply init_inv; exact F|].
  intros E. pose proof (K_wf _ (run_inv sched _ (init_inv _ _ _ F)) i) as W. fold s in W. rewrite K, E in W. discriminate.
Qed.
Print Assumptions pack_refs_never_changes_a_ref.

(* and the value changes only in the write of an update that holds the ref's
   lock and whose condition is true of the value at that moment; it becomes the
   value that update writes *)
Theorem update_is_compare_and_swap_with_packing : forall l0 p0 l sched i, fresh l0 p0 l ->
  let s := run (init l0 p0 l) sched in
  visible (step s i) <> visible s ->
  a_pc (acts s i) = SWrite /\ rlock s = Some i /\ cond (a_kind (acts s i)) (visible s) = true /\
  visible (step s i) = newval (a_kind (acts s i)).
Proof. intros l0 p0 l sched i F s. apply change_is_cas. apply run_inv. apply init_inv. exact F. Qed.
Print Assumptions update_is_compare_and_swap_with_packing.

(* the full statement — also with concurrent deleters — is false of the code as
   it is: remove_if_equals does not take packed-refs.lock when the ref has no
   packed entry, so a pack_refs that read the ref before the deletion writes it
   back afterwards (known finding pack-refs-resurrects-deleted-ref) *)
Theorem pack_refs_keeps_deleted_refs_deleted_refuted : exists l0 p0 l sched,
  let s := run (init l0 p0 l) sched in
  news l = [] /\ (forall i, exists r, a_pc (acts s i) = PEnd r) /\
  a_kind (acts s 1%nat) = KDel 7 /\ a_pc (acts s 1%nat) = PEnd RTrue /\ visible s = Some 7.
Proof.
  exists (Some 7), None, [KPack; KDel 7], [0; 0; 1; 1; 1; 1; 1; 0; 0; 0; 0]%nat.
  vm_compute. repeat split; try reflexivity.
  intros [|[|[|i]]]; eexists; reflexivity.
Qed.
Print Assumptions pack_refs_keeps_deleted_refs_deleted_refuted.

Example hypotheses_are_satisfiable : fresh (Some 0) (Some 0) [KPack; KSet 1; KPack; KCas 0 2; KRead].
Proof. repeat split; try reflexivity; [repeat constructor; cbn; intuition discriminate|..]; cbn in H; intuition (subst; discriminate). Qed.

(* two pack_refs and a writer: the schedule that used to bring back the older value *)
Example two_packers_and_a_writer :
  let s := run (init None (Some 0) [KPack; KSet 1; KPack]) [0; 0; 1; 1; 1; 0; 2; 2; 2; 2; 2; 2; 0; 0; 0]%nat in
  visible s = Some 1.
Proof. vm_compute. reflexivity. Qed.
End Packed.
