(* Props/C08.v — ref updates are atomic compare-and-swap; commits are never lost.
   Property theorems only.  Every statement is about every list of operations
   (one per actor) and every interleaving of their steps. *)
From DV Require Import RefCas RefCasP.

(* the ref changes only in a write made while holding the lock, and the value
   replaced is the one the operation was conditioned on: an update conditioned
   on an old value succeeds only if that value is current at that moment *)
Theorem update_is_compare_and_swap : forall r0 l sched i,
  let s := run (init r0 l) sched in
  ref (step s i) <> ref s \/ hist (step s i) <> hist s ->
  a_pc (acts s i) = PWrite /\ lock s = Some i /\ cond (acts s i) (ref s) = true.
Proof. intros r0 l sched i s. apply write_is_atomic. apply run_inv. apply init_inv. Qed.
Print Assumptions update_is_compare_and_swap.

(* at most one actor is between locking and unlocking *)
Theorem ref_lock_is_exclusive : forall r0 l sched i j,
  let s := run (init r0 l) sched in
  holds_lock (a_pc (acts s i)) = true -> holds_lock (a_pc (acts s j)) = true -> i = j.
Proof. intros r0 l sched i j s. apply mutex_lemma. apply run_inv. apply init_inv. Qed.
Print Assumptions ref_lock_is_exclusive.

(* several actors committing on one branch (readers alongside): the values the
   branch has held form a chain in which each commit's parent is the value it
   replaced, the branch points at the newest, and every commit reported as
   successful is in that chain *)
Theorem no_commit_is_lost : forall r0 l sched, Forall commit_or_read l ->
  let s := run (init r0 l) sched in
  linked (parent s) (hist s) /\ ref s = hd None (hist s) /\
  forall i c, a_kind (acts s i) = KCommit c -> a_pc (acts s i) = PDone RTrue -> In (Some c) (hist s).
Proof.
  intros r0 l sched F s.
  destruct (run_inv2 sched _ (init_inv r0 l) (init_inv2 r0 l F)) as [_ [_ L]].
  pose proof (run_inv sched _ (init_inv r0 l)) as I. fold s in I, L.
  split; [exact L|]. split; [apply (I_ref _ I)|apply (I_done _ I)].
Qed.
Print Assumptions no_commit_is_lost.

Example two_committers_one_loses :
  let s := run (init (Some 7) [KCommit 1; KCommit 2]) [0; 1; 0; 0; 0; 1; 1; 1]%nat in
  ref s = Some 1 /\ a_pc (acts s 0%nat) = PDone RTrue /\ a_pc (acts s 1%nat) = PDone RFalse /\
  hist s = [Some 1; Some 7].
Proof. vm_compute. auto. Qed.
