(* Props/C03.v — delta codec.  Property theorems only; proofs in Proofs/DeltaP.v. *)
From DV Require Import Bytes Delta DeltaP.

(* apply(create(base,target), base) = target, for every base < 4 GiB, every
   target and every opcode list that is a valid edit script (difflib's output
   is checked against valid_opcodesb on every run). *)
Theorem apply_create_py : forall base target ops,
  zlen base < 2 ^ 32 -> valid_opcodesb base target ops = true ->
  apply_py base (create_py base target ops) = DOk target.
Proof. exact apply_create_py_lemma. Qed.
Print Assumptions apply_create_py.

(* every byte string offered as a delta: success means the declared length and
   only slices of base / literal slices of the delta ... *)
Theorem apply_py_sound : forall src delta out,
  apply_py src delta = DOk out ->
  declared_dest delta = Some (zlen out) /\ Pieces src delta out.
Proof. exact apply_py_sound_lemma. Qed.
Print Assumptions apply_py_sound.

(* ... and the only other outcome is the delta error *)
Theorem apply_py_total : forall src delta,
  apply_py src delta = DErr \/ exists out, apply_py src delta = DOk out.
Proof. exact apply_py_total_lemma. Qed.
Print Assumptions apply_py_total.

(* the Rust decoder (usize arithmetic, dev-profile overflow = panic) returns
   exactly what the Python decoder returns: hence never panics, and inherits
   soundness and the round trip *)
Theorem apply_rs_eq_py : forall src delta,
  wf_bytes delta -> zlen delta < 2 ^ 40 -> zlen src < 2 ^ 64 ->
  apply_rs src delta = apply_py src delta.
Proof. exact apply_rs_eq_py_lemma. Qed.
Print Assumptions apply_rs_eq_py.

(* memory: the Rust output buffer never exceeds the declared size nor
   2^24 bytes per delta byte supplied *)
Theorem rs_alloc_bounded : forall ss f ds d outlen,
  wf_bytes d -> 0 <= outlen <= ds ->
  outlen <= alloc_rs f ss ds d outlen <= Z.min ds (outlen + 2 ^ 24 * zlen d).
Proof. exact alloc_rs_bound. Qed.
Print Assumptions rs_alloc_bounded.

(* memory: the Python loop never holds more than the declared size, nor more
   than 2^24 bytes per delta byte supplied *)
Theorem py_materialised_bounded : forall ss f ds d outlen,
  wf_bytes d -> 0 <= outlen <= ds ->
  outlen <= mat_py f ss ds d outlen <= Z.min ds (outlen + 2 ^ 24 * zlen d).
Proof. exact mat_py_bound. Qed.
Print Assumptions py_materialised_bounded.

(* ... which a loop that compares the total with the declared size only after
   the last operation does not give: n bytes of delta made it hold n * 65536
   bytes against a declared size of 65536 *)
Theorem late_size_check_is_unbounded_refuted : forall n : nat,
  mat_py_late (S n) 65536 65536 (repeat 128 n) = 65536 * Z.of_nat n.
Proof. exact mat_py_late_unbounded. Qed.
Print Assumptions late_size_check_is_unbounded_refuted.
