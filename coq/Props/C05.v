(* Props/C05.v — what the sender selects for a transfer is enough and not more.
   Property theorems only. *)
From DV Require Import Gc Mof MofP.

(* Completeness: for wants that are commits, in an object graph where only tags
   name commits or tags through their content, commits alone have parents and a
   tag names its target: whatever the receiver holds — any set R closed under
   "refers to" and containing the haves the sender knows — everything reachable
   from the wants is with the receiver already or among the objects selected *)
Theorem transfer_is_complete : forall kind_of parents cdeps,
  (forall t x, kind_of t = Some (KTag x) -> In x (cdeps t)) ->
  (forall o, parents o <> [] -> kind_of o = Some KCommit) ->
  (forall o p x, In p (parents o) -> kind_of p <> Some (KTag x)) ->
  (forall o d, In d (cdeps o) -> kind_of d = Some KCommit -> exists x, kind_of o = Some (KTag x)) ->
  (forall o d x, In d (cdeps o) -> kind_of d = Some (KTag x) -> exists y, kind_of o = Some (KTag y)) ->
  forall (R : nat -> Prop), (forall o, R o -> forall d, In d (fd parents cdeps o) -> R d) ->
  forall fuel haves wants sent,
  (forall w, In w wants -> kind_of w = Some KCommit) ->
  select kind_of parents cdeps fuel haves wants = Some sent ->
  (forall h, In h haves -> kind_of h <> None -> R h) ->
  forall w, In w wants -> forall o, reachable (fd parents cdeps) [w] o -> R o \/ In o sent.
Proof. intros kind_of parents cdeps HT Hp Hk Hc Hg R Rc fuel haves wants sent. apply select_complete; assumption. Qed.
Print Assumptions transfer_is_complete.

(* Minimality: every selected object is reachable from something that was asked
   for (any wants: commits, tags, trees, blobs) *)
Theorem transfer_is_minimal : forall kind_of parents cdeps,
  (forall t x, kind_of t = Some (KTag x) -> In x (cdeps t)) ->
  forall fuel haves wants sent,
  select kind_of parents cdeps fuel haves wants = Some sent ->
  forall x, In x sent -> exists w, In w wants /\ reachable (fd parents cdeps) [w] x.
Proof. intros kind_of parents cdeps HT fuel haves wants sent. apply select_minimal. exact HT. Qed.
Print Assumptions transfer_is_minimal.

Example fetch_on_top_of_a_known_commit :
  let kind_of := fun o => match o with 2 | 4 => Some KCommit | 0 | 1 | 3 => Some KOther | _ => None end in
  let parents := fun o => match o with 4 => [2] | _ => [] end in
  let cdeps := fun o => match o with 1 => [0] | 2 => [1] | 3 => [0] | 4 => [3] | _ => [] end in
  select kind_of parents cdeps 40 [2] [4] = Some [3; 4].
Proof. vm_compute. reflexivity. Qed.
