(* Props/C11.v — staging index file.  Property theorems only. *)
From DV Require Import Bytes Index IndexP.

(* git's offset varint (index v4 prefix counts): every n >= 0 round-trips *)
Theorem varint_roundtrip : forall n r, 0 <= n -> gv_dec (gv_enc n ++ r) = Some (n, r).
Proof. exact gv_roundtrip_lemma. Qed.
Print Assumptions varint_roundtrip.

(* v4 path prefix compression against any previous path *)
Theorem path_compress_roundtrip : forall path prev rest,
  nul_free path -> decompress_path (compress_path path prev ++ rest) prev = Some (path, rest).
Proof. exact path_roundtrip_lemma. Qed.
Print Assumptions path_compress_roundtrip.

(* one entry, versions 2, 3 and 4, names of any length (the 12-bit length field
   saturates), every flag combination; dev/ino/size come back modulo 2^32 *)
Theorem entry_roundtrip : forall v prev e b rest,
  wf_entry e -> 2 <= v <= 4 ->
  write_entry v prev e = Some b ->
  read_entry v prev (b ++ rest) = Some (norm e, rest).
Proof. exact entry_roundtrip_lemma. Qed.
Print Assumptions entry_roundtrip.

(* a whole file (header, any number of entries, v4 chaining, version bump for
   extended flags), followed by anything (extensions, trailer) *)
Theorem index_roundtrip : forall v es b rest,
  2 <= v <= 4 -> Forall wf_entry es -> zlen es < 4294967296 ->
  write_index v es = Some b ->
  read_index (b ++ rest) = Some (effective_version v es, map norm es, rest).
Proof. exact index_roundtrip_lemma. Qed.
Print Assumptions index_roundtrip.
