(* Props/C15.v — Rust extensions and pure-Python fallbacks agree.  Property theorems only. *)
From DV Require Import Bytes Delta DeltaP RustTwins RustTwinsP.

(* tree parsing: same entries or failure in both, for every byte string,
   both id lengths, strict on and off *)
Theorem parse_tree_py_eq_rs : forall fuel sha_len strict text, 0 <= sha_len ->
  py_parse_tree fuel sha_len strict text = rs_parse_tree fuel sha_len strict text.
Proof. exact parse_tree_py_eq_rs_lemma. Qed.
Print Assumptions parse_tree_py_eq_rs.

(* tree ordering: key_entry's bytes comparison and cmp_with_suffix decide every
   pair of entries alike, whatever bytes the names hold *)
Theorem tree_order_py_eq_rs : forall a b, py_tree_cmp a b = rs_tree_cmp a b.
Proof. exact tree_order_py_eq_rs_lemma. Qed.
Print Assumptions tree_order_py_eq_rs.

(* the comparator that looks at one byte past the common prefix (what the crate
   had) agrees only on names without NUL and '/', and differs outside them *)
Theorem tree_order_one_byte_lookahead_partial : forall a b, plain (fst a) -> plain (fst b) ->
  py_tree_cmp a b = rs_tree_cmp_one_byte a b.
Proof. exact tree_order_one_byte_lemma. Qed.
Print Assumptions tree_order_one_byte_lookahead_partial.

Theorem tree_order_one_byte_lookahead_refuted : exists a b, py_tree_cmp a b <> rs_tree_cmp_one_byte a b.
Proof. exact one_byte_differs. Qed.
Print Assumptions tree_order_one_byte_lookahead_refuted.

(* delta application: identical results on every delta (stated in C03 as well) *)
Theorem apply_delta_py_eq_rs : forall src delta,
  wf_bytes delta -> zlen delta < 2 ^ 40 -> zlen src < 2 ^ 64 ->
  apply_rs src delta = apply_py src delta.
Proof. exact apply_rs_eq_py_lemma. Qed.
Print Assumptions apply_delta_py_eq_rs.

(* index bisection: same answer, and no i64 overflow, for all tables and index ranges below 2^62 *)
Theorem bisect_py_eq_rs : forall fuel name sha s e,
  0 <= s -> e < 4611686018427387904 ->
  py_bisect_top fuel name sha s e = rs_bisect_top fuel name sha s e.
Proof. exact bisect_top_py_eq_rs. Qed.
Print Assumptions bisect_py_eq_rs.

(* block counting for rename detection: the blocks both twins hash are a
   partition of the blob into pieces of 1..64 bytes (model shared by both twins;
   each twin is compared with it on every run) *)
Theorem count_blocks_is_partition : forall data,
  concat (count_blocks data) = data /\ Forall (fun b => 1 <= zlen b <= 64) (count_blocks data).
Proof. intros data. split; [apply count_blocks_partition|apply count_blocks_bounded]. Qed.
Print Assumptions count_blocks_is_partition.
