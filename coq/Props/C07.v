(* Props/C07.v — lock files: mutual exclusion and all-or-nothing replacement.
   Property theorems only.  Every statement is about every list of writers
   (committing or aborting) and readers, every interleaving of their calls and
   every placement of faults: [run (init t0 l) sched] for arbitrary [sched]. *)
From DV Require Import LockFile LockFileP.

(* at most one actor is between a successful os.open(O_EXCL) and its rename / remove *)
Theorem mutual_exclusion : forall t0 l sched i j, Forall fresh l ->
  let s := run (init t0 l) sched in
  critical (a_pc (acts s i)) = true -> critical (a_pc (acts s j)) = true -> i = j.
Proof. intros t0 l sched i j F s. apply (mutex_lemma t0). apply run_inv. apply init_inv. exact F. Qed.
Print Assumptions mutual_exclusion.

(* no call of one actor removes or renames a lock file created by another *)
Theorem no_foreign_unlock : forall t0 l sched i f j c, Forall fresh l -> i <> j ->
  let s := run (init t0 l) sched in
  lockf s = Some (j, c) -> lockf (step s i f) = Some (j, c).
Proof. intros t0 l sched i f j c F N s L. apply (no_foreign_unlock_lemma t0); auto. apply run_inv. apply init_inv. exact F. Qed.
Print Assumptions no_foreign_unlock.

(* the protected file is always the initial content or the complete data of an
   actor that committed; so is everything any reader ever saw *)
Theorem whole_file_replacement : forall t0 l sched, Forall fresh l ->
  let s := run (init t0 l) sched in
  (target s = t0 \/ exists j, a_pc (acts s j) = PDone Committed /\ target s = Some (a_data (acts s j))) /\
  forall i v, In v (a_seen (acts s i)) ->
    v = t0 \/ exists j, a_pc (acts s j) = PDone Committed /\ v = Some (a_data (acts s j)).
Proof.
  intros t0 l sched F s. pose proof (run_inv t0 sched _ (init_inv t0 l F)) as I. fold s in I. split.
  - apply (I_hist _ _ I). destruct (I_target _ _ I) as [T N]. rewrite T. destruct (history s); [contradiction|left; reflexivity].
  - intros i v H. apply (I_hist _ _ I). eapply I_seen; eauto.
Qed.
Print Assumptions whole_file_replacement.

(* the protected file changes only in the one call that commits, to that caller's data:
   an actor that ends locked out, aborted or failed never changed it *)
Theorem failed_write_changes_nothing : forall t0 l sched i f, Forall fresh l ->
  let s := run (init t0 l) sched in
  target (step s i f) <> target s ->
  a_pc (acts (step s i f) i) = PDone Committed /\ target (step s i f) = Some (a_data (acts s i)).
Proof.
  intros t0 l sched i f F s H.
  destruct (target_changes_only_on_commit t0 s i f) as (A & _ & B); auto. apply run_inv. apply init_inv. exact F.
Qed.
Print Assumptions failed_write_changes_nothing.

(* whoever has finished — committed, aborted, failed at any call, or locked out — holds no lock *)
Theorem finished_actor_released_lock : forall t0 l sched i o c, Forall fresh l ->
  let s := run (init t0 l) sched in
  a_pc (acts s i) = PDone o -> lockf s <> Some (i, c).
Proof. intros t0 l sched i o c F s. apply (done_holds_no_lock t0). apply run_inv. apply init_inv. exact F. Qed.
Print Assumptions finished_actor_released_lock.

Example three_writers_one_reader :
  let s := run (init (Some 0%Z) [writer 1 false; writer 2 true; reader; writer 3 false])
               [(0, false); (1, false); (0, false); (2, false); (0, false); (0, true); (0, false); (0, false); (3, false)]%nat in
  Forall fresh [writer 1 false; writer 2 true; reader; writer 3 false] /\ target s = Some 0%Z /\
  a_pc (acts s 0%nat) = PDone Failed /\ a_pc (acts s 3%nat) = PWrite.
Proof.
  split; [repeat (apply Forall_cons; [split; [reflexivity|cbn; auto]|]); apply Forall_nil|vm_compute; auto].
Qed.
