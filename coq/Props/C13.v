(* Props/C13.v — merge-base and ancestry.  Property theorems only. *)
From DV Require Import Lca LcaP.

(* _find_lcas (with the final redundancy filter) returns exactly the maximal
   common ancestors of c1 and the commits c2s: for every DAG (parents numbered
   below their children), every query, and every order in which the work list
   is popped — hence for every assignment of commit timestamps, ties and
   backwards clocks included, since timestamps only order the heap *)
Theorem lca_exact : forall parents pick,
  (forall v p, In p (parents v) -> p < v) ->
  forall c1 c2s n fuel l,
  c1 < n -> find_lcas parents pick n fuel c1 c2s = Some l ->
  forall x, In x l <-> MaxCA parents c1 c2s x.
Proof. exact find_lcas_exact. Qed.
Print Assumptions lca_exact.

(* can_fast_forward(c1, c2) is the graph-theoretic ancestor test *)
Theorem ff_exact : forall parents pick,
  (forall v p, In p (parents v) -> p < v) ->
  forall n fuel c1 c2 b,
  c1 < n -> can_fast_forward parents pick n fuel c1 c2 = Some b -> (b = true <-> Anc parents c1 c2).
Proof. exact can_ff_exact. Qed.
Print Assumptions ff_exact.

(* ---------- history walks ---------- *)
From DV Require Import Walk WalkP TopoP.

(* a walk without excluded commits yields every commit reachable from the
   starting points exactly once, whatever the timestamps (the pop order is an
   arbitrary function of the queue) *)
Theorem walk_yields_reachable_once : forall parents pick include fuel l,
  walk parents pick fuel include = Some l ->
  NoDup l /\ forall c, In c l <-> reach parents include c.
Proof. intros parents pick include fuel l. apply walk_exact_lemma. Qed.
Print Assumptions walk_yields_reachable_once.

(* _topo_reorder: the output holds entries only, none twice, and no commit
   comes after one of its parents *)
Theorem topo_never_parent_before_child : forall parents fuel entries l, NoDup entries ->
  topo parents fuel entries = Some l ->
  NoDup l /\ (forall e, In e l -> In e entries) /\
  forall l1 c l2, l = l1 ++ c :: l2 -> forall p, In p l1 -> ~ In p (parents c).
Proof. intros parents fuel entries l. apply topo_order_lemma. Qed.
Print Assumptions topo_never_parent_before_child.
