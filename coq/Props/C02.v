(* Props/C02.v — pack entry headers and pack index lookup.  Property theorems only. *)
From DV Require Import Bytes Delta Index RustTwins PackIdx PackIdxP.

(* type and size of a pack entry, for all seven types and every size *)
Theorem obj_header_roundtrip : forall t size r,
  1 <= t <= 7 -> 0 <= size -> dec_obj_header (obj_header t size ++ r) = Some (t, size, r).
Proof. exact obj_header_roundtrip_lemma. Qed.
Print Assumptions obj_header_roundtrip.

(* OFS_DELTA base offsets: every positive offset round-trips (zero is refused) *)
Theorem ofs_roundtrip : forall n r, 0 < n -> dec_ofs (gv_enc n ++ r) = Some (Some n, r).
Proof. exact ofs_roundtrip_lemma. Qed.
Print Assumptions ofs_roundtrip.

(* random access through the fan-out table and the bisection: a name is found,
   at its own position, exactly when the (sorted) table contains it *)
Theorem idx_lookup_exact : forall names sha,
  wf_names names -> sorted_names names ->
  forall i, idx_lookup names sha = Some i <-> 0 <= i < zlen names /\ name_at names i = sha.
Proof. exact idx_lookup_exact_lemma. Qed.
Print Assumptions idx_lookup_exact.

Theorem absent_name_not_found : forall names sha,
  wf_names names -> sorted_names names -> ~ In sha names -> idx_lookup names sha = None.
Proof. exact absent_not_found_lemma. Qed.
Print Assumptions absent_name_not_found.

(* 31-bit inline offsets and the 64-bit table: every offset reads back *)
Theorem offset_tables_roundtrip : forall offs large,
  Forall (fun o => 0 <= o) offs -> zlen large < 2147483648 - zlen offs ->
  let '(t, l) := enc_offsets offs large in
  zlen t = zlen offs /\ (exists ext, l = large ++ ext) /\
  forall i, 0 <= i < zlen offs -> dec_offset t l i = nth (Z.to_nat i) offs 0.
Proof. exact enc_offsets_spec. Qed.
Print Assumptions offset_tables_roundtrip.
