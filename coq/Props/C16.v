(* Props/C16.v — ref names and ref backends.  Property theorems only. *)
From DV Require Import Bytes RefName RefNameP.

(* dulwich's check_ref_format and git's check_refname_format (refs.c) agree on
   every NUL-free byte string of any length *)
Theorem refname_eq_git : forall s,
  Forall (fun b => 1 <= b <= 255) s -> check_ref_format s = git_check_refname_format s.
Proof. exact refname_eq_git_lemma. Qed.
Print Assumptions refname_eq_git.

(* ---------- files backend: loose + packed refs behave like one flat map ---------- *)
From DV Require Import Refs RefsP.

(* packing refs (all or tags only) changes no visible ref, for every store state *)
Theorem pack_refs_unobservable : forall d all q, dread (pack_refs d all) q = dread d q.
Proof. exact pack_refs_unobservable_lemma. Qed.
Print Assumptions pack_refs_unobservable.

(* ... nor what any name resolves to through symbolic refs *)
Theorem pack_refs_getitem : forall d all n, getitem (pack_refs d all) n = getitem d n.
Proof. exact pack_refs_getitem_lemma. Qed.
Print Assumptions pack_refs_getitem.

(* set_if_equals: success means exactly the resolved name now holds the value
   and nothing else changed (and the old value matched if one was named); a
   False return means the named old value did not match and nothing changed;
   an exception means a file/directory collision and nothing changed *)
Theorem set_if_equals_contract : forall d n old new d' r,
  set_if_equals d n old new = (d', r) ->
  let real := realname d n in
  match r with
  | RTrue => (forall q, dread d' q = upd d real (Some (Sha new)) q) /\
             (forall o, old = Some o -> orig_is d real o = true)
  | RFalse => d' = d /\ exists o, old = Some o /\ orig_is d real o = false
  | RExc => d' = d /\ (pre_collide real d = true \/ post_collide real d = true)
  end.
Proof. exact set_if_equals_spec. Qed.
Print Assumptions set_if_equals_contract.

Theorem set_unconditional_takes_effect : forall d n new,
  pre_collide (realname d n) d = false -> post_collide (realname d n) d = false ->
  snd (set_if_equals d n None new) = RTrue.
Proof. exact set_unconditional_lemma. Qed.
Print Assumptions set_unconditional_takes_effect.

Theorem remove_if_equals_contract : forall d n old d' r,
  remove_if_equals d n old = (d', r) ->
  match r with
  | RTrue => (forall q, dread d' q = upd d n None q) /\ (forall o, old = Some o -> orig_is d n o = true)
  | RFalse => d' = d /\ exists o, old = Some o /\ orig_is d n o = false
  | RExc => d' = d /\ (loose_ancestor n d = true \/ post_collide n d = true)
  end.
Proof. exact remove_if_equals_spec. Qed.
Print Assumptions remove_if_equals_contract.

(* a deleted ref does not come back from packed-refs *)
Theorem removed_ref_is_gone : forall d n old d',
  remove_if_equals d n old = (d', RTrue) -> dread d' n = None /\ getitem d' n = None.
Proof. exact remove_gone_lemma. Qed.
Print Assumptions removed_ref_is_gone.

Theorem add_if_new_contract : forall d n v d' r,
  add_if_new d n v = (d', r) ->
  match r with
  | RTrue => exists real, dread d real = None /\ forall q, dread d' q = upd d real (Some (Sha v)) q
  | _ => d' = d
  end.
Proof. exact add_if_new_spec. Qed.
Print Assumptions add_if_new_contract.

Theorem set_symbolic_ref_contract : forall d n t d' r,
  set_symbolic_ref d n t = (d', r) ->
  match r with
  | RTrue => forall q, dread d' q = upd d n (Some (Sym t)) q
  | _ => d' = d
  end.
Proof. exact set_symbolic_ref_spec. Qed.
Print Assumptions set_symbolic_ref_contract.

(* ---------- the packed-refs file as text (Model/PackedFile.v) ---------- *)
From DV Require Import PackedFile PackedFileP.

(* any list of refs with well-formed names, hex ids and hex peeled values,
   written with the header as the object store always does, is read back by
   get_packed_refs exactly: same names, ids, peeled values, order *)
Theorem packed_refs_file_roundtrip : forall l, Forall (fun r => valid_pref r = true) l ->
  read_packed (write_packed true l) = Some l.
Proof. exact roundtrip_peeled. Qed.
Print Assumptions packed_refs_file_roundtrip.

(* written without peeled values (no header) a non-empty list reads back with
   every peeled value absent *)
Theorem packed_refs_file_roundtrip_plain : forall l, Forall (fun r => valid_pref r = true) l -> l <> [] ->
  read_packed (write_packed false l) = Some (map drop_peeled l).
Proof. exact roundtrip_plain. Qed.
Print Assumptions packed_refs_file_roundtrip_plain.

Example an_empty_file_is_not_readable : read_packed (write_packed false []) = None.
Proof. reflexivity. Qed.
