(* Props/C16.v — ref names and ref backends.  Property theorems only. *)
From DV Require Import Bytes RefName RefNameP.

(* dulwich's check_ref_format and git's check_refname_format (refs.c) agree on
   every NUL-free byte string of any length *)
Theorem refname_eq_git : forall s,
  Forall (fun b => 1 <= b <= 255) s -> check_ref_format s = git_check_refname_format s.
Proof. exact refname_eq_git_lemma. Qed.
Print Assumptions refname_eq_git.
