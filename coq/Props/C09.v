(* Props/C09.v — a crash at any instant leaves a consistent repository.
   Property theorems only.  A crash leaves the visible state after some prefix
   [firstn k] of an operation's steps; every statement is for every k. *)
From DV Require Import CrashFs CrashFsP.

(* adding objects (each after what it refers to) and then moving a ref — commit,
   fetch, receive-pack: at every instant the repository is consistent (every
   visible object's references are visible, every ref names a visible object),
   the ref holds its old or its new value, no other ref changes and no object
   that was readable disappears *)
Theorem update_crash_safe : forall deps s0 news r v k,
  consistent deps s0 -> ordered deps s0 news ->
  has (run s0 (map (fun c => SAddC (fst c) (snd c)) news)) v = true ->
  let s := run s0 (firstn k (p_update news r v)) in
  consistent deps s /\ (resolve s r = resolve s0 r \/ resolve s r = Some v) /\
  (forall r', r' <> r -> resolve s r' = resolve s0 r') /\ (forall o, has s0 o = true -> has s o = true).
Proof. intros deps s0 news r v k C O V. apply update_prefixes; assumption. Qed.
Print Assumptions update_crash_safe.

(* deleting a ref (packed entry first, then the loose file): it holds its old
   value or is gone — an older packed value never shows — and nothing else changes *)
Theorem delete_crash_safe : forall s0 r k,
  let s := run s0 (firstn k (p_delete r)) in
  (resolve s r = resolve s0 r \/ resolve s r = None) /\
  (forall r', r' <> r -> resolve s r' = resolve s0 r') /\ conts s = conts s0.
Proof. exact delete_prefixes. Qed.
Print Assumptions delete_crash_safe.

(* packing refs (packed-refs renamed in first, then the loose files removed one
   by one): no ref ever changes its value *)
Theorem pack_refs_crash_safe : forall s0 rs k, NoDup (map fst rs) ->
  (forall r v, In (r, v) rs -> lookup r (loose s0) = Some v) ->
  let s := run s0 (firstn k (p_pack_refs rs)) in
  (forall r, resolve s r = resolve s0 r) /\ conts s = conts s0.
Proof. intros s0 rs k ND CUR. apply pack_refs_prefixes; assumption. Qed.
Print Assumptions pack_refs_crash_safe.

(* repacking (the new pack first, then the loose files and packs it replaces):
   exactly the same objects are readable at every instant, refs untouched *)
Theorem repack_crash_safe : forall s0 c keep old k, ~ In c old ->
  (forall o, In o keep -> has s0 o = true) ->
  (forall d os o, In d old -> In (d, os) (conts s0) -> In o os -> In o keep) ->
  let s := run s0 (firstn k (p_repack c keep old)) in
  (forall o, has s o = has s0 o) /\ loose s = loose s0 /\ packed s = packed s0.
Proof. intros s0 c keep old k F K O. apply repack_prefixes; assumption. Qed.
Print Assumptions repack_crash_safe.

(* the hypotheses are satisfiable: a commit on top of an existing one *)
Example commit_instance :
  let deps := fun o => match o with 3 => [2; 0] | 2 => [1] | _ => [] end in
  let s0 := {| conts := [(10, [0])]; loose := [(0, 0)]; packed := [] |} in
  consistent deps s0 /\ ordered deps s0 [(11, [1]); (12, [2]); (13, [3])] /\
  has (run s0 (map (fun c => SAddC (fst c) (snd c)) [(11, [1]); (12, [2]); (13, [3])])) 3 = true.
Proof.
  cbv zeta. split; [split|split].
  - intros o H d Hd. cbn in H. destruct o as [|[|[|[|o]]]]; cbn in *; try discriminate; contradiction.
  - intros r w H. unfold resolve in H. destruct r; cbn in H; [inversion H; subst; reflexivity|discriminate].
  - cbn. repeat split; intros o H d Hd;
      repeat (destruct H as [<-|H]; [cbn in Hd; repeat (destruct Hd as [<-|Hd]; [reflexivity|]); try contradiction|]); contradiction.
  - reflexivity.
Qed.
