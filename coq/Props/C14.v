(* Props/C14.v — optional acceleration data never changes an answer.
   Property theorems only.  The graph algorithms take the parent relation as a
   function; a commit-graph file is one source of that function, the commit
   objects another.  Sources that agree on every commit give the same answers. *)
From DV Require Import Gc Mof Lca AccelP.

(* merge bases and fast-forward tests: same result from any two sources of the
   parents of every commit, for every DAG, query and pop order *)
Theorem merge_base_independent_of_parent_source : forall (p1 p2 : node -> list node) pick n fuel c1 c2s,
  (forall v, p1 v = p2 v) ->
  find_lcas p1 pick n fuel c1 c2s = find_lcas p2 pick n fuel c1 c2s /\
  forall c2, can_fast_forward p1 pick n fuel c1 c2 = can_fast_forward p2 pick n fuel c1 c2.
Proof. intros p1 p2 pick n fuel c1 c2s E. split; [apply find_lcas_ext; exact E|intros c2; apply can_fast_forward_ext; exact E]. Qed.
Print Assumptions merge_base_independent_of_parent_source.

(* the reachable-object set and the objects selected for a transfer likewise *)
Theorem reachability_and_transfer_independent_of_parent_source : forall kind_of (p1 p2 cdeps : nat -> list nat),
  (forall o, p1 o = p2 o) ->
  (forall fuel roots, find_reachable p1 fuel roots = find_reachable p2 fuel roots) /\
  (forall fuel haves wants, select kind_of p1 cdeps fuel haves wants = select kind_of p2 cdeps fuel haves wants).
Proof. intros kind_of p1 p2 cdeps E. split; [intros; apply find_reachable_ext; exact E|intros; apply select_parents_ext; exact E]. Qed.
Print Assumptions reachability_and_transfer_independent_of_parent_source.

(* ---------- the commit-graph file as a source of parents (Model/CommitGraph.v) ---------- *)
From DV Require Import CommitGraph CommitGraphP.

(* for every list of commits with any number of parents each (octopus merges of
   any width included), all of them in the file: the parents read back from the
   two slots and the extra edge list are the parents written, in order — the
   hypothesis the two theorems above need of this source *)
Theorem commit_graph_parents_roundtrip : forall cs, closed cs ->
  decode_graph (encode_graph cs) = map (fun ps => Some (positions ps)) cs.
Proof. exact graph_roundtrip. Qed.
Print Assumptions commit_graph_parents_roundtrip.

(* without that hypothesis the statement is false of the code: a parent that is
   not in the file is written as "no parent" and the commit reads back as a root
   (write_commit_graph(reachable=False); known finding) *)
Theorem unclosed_commit_graph_keeps_parents_refuted : exists cs i,
  nth_error cs i = Some [None] /\ nth_error (decode_graph (encode_graph cs)) i = Some (Some []).
Proof. exists [[None]], 0%nat. vm_compute. split; reflexivity. Qed.
Print Assumptions unclosed_commit_graph_keeps_parents_refuted.

Local Open Scope Z_scope.
Example octopus_merges_share_one_edge_list :
  encode_graph [[]; [Some 0]; [Some 0; Some 1]; [Some 0; Some 1; Some 2]; [Some 3; Some 2; Some 1; Some 0]] =
    ([(NONE, NONE); (0, NONE); (0, 1); (0, FLAG + 0); (3, FLAG + 2)], [1; 2 + FLAG; 2; 1; 0 + FLAG]) /\
  closed [[]; [Some 0]; [Some 0; Some 1]; [Some 0; Some 1; Some 2]; [Some 3; Some 2; Some 1; Some 0]].
Proof.
  split; [vm_compute; reflexivity|]. split; [vm_compute; discriminate|].
  intros ps H p Hp. cbn in H. repeat (destruct H as [<-|H]; [cbn in Hp; repeat (destruct Hp as [<-|Hp]; [eexists; split; [reflexivity|cbn; lia]|]); contradiction|]). contradiction.
Qed.
