(* Props/C14.v — optional acceleration data never changes an answer.
   Property theorems only.  The graph algorithms take the parent relation as a
   function; a commit-graph file is one source of that function, the commit
   objects another.  Sources that agree on every commit give the same answers. *)
From DV Require Import Gc Mof Lca AccelP.

(* merge bases and fast-forward tests: same result from any two sources of the
   parents of every commit, for every DAG, query and pop order *)
Theorem merge_base_independent_of_parent_source : forall (p1 p2 : node -> list node) pick n fuel c1 c2s,
  (forall v, p1 v = p2 v) ->
  find_lcas p1 pick n fuel c1 c2s = find_lcas p2 pick n fuel c1 c2s /\
  forall c2, can_fast_forward p1 pick n fuel c1 c2 = can_fast_forward p2 pick n fuel c1 c2.
Proof. intros p1 p2 pick n fuel c1 c2s E. split; [apply find_lcas_ext; exact E|intros c2; apply can_fast_forward_ext; exact E]. Qed.
Print Assumptions merge_base_independent_of_parent_source.

(* the reachable-object set and the objects selected for a transfer likewise *)
Theorem reachability_and_transfer_independent_of_parent_source : forall kind_of (p1 p2 cdeps : nat -> list nat),
  (forall o, p1 o = p2 o) ->
  (forall fuel roots, find_reachable p1 fuel roots = find_reachable p2 fuel roots) /\
  (forall fuel haves wants, select kind_of p1 cdeps fuel haves wants = select kind_of p2 cdeps fuel haves wants).
Proof. intros kind_of p1 p2 cdeps E. split; [intros; apply find_reachable_ext; exact E|intros; apply select_parents_ext; exact E]. Qed.
Print Assumptions reachability_and_transfer_independent_of_parent_source.

(* ---------- the commit-graph file as a source of parents (Model/CommitGraph.v) ---------- *)
From DV Require Import CommitGraph CommitGraphP.

(* for every list of commits with any number of parents each (octopus merges of
   any width included), all of them in the file: the parents read back from the
   two slots and the extra edge list are the parents written, in order — the
   hypothesis the two theorems above need of this source *)
Theorem commit_graph_parents_roundtrip : forall cs, closed cs ->
  decode_graph (encode_graph cs) = map (fun ps => Some (positions ps)) cs.
Proof. exact graph_roundtrip. Qed.
Print Assumptions commit_graph_parents_roundtrip.

(* without that hypothesis the statement is false of the code: a parent that is
   not in the file is written as "no parent" and the commit reads back as a root
   (write_commit_graph(reachable=False); known finding) *)
Theorem unclosed_commit_graph_keeps_parents_refuted : exists cs i,
  nth_error cs i = Some [None] /\ nth_error (decode_graph (encode_graph cs)) i = Some (Some []).
Proof. exists [[None]], 0%nat. vm_compute. split; reflexivity. Qed.
Print Assumptions unclosed_commit_graph_keeps_parents_refuted.

Local Open Scope Z_scope.
Example octopus_merges_share_one_edge_list :
  encode_graph [[]; [Some 0]; [Some 0; Some 1]; [Some 0; Some 1; Some 2]; [Some 3; Some 2; Some 1; Some 0]] =
    ([(NONE, NONE); (0, NONE); (0, 1); (0, FLAG + 0); (3, FLAG + 2)], [1; 2 + FLAG; 2; 1; 0 + FLAG]) /\
  closed [[]; [Some 0]; [Some 0; Some 1]; [Some 0; Some 1; Some 2]; [Some 3; Some 2; Some 1; Some 0]].
Proof.
  split; [vm_compute; reflexivity|]. split; [vm_compute; discriminate|].
  intros ps H p Hp. cbn in H. repeat (destruct H as [<-|H]; [cbn in Hp; repeat (destruct Hp as [<-|Hp]; [eexists; split; [reflexivity|cbn; lia]|]); contradiction|]). contradiction.
Qed.

(* ---------- the peeled values cached in packed-refs (Model/PeeledCache.v) ---------- *)
From DV Require Import PeeledCache PeeledCacheP.

(* after ANY sequence of loose writes, deletions, add_packed_refs, pack_refs and git pack-refs (git writing true
   peeled values) in which dulwich itself only ever puts plain values into packed-refs -- values that are not
   tags, under names that carry no peeled line: branches, lightweight tags -- whatever
   DiskRefsContainer.get_peeled answers is the peeled value of what the ref currently is: the cache never
   changes an answer, it only saves peeling *)
Theorem peeled_cache_never_lies_partial : forall peel ops r p,
  run_plain peel (empty_state) ops -> get_peeled (run peel empty_state ops) r = Some p ->
  exists v, current (run peel empty_state ops) r = Some v /\ p = peel v.
Proof. exact peeled_cache_sound_lemma. Qed.
Print Assumptions peeled_cache_never_lies_partial.

(* the full statement (any sequence) is false of the code: _write_packed_refs writes the "peeled" header and
   the table of peeled values it read earlier, and peels nothing.  A tag moved to another annotated tag and
   packed again keeps the peeled value of the old one; an annotated tag packed for the first time is declared
   "not a tag" (recorded finding: an existing test requires this writer) *)
Theorem peeled_cache_never_lies_refuted :
  (current (run ex_peel empty_state ex_moved) 0%nat = Some 12%Z /\ get_peeled (run ex_peel empty_state ex_moved) 0%nat = Some 1%Z /\ ex_peel 12 = 2%Z) /\
  (current (run ex_peel empty_state ex_new) 0%nat = Some 11%Z /\ get_peeled (run ex_peel empty_state ex_new) 0%nat = Some 11%Z /\ ex_peel 11 = 1%Z).
Proof. exact packing_a_tag_value_breaks_the_cache. Qed.
Print Assumptions peeled_cache_never_lies_refuted.
