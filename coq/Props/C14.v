(* Props/C14.v — optional acceleration data never changes an answer.
   Property theorems only.  The graph algorithms take the parent relation as a
   function; a commit-graph file is one source of that function, the commit
   objects another.  Sources that agree on every commit give the same answers. *)
From DV Require Import Gc Mof Lca AccelP.

(* merge bases and fast-forward tests: same result from any two sources of the
   parents of every commit, for every DAG, query and pop order *)
Theorem merge_base_independent_of_parent_source : forall (p1 p2 : node -> list node) pick n fuel c1 c2s,
  (forall v, p1 v = p2 v) ->
  find_lcas p1 pick n fuel c1 c2s = find_lcas p2 pick n fuel c1 c2s /\
  forall c2, can_fast_forward p1 pick n fuel c1 c2 = can_fast_forward p2 pick n fuel c1 c2.
Proof. intros p1 p2 pick n fuel c1 c2s E. split; [apply find_lcas_ext; exact E|intros c2; apply can_fast_forward_ext; exact E]. Qed.
Print Assumptions merge_base_independent_of_parent_source.

(* the reachable-object set and the objects selected for a transfer likewise *)
Theorem reachability_and_transfer_independent_of_parent_source : forall kind_of (p1 p2 cdeps : nat -> list nat),
  (forall o, p1 o = p2 o) ->
  (forall fuel roots, find_reachable p1 fuel roots = find_reachable p2 fuel roots) /\
  (forall fuel haves wants, select kind_of p1 cdeps fuel haves wants = select kind_of p2 cdeps fuel haves wants).
Proof. intros kind_of p1 p2 cdeps E. split; [intros; apply find_reachable_ext; exact E|intros; apply select_parents_ext; exact E]. Qed.
Print Assumptions reachability_and_transfer_independent_of_parent_source.
