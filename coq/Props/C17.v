(* Props/C17.v — checkout never leaves the work tree or enters .git: the path
   validators.  Property theorems only. *)
From DV Require Import Bytes PathSafe PathSafeP.

(* a path accepted by validate_path (default or NTFS element validator) has no
   empty, "." or ".." component and none that folds to ".git": joined to the
   work-tree root it names a descendant of the root that is not .git or below it *)
Theorem validated_path_stays_inside : forall p,
  validate_path valid_default p = true \/ validate_path valid_ntfs p = true ->
  let cs := split_on 47 p [] in
  normalize cs [] = Some cs /\ cs <> [] /\
  Forall (fun c => c <> [] /\ c <> DOT /\ c <> DOTDOT /\ lower c <> DOTGIT) cs.
Proof.
  intros p [H|H].
  - apply (validated_path_inside valid_default); auto.
  - apply (validated_path_inside valid_ntfs); [exact valid_ntfs_implies_default|exact H].
Qed.
Print Assumptions validated_path_stays_inside.

(* core.protectNTFS never accepts what the default rules refuse *)
Theorem ntfs_validator_is_stricter : forall e, valid_ntfs e = true -> valid_default e = true.
Proof. exact valid_ntfs_implies_default. Qed.
Print Assumptions ntfs_validator_is_stricter.

(* every NTFS spelling of .git is refused: any case of "git", any run of trailing
   dots and spaces, optionally followed by an alternate-data-stream suffix; and
   the 8.3 short name git~1 likewise *)
Theorem ntfs_spellings_refused : forall g i t pad rest,
  lower [g; i; t] = [103; 105; 116] -> forallb dot_or_space pad = true ->
  (rest = [] \/ exists x, rest = 58 :: x) ->
  (forallb (fun c => negb (c =? 92)) (46 :: g :: i :: t :: pad ++ rest) = true ->
   valid_ntfs (46 :: g :: i :: t :: pad ++ rest) = false) /\
  (forallb (fun c => negb (c =? 92)) (g :: i :: t :: 126 :: 49 :: pad ++ rest) = true ->
   valid_ntfs (g :: i :: t :: 126 :: 49 :: pad ++ rest) = false).
Proof.
  intros g i t pad rest L P R. split; intros NB; [apply ntfs_refuses_dotgit|apply ntfs_refuses_short_name]; assumption.
Qed.
Print Assumptions ntfs_spellings_refused.

(* .git::$INDEX_ALLOCATION and friends *)
Example adversarial_names :
  map valid_ntfs [[46;71;73;84]; [46;103;105;116;32]; [46;103;105;116;46]; [103;105;116;126;49];
                  [46;103;105;116;58;58;36;73]; [46;46]; [46]; []; [120;92;46;103;105;116]; [46;103;105;116;120]]
  = [false; false; false; false; false; false; false; false; false; true].
Proof. vm_compute. reflexivity. Qed.
