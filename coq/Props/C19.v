(* Props/C19.v — pkt-line and side-band framing.  Property theorems only. *)
From DV Require Import Bytes PktLine PktLineP.

(* every 16-bit length round-trips through the four-digit prefix *)
Theorem len_prefix_roundtrip : forall n, 0 <= n < 65536 -> parse_len (hex4 n) = Some n.
Proof. exact parse_len_hex4_lemma. Qed.
Print Assumptions len_prefix_roundtrip.

(* a payload is either refused (exactly when it exceeds 65516 bytes) or framed
   with a four-hex-digit prefix equal to the frame length, at most 65520 *)
Theorem frame_wellformed_or_refused : forall p,
  (pkt_line (Some p) = WValueError <-> zlen p > MAX_DATA) /\
  (forall f, pkt_line (Some p) = WOk f ->
     zlen f = zlen p + 4 /\ zlen f <= 65520 /\ parse_len (zfirstn 4 f) = Some (zlen f)).
Proof. exact frame_wellformed_lemma. Qed.
Print Assumptions frame_wellformed_or_refused.

(* encode then decode: every payload sequence (empty payloads included), any trailing bytes *)
Theorem frames_roundtrip : forall ps s rest,
  pkt_seq ps = WOk s -> read_pkt_seq (seq_fuel (s ++ rest)) (s ++ rest) = (ps, SEnd, rest).
Proof. exact frames_roundtrip_top. Qed.
Print Assumptions frames_roundtrip.

(* every byte string fed to the decoder: one of the four outcomes (by type), and
   what was not consumed is a suffix of the input *)
Theorem decoder_consumes_prefix : forall s r tail, read_pkt_line s = (r, tail) -> exists c, s = c ++ tail.
Proof. exact read_pkt_line_prefix. Qed.
Print Assumptions decoder_consumes_prefix.

(* however recv() chunks the byte stream (any schedule, any buffered prefix),
   ReceivableProtocol.read returns the first `size` bytes of the stream ... *)
Theorem read_schedule_invariant : forall size st out st',
  0 < size -> rp_read size st = (out, st') ->
  out = zfirstn size (stream st) /\ stream st' = zskipn size (stream st).
Proof. exact rp_read_spec. Qed.
Print Assumptions read_schedule_invariant.

(* ... hence read_pkt_line over it is a function of the remaining stream only *)
Theorem read_pkt_line_schedule_invariant : forall st r st',
  rp_read_pkt_line st = (r, st') -> read_pkt_line (stream st) = (r, stream st').
Proof. exact rp_read_pkt_line_spec. Qed.
Print Assumptions read_pkt_line_schedule_invariant.

(* the incremental parser delivers the same events whatever the fragmentation *)
Theorem parser_partition_invariant : forall frags buf,
  D buf = ([], buf, false) ->
  let '(ev, t, e) := pp_feed buf frags in
  let '(ev', t', e') := D (buf ++ concat frags) in
  ev = ev' /\ e = e' /\ (e = false -> t = t').
Proof. exact parser_partition_lemma. Qed.
Print Assumptions parser_partition_invariant.

(* side-band: frames carry the channel byte, never exceed one pkt-line, and
   concatenate back to the blob; the demultiplexer returns them *)
Theorem sideband_roundtrip : forall ch blob,
  let fs := write_sideband (sb_fuel blob) ch blob in
  concat (map (@tl Z) fs) = blob /\
  Forall (fun f => 1 <= zlen f <= MAX_DATA /\ hd 0 f = ch) fs /\
  sb_demux fs = Some (map (fun f => (ch, tl f)) fs).
Proof. intros ch blob. apply sideband_lemma. apply sb_fuel_ok. Qed.
Print Assumptions sideband_roundtrip.

(* the buffered writer emits exactly the concatenation of the pkt-lines *)
Theorem buffered_writer_concat : forall bufsize ps wbuf bl wbuf' bl' outs,
  bw_run bufsize (wbuf, bl) ps = Some ((wbuf', bl'), outs) ->
  exists ls, lines_of ps = Some ls /\ concat outs ++ wbuf' = wbuf ++ ls.
Proof. exact bw_run_concat. Qed.
Print Assumptions buffered_writer_concat.

(* ---------- capability lists and ref advertisement lines (Model/Caps.v) ---------- *)
From DV Require Import RefName PackedFile Caps CapsP.

(* a ref line carrying any list of capabilities (none included; each a non-empty
   token without NUL or white space) parses back to the id, the name and exactly
   that list *)
Theorem ref_line_with_capabilities_roundtrip : forall sha ref cs,
  valid_hexsha sha = true -> check_ref_format ref = true -> forallb tokenb cs = true ->
  extract_capabilities (format_ref_line ref sha (Some cs)) = Some (sha ++ [SP] ++ ref, cs).
Proof. exact caps_roundtrip_lemma. Qed.
Print Assumptions ref_line_with_capabilities_roundtrip.

(* and a ref line without the NUL carries no capabilities *)
Theorem ref_line_without_capabilities : forall sha ref,
  valid_hexsha sha = true -> check_ref_format ref = true ->
  extract_capabilities (format_ref_line ref sha None) = Some ((sha ++ [SP] ++ ref) ++ [LF], []).
Proof. exact no_caps_lemma. Qed.
Print Assumptions ref_line_without_capabilities.
