From Coq Require Import ZArith.
From DV Require Import Lca.
Require Extraction.
Require Import ExtrOcamlBasic.
Extraction "model.ml" find_lcas lca_fuel pick_max Z.succ.
