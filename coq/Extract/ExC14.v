From Coq Require Import ZArith List Bool.
From DV Require Import Lca CommitGraph PeeledCache.
Require Extraction.
Require Import ExtrOcamlBasic.
Definition peel_step := PeeledCache.step.
Definition peel_current := PeeledCache.current.
Definition peel_get := PeeledCache.get_peeled.
Definition peel_empty := PeeledCache.empty_state.
(* op_plain (Proofs/PeeledCacheP.v) as a test, for the harness to tell the sessions the theorem speaks about *)
Definition entry_plainb (peel : Z -> Z) (s : pstate) (x : nat * option Z) : bool :=
  match snd x with Some v => Z.eqb (peel v) v && (match pl s (fst x) with None => true | Some _ => false end) | None => true end.
Definition peel_plainb (peel : Z -> Z) (s : pstate) (o : PeeledCache.op) : bool :=
  match o with
  | OSet _ _ | ODelete _ | OGitPack _ => true
  | OAddPacked news => forallb (fun x => entry_plainb peel s (fst x, Some (snd x))) news
  | OPackRefs which => forallb (entry_plainb peel s) (loose_news s which)
  end.
Extraction "model.ml" find_lcas lca_fuel pick_max encode_graph decode_graph decode_commit Z.succ peel_step peel_current peel_get peel_empty peel_plainb.
