From Coq Require Import ZArith.
From DV Require Import Lca CommitGraph.
Require Extraction.
Require Import ExtrOcamlBasic.
Extraction "model.ml" find_lcas lca_fuel pick_max encode_graph decode_graph decode_commit Z.succ.
