From Coq Require Import ZArith.
From DV Require Import Gc PackLookup.
Require Extraction.
Require Import ExtrOcamlBasic.
(* is the reader's next step one that touches nothing (the end of an attempt that neither saw a pack disappear nor has
   the directory still to read)? *)
Definition silent (r : reader) : bool :=
  match ctl r with
  | Scan _ _ [] dis resc => negb (dis || negb resc)
  | _ => false
  end.
Definition finished (r : reader) : bool := match ctl r with Found | Missing => true | _ => false end.
Extraction "model.ml" find_reachable prunable after_gc Z.succ sys_step start silent finished needs_order.
