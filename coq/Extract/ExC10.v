From Coq Require Import ZArith.
From DV Require Import Gc.
Require Extraction.
Require Import ExtrOcamlBasic.
Extraction "model.ml" find_reachable prunable after_gc Z.succ.
