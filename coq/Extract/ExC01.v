From DV Require Import Objects TimeEntry.
Require Extraction.
Require Import ExtrOcamlBasic.
Extraction "model.ml" crun cache_init format_message parse_message serialize_tree tree_sorted py_parse_tree dec parse_dec
  format_timezone parse_timezone format_time_entry parse_time_entry.
