From DV Require Import Objects.
Require Extraction.
Require Import ExtrOcamlBasic.
Extraction "model.ml" crun cache_init format_message parse_message serialize_tree tree_sorted py_parse_tree dec parse_dec.
