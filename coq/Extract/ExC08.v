From Coq Require Import ZArith.
From DV Require Import RefCas.
Require Extraction.
Require Import ExtrOcamlBasic.
Extraction "model.ml" run init holds_lock Z.succ.
