From Coq Require Import ZArith List.
From DV Require Import RefCas.
From DV Require PackedRefs.
Require Extraction.
Require Import ExtrOcamlBasic.

(* the packed-refs model behind an interface of numbers only, so that the driver never names its constructors *)
Definition pk_kind (o : nat * (nat * nat)) : PackedRefs.kind :=
  match fst o with
  | 0 => PackedRefs.KPack
  | 1 => PackedRefs.KCas (fst (snd o)) (snd (snd o))
  | 2 => PackedRefs.KSet (fst (snd o))
  | 3 => PackedRefs.KDel (fst (snd o))
  | _ => PackedRefs.KRead
  end.
Definition pk_res (p : PackedRefs.pc) : nat :=
  match p with
  | PackedRefs.PEnd PackedRefs.RTrue => 1
  | PackedRefs.PEnd PackedRefs.RFalse => 2
  | PackedRefs.PEnd PackedRefs.RLocked => 3
  | PackedRefs.PEnd (PackedRefs.RSeen None) => 4
  | PackedRefs.PEnd (PackedRefs.RSeen (Some v)) => 5 + v
  | _ => 0
  end.
Definition pk_run (l0 p0 : option nat) (ops : list (nat * (nat * nat))) (sched : list nat) : list nat * (option nat * option nat) :=
  let l := map pk_kind ops in
  let s := PackedRefs.run (PackedRefs.init l0 p0 l) sched in
  (map (fun i => pk_res (PackedRefs.a_pc (PackedRefs.acts s i))) (seq 0 (length l)), (PackedRefs.loose s, PackedRefs.packed s)).

Extraction "model.ml" run init holds_lock pk_run Z.succ.
