From Coq Require Import ZArith.
From DV Require Import DeltaGraph.
Require Extraction.
Require Import ExtrOcamlBasic.
Extraction "model.ml" resolve read_entry Z.succ.
