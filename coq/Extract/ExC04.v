From Coq Require Import ZArith.
From DV Require Import DeltaGraph ThinPack.
Require Extraction.
Require Import ExtrOcamlBasic.
Extraction "model.ml" resolve read_entry Z.succ complete completed_names.
