From DV Require Import Receive ReportStatus.
Require Extraction.
Require Import ExtrOcamlBasic.
Extraction "model.ml" apply_pack report parse_report parse_status.
