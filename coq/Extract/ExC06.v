From DV Require Import Receive.
Require Extraction.
Require Import ExtrOcamlBasic.
Extraction "model.ml" apply_pack.
