From Coq Require Import ZArith.
From DV Require Import CrashFs.
Require Extraction.
Require Import ExtrOcamlBasic.
Extraction "model.ml" run p_update p_delete p_pack_refs p_repack resolve has Z.succ.
