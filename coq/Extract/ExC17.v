From DV Require Import PathSafe.
Require Extraction.
Require Import ExtrOcamlBasic.
Extraction "model.ml" validate_path valid_default valid_ntfs is_ntfs_dotgit normalize split_on Z.succ.
