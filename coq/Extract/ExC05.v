From Coq Require Import ZArith.
From DV Require Import Mof.
Require Extraction.
Require Import ExtrOcamlBasic.
Extraction "model.ml" select Z.succ.
