From DV Require Import Config.
Require Extraction.
Require Import ExtrOcamlBasic.
Extraction "model.ml" format_string parse_string git_parse_value escape_subsection unescape_subsection
  setting_line value_part needs_quote md_init md_step md_getitem md_get_all md_len.
