From DV Require Import Status.
Require Extraction.
Require Import ExtrOcamlBasic.
Extraction "model.ml" check_entry differs Z.succ.
