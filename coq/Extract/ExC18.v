From DV Require Import Status StatusSession.
Require Extraction.
Require Import ExtrOcamlBasic.

(* finite listings for the runner: association lists turned into the model's total maps *)
Definition of_list {A} (l : list (nat * A)) : nat -> option A :=
  fun p => match find (fun x => Nat.eqb (fst x) p) l with Some (_, v) => Some v | None => None end.
Definition mk_state (h : list (nat * entry)) (i : list (nat * ientry)) (w : list (nat * wentry)) : st :=
  {| hd := of_list h; ix := of_list i; wt := of_list w |}.
(* the five listings of porcelain.status at the given paths: add, delete, modify, unstaged, untracked *)
Definition status_at (fm : bool) (s : st) (ps : list nat) : list (nat * (bool * bool * bool * bool * bool)) :=
  map (fun p => (p, (staged_add (hd s) (ix s) p, staged_delete (hd s) (ix s) p, staged_modify (hd s) (ix s) p,
                     st_unstaged fm s p, st_untracked s p))) ps.
(* the index of a state at the given paths; the boolean says whether the recorded signature is the file's *)
Definition index_at (s : st) (ps : list nat) : list (nat * option (entry * bool)) :=
  map (fun p => (p, match ix s p with
                    | Some x => Some (i_entry x, match wt s p with Some y => Z.eqb (w_sig y) (i_sig x) | None => false end)
                    | None => None end)) ps.
Extraction "model.ml" check_entry differs Z.succ mk_state status_at index_at step.
