From DV Require Import Index.
Require Extraction.
Require Import ExtrOcamlBasic.
Extraction "model.ml" gv_enc gv_dec compress_path decompress_path write_entry read_entry write_index read_index
  sorted_entries.
