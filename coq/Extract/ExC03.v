From DV Require Import Delta.
Require Extraction.
Require Import ExtrOcamlBasic.
Extraction "model.ml" enc_size enc_copy create_py valid_opcodesb apply_py apply_rs
  mat_py_top alloc_rs_top declared_dest.
