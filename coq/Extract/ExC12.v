From DV Require Import TreeDiff.
Require Extraction.
Require Import ExtrOcamlBasic.
Extraction "model.ml" tree_changes tree_delta flatten look wfb st_of root merge patched.
