From Coq Require Import ZArith List.
From DV Require Import TreeDiff TreeBuild.
Require Extraction.
Require Import ExtrOcamlBasic.

(* a stand-in for "id of a tree" that never collides: the entries, length-prefixed *)
Definition ser_tree (t : list tent) : bytes :=
  flat_map (fun e => Z.of_nat (length (t_name e)) :: t_name e ++ [t_mode e] ++ Z.of_nat (length (t_id e)) :: t_id e) t.
Definition build_ser (L : listing) : bytes * list (list tent) := commit_tree ser_tree (depth L) L.
Definition build_store (L : listing) : store := store_of ser_tree (snd (build_ser L)).
Definition build_flat (L : listing) : list (path * leaf) :=
  flatten (depth L) (build_store L) {| t_name := []; t_mode := 16384; t_id := fst (build_ser L) |}.

Extraction "model.ml" tree_changes tree_delta flatten look wfb st_of root merge patched build_ser build_store build_flat validb is_dir.
