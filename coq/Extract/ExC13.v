From Coq Require Import ZArith.
From DV Require Import Lca Walk.
Require Extraction.
Require Import ExtrOcamlBasic.
(* Z.succ only so that the shared OCaml glue (which mentions z/positive) links *)
Extraction "model.ml" find_lcas can_fast_forward lca_fuel pick_max ancb Walk.walk Walk.topo Z.succ.
