From DV Require Import RustTwins.
Require Extraction.
Require Import ExtrOcamlBasic.
Extraction "model.ml" py_parse_tree rs_parse_tree py_tree_cmp rs_tree_cmp count_blocks.
