From DV Require Import PackIdx.
Require Extraction.
Require Import ExtrOcamlBasic.
Extraction "model.ml" obj_header dec_obj_header dec_ofs gv_enc idx_lookup enc_offsets dec_offset.
