From DV Require Import PktLine Caps.
Require Extraction.
Require Import ExtrOcamlBasic.
Extraction "model.ml" pkt_line pkt_seq parse_len read_pkt_line read_pkt_seq seq_fuel
  rp_read rp_read_pkt_line pp_feed write_sideband sb_fuel sb_demux bw_run
  format_ref_line extract_capabilities format_want_line extract_want_line_capabilities.
