From DV Require Import LockFile.
Require Extraction.
Require Import ExtrOcamlBasic.
Extraction "model.ml" run init writer reader next_call critical Z.succ.
