From DV Require Import RefName Refs PackedFile.
Require Extraction.
Require Import ExtrOcamlBasic.
Extraction "model.ml" check_ref_format git_check_refname_format check_refname rstep disk_init dread getitem names write_packed read_packed.
