From DV Require Import RefName.
Require Extraction.
Require Import ExtrOcamlBasic.
Extraction "model.ml" check_ref_format git_check_refname_format check_refname.
