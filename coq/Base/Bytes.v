(* Base/Bytes.v — bytes as lists of Z, slices, and the arithmetic set-up shared
   by every model file.  Stdlib only. *)
From Coq Require Export ZArith List Bool Lia ZifyBool.
Export ListNotations.
Open Scope Z_scope.

Ltac Zify.zify_post_hook ::= Z.to_euclidean_division_equations.

Definition byte := Z.
Definition bytes := list Z.

Definition wf_byte (b : Z) : Prop := 0 <= b < 256.
Definition wf_bytes (l : bytes) : Prop := Forall wf_byte l.
Definition wf_byteb (b : Z) : bool := (0 <=? b) && (b <? 256).
Definition wf_bytesb (l : bytes) : bool := forallb wf_byteb l.

Definition zlen {A} (l : list A) : Z := Z.of_nat (length l).

(* Python l[a:a+n] for a, n >= 0 *)
Definition slice {A} (l : list A) (a n : Z) : list A :=
  firstn (Z.to_nat n) (skipn (Z.to_nat a) l).
Definition zfirstn {A} (n : Z) (l : list A) := firstn (Z.to_nat n) l.
Definition zskipn {A} (n : Z) (l : list A) := skipn (Z.to_nat n) l.

(* bit i of a byte/flag word, as arithmetic so lia can see it *)
Definition bit (x i : Z) : bool := (x / 2 ^ i) mod 2 =? 1.

Lemma wf_bytesb_spec l : wf_bytesb l = true <-> wf_bytes l.
Proof.
  unfold wf_bytesb, wf_bytes. rewrite forallb_forall, Forall_forall.
  split; intros H x Hx; specialize (H x Hx); unfold wf_byteb, wf_byte in *; lia.
Qed.

Lemma zlen_nonneg {A} (l : list A) : 0 <= zlen l.
Proof. unfold zlen; lia. Qed.

Lemma zlen_app {A} (l m : list A) : zlen (l ++ m) = zlen l + zlen m.
Proof. unfold zlen; rewrite app_length; lia. Qed.

Lemma zlen_cons {A} (x : A) l : zlen (x :: l) = 1 + zlen l.
Proof. unfold zlen; cbn [length]; lia. Qed.

Lemma zlen_nil {A} : zlen (@nil A) = 0.
Proof. reflexivity. Qed.

Lemma wf_bytes_app l m : wf_bytes (l ++ m) <-> wf_bytes l /\ wf_bytes m.
Proof. unfold wf_bytes; apply Forall_app. Qed.

Lemma In_firstn {A} n (l : list A) x : In x (firstn n l) -> In x l.
Proof.
  revert l; induction n as [|n IH]; intros l H; [destruct H|].
  destruct l as [|y l]; [exact H|]. destruct H as [H|H]; [left; exact H|right; apply IH; exact H].
Qed.

Lemma wf_bytes_firstn n l : wf_bytes l -> wf_bytes (firstn n l).
Proof.
  unfold wf_bytes; rewrite !Forall_forall; intros H x Hx.
  apply H. eapply In_firstn; eauto.
Qed.

Lemma In_skipn {A} n (l : list A) x : In x (skipn n l) -> In x l.
Proof.
  revert l; induction n as [|n IH]; intros l H; [exact H|].
  destruct l as [|y l]; [exact H|]. right; apply IH; exact H.
Qed.

Lemma wf_bytes_skipn n l : wf_bytes l -> wf_bytes (skipn n l).
Proof.
  unfold wf_bytes; rewrite !Forall_forall; intros H x Hx.
  apply H. eapply In_skipn; eauto.
Qed.

Lemma wf_bytes_slice l a n : wf_bytes l -> wf_bytes (slice l a n).
Proof. intros; unfold slice; apply wf_bytes_firstn, wf_bytes_skipn; assumption. Qed.

Lemma zlen_firstn {A} n (l : list A) : 0 <= n <= zlen l -> zlen (zfirstn n l) = n.
Proof. unfold zlen, zfirstn; intros; rewrite firstn_length; lia. Qed.

Lemma zlen_skipn {A} n (l : list A) : 0 <= n <= zlen l -> zlen (zskipn n l) = zlen l - n.
Proof. unfold zlen, zskipn; intros; rewrite skipn_length; lia. Qed.

Lemma zlen_slice {A} (l : list A) a n :
  0 <= a -> 0 <= n -> a + n <= zlen l -> zlen (slice l a n) = n.
Proof.
  unfold zlen, slice; intros; rewrite firstn_length, skipn_length; lia.
Qed.

(* ---------- firstn / skipn / slice algebra ---------- *)

Lemma firstn_plus {A} (n m : nat) (l : list A) :
  firstn (n + m) l = firstn n l ++ firstn m (skipn n l).
Proof.
  revert l; induction n as [|n IH]; intros l; [reflexivity|].
  destruct l as [|x l]; [cbn; rewrite firstn_nil; reflexivity|].
  cbn [Nat.add firstn skipn app]. rewrite IH. reflexivity.
Qed.

Lemma skipn_plus {A} (n m : nat) (l : list A) : skipn (n + m) l = skipn m (skipn n l).
Proof.
  revert l; induction n as [|n IH]; intros l; [reflexivity|].
  destruct l as [|x l]; [cbn; rewrite skipn_nil; reflexivity|].
  cbn [Nat.add skipn]. apply IH.
Qed.

Lemma slice_split {A} (l : list A) a n m :
  0 <= a -> 0 <= n -> 0 <= m -> slice l a (n + m) = slice l a n ++ slice l (a + n) m.
Proof.
  intros Ha Hn Hm. unfold slice.
  rewrite (Z2Nat.inj_add n m) by lia. rewrite firstn_plus.
  rewrite (Z2Nat.inj_add a n) by lia. rewrite skipn_plus. reflexivity.
Qed.

Lemma slice_zero {A} (l : list A) a : slice l a 0 = [].
Proof. reflexivity. Qed.

Lemma zfirstn_app_exact {A} (l r : list A) n : n = zlen l -> zfirstn n (l ++ r) = l.
Proof.
  intros ->. unfold zfirstn, zlen. rewrite Nat2Z.id.
  rewrite firstn_app, Nat.sub_diag, firstn_all. cbn. apply app_nil_r.
Qed.

Lemma zskipn_app_exact {A} (l r : list A) n : n = zlen l -> zskipn n (l ++ r) = r.
Proof.
  intros ->. unfold zskipn, zlen. rewrite Nat2Z.id.
  rewrite skipn_app, Nat.sub_diag, skipn_all. reflexivity.
Qed.

Lemma zfirstn_zskipn {A} n (l : list A) : zfirstn n l ++ zskipn n l = l.
Proof. apply firstn_skipn. Qed.

(* ---------- decidable equality of byte strings ---------- *)
Fixpoint bytes_beq (a b : bytes) : bool :=
  match a, b with
  | [], [] => true
  | x :: a', y :: b' => (x =? y) && bytes_beq a' b'
  | _, _ => false
  end.

Lemma bytes_beq_spec a b : bytes_beq a b = true <-> a = b.
Proof.
  revert b; induction a as [|x a IH]; intros [|y b]; cbn; split; intros H; try discriminate; try reflexivity.
  - apply andb_prop in H. destruct H as [H1 H2]. apply Z.eqb_eq in H1. apply IH in H2. subst. reflexivity.
  - inversion H; subst. rewrite Z.eqb_refl. cbn. apply IH. reflexivity.
Qed.

Lemma bytes_beq_refl a : bytes_beq a a = true.
Proof. apply bytes_beq_spec. reflexivity. Qed.
