(* Model/PackedFile.v — dulwich/refs.py: the packed-refs file as text.
   write_packed_refs (header when peeled values are given, one "<sha> <name>\n"
   per ref in name order, "^<peeled>\n" after a ref that has a peeled value) and
   the readers behind DiskRefsContainer.get_packed_refs: the first line decides
   between read_packed_refs_with_peeled and read_packed_refs; _split_ref_line.
   Definitions only. *)
From DV Require Export Bytes RefName.

Definition LF : Z := 10.
Definition CR : Z := 13.
Definition SP : Z := 32.
Definition CARET : Z := 94.
Definition HASH : Z := 35.

Record pref := { p_name : bytes; p_sha : bytes; p_peeled : option bytes }.

(* "# pack-refs with: peeled\n" *)
Definition HEADER : bytes :=
  [35; 32; 112; 97; 99; 107; 45; 114; 101; 102; 115; 32; 119; 105; 116; 104; 58; 32; 112; 101; 101; 108; 101; 100; 10].

Definition ref_lines (with_peeled : bool) (r : pref) : list bytes :=
  (p_sha r ++ [SP] ++ p_name r ++ [LF]) ::
  match p_peeled r with Some q => if with_peeled then [[CARET] ++ q ++ [LF]] else [] | None => [] end.
Definition write_packed (with_peeled : bool) (l : list pref) : bytes :=
  (if with_peeled then HEADER else []) ++ concat (flat_map (ref_lines with_peeled) l).

(* ---------- reading ---------- *)
(* iterating a file: lines keep their newline; the last one may lack it *)
Fixpoint split_lines_f (l cur : bytes) : list bytes :=
  match l with
  | [] => match cur with [] => [] | _ => [rev cur] end
  | x :: r => if x =? LF then rev (x :: cur) :: split_lines_f r [] else split_lines_f r (x :: cur)
  end.
Definition split_lines (l : bytes) : list bytes := split_lines_f l [].

Fixpoint drop_while (f : Z -> bool) (l : bytes) : bytes :=
  match l with x :: r => if f x then drop_while f r else l | [] => [] end.
Definition is_crlf (b : Z) : bool := (b =? LF) || (b =? CR).
Definition rstrip_crlf (l : bytes) : bytes := rev (drop_while is_crlf (rev l)).
(* bytes.rstrip(): space, \t \n \v \f \r *)
Definition is_space (b : Z) : bool := (b =? 32) || ((9 <=? b) && (b <=? 13)).
Definition rstrip (l : bytes) : bytes := rev (drop_while is_space (rev l)).

(* bytes.split(b" "): every separator splits, at least one field *)
Fixpoint split_sp_f (l cur : bytes) : list bytes :=
  match l with
  | [] => [rev cur]
  | x :: r => if x =? SP then rev cur :: split_sp_f r [] else split_sp_f r (x :: cur)
  end.
Definition split_sp (l : bytes) : list bytes := split_sp_f l [].

Definition is_hex (b : Z) : bool := ((48 <=? b) && (b <=? 57)) || ((97 <=? b) && (b <=? 102)) || ((65 <=? b) && (b <=? 70)).
Definition valid_hexsha (s : bytes) : bool := ((zlen s =? 40) || (zlen s =? 64)) && forallb is_hex s.

Definition starts (c : Z) (l : bytes) : bool := match l with x :: _ => x =? c | [] => false end.

Definition split_ref_line (line : bytes) : option (bytes * bytes) :=
  match split_sp (rstrip_crlf line) with
  | [sha; name] => if valid_hexsha sha && check_ref_format name then Some (sha, name) else None
  | _ => None
  end.

(* read_packed_refs_with_peeled; [last] empty = no pending line.  None = PackedRefsException *)
Fixpoint read_peeled (lines : list bytes) (last : bytes) : option (list pref) :=
  let flush (k : list pref -> option (list pref)) (rest : option (list pref)) := match rest with Some l => k l | None => None end in
  match lines with
  | [] => match last with
          | [] => Some []
          | _ => match split_ref_line last with Some (s, n) => Some [{| p_name := n; p_sha := s; p_peeled := None |}] | None => None end
          end
  | line :: r =>
    if starts HASH line then read_peeled r last
    else
      let ln := rstrip_crlf line in
      if starts CARET ln then
        match last with
        | [] => None
        | _ => if valid_hexsha (tl ln) then
                 match split_ref_line last with
                 | Some (s, n) => match read_peeled r [] with Some l => Some ({| p_name := n; p_sha := s; p_peeled := Some (tl ln) |} :: l) | None => None end
                 | None => None
                 end
               else None
        end
      else
        match last with
        | [] => read_peeled r ln
        | _ => match split_ref_line last with
               | Some (s, n) => match read_peeled r ln with Some l => Some ({| p_name := n; p_sha := s; p_peeled := None |} :: l) | None => None end
               | None => None
               end
        end
  end.

(* read_packed_refs *)
Fixpoint read_plain (lines : list bytes) : option (list pref) :=
  match lines with
  | [] => Some []
  | line :: r =>
    if starts HASH line then read_plain r
    else if starts CARET line then None
    else match split_ref_line line with
         | Some (s, n) => match read_plain r with Some l => Some ({| p_name := n; p_sha := s; p_peeled := None |} :: l) | None => None end
         | None => None
         end
  end.

(* b"# pack-refs" is a prefix and b" peeled" occurs *)
Fixpoint is_prefix_b (p l : bytes) : bool :=
  match p, l with [], _ => true | x :: p', y :: l' => (x =? y) && is_prefix_b p' l' | _ :: _, [] => false end.
Fixpoint contains (p l : bytes) : bool :=
  is_prefix_b p l || match l with [] => false | _ :: r => contains p r end.
Definition PACKREFS : bytes := [35; 32; 112; 97; 99; 107; 45; 114; 101; 102; 115].
Definition SP_PEELED : bytes := [32; 112; 101; 101; 108; 101; 100].

(* get_packed_refs on the content of an existing, non-empty file *)
Definition read_packed (content : bytes) : option (list pref) :=
  match split_lines content with
  | [] => None                              (* next(iter(f)) raises StopIteration *)
  | first :: rest =>
    let fl := rstrip first in
    if is_prefix_b PACKREFS fl && contains SP_PEELED fl then read_peeled rest [] else read_plain (first :: rest)
  end.

(* what may be written: a hex id, a well-formed name, a hex id as peeled value *)
Definition valid_pref (r : pref) : bool :=
  valid_hexsha (p_sha r) && check_ref_format (p_name r) &&
  match p_peeled r with Some q => valid_hexsha q | None => true end.
Definition drop_peeled (r : pref) : pref := {| p_name := p_name r; p_sha := p_sha r; p_peeled := None |}.
