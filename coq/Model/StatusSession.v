(* Model/StatusSession.v — a work-tree session as a state machine over the three
   listings of Model/Status.v: edits of the work tree (write, mkdir, delete) and of
   the index (porcelain.add of one path / of everything that is dirty, rm --cached,
   unstage), with porcelain.status as the observer.  Definitions only. *)
From DV Require Import Status.

Definition upd {A} (f : path -> option A) (p : path) (v : option A) : path -> option A :=
  fun q => if Nat.eqb q p then v else f q.

Record st := { hd : tree; ix : index; wt : worktree }.

Inductive op :=
| OWrite (p : path) (e : entry) (sg : Z)   (* p is created or rewritten as a file or symlink: mode and content e, lstat signature sg *)
| OMkdir (p : path)                          (* p becomes a directory *)
| ODelete (p : path)
| OStage (p : path)                          (* porcelain.add(paths=[p]) for a path that is not a directory *)
| OStageAll (ps : list path)                 (* porcelain.add over a directory: every dirty path among ps *)
| ORmCached (p : path)
| OUnstage (p : path) (sg : Z).              (* index entry reset to HEAD's, with the synthetic signature sg *)

(* Index.stage of one path: the entry is rebuilt from lstat; a missing file or a
   directory in its place drops the entry *)
Definition stage1 (i : index) (w : worktree) (p : path) : index :=
  match w p with
  | Some x => if w_isdir x then upd i p None
              else upd i p (Some {| i_entry := w_entry x; i_sig := w_sig x |})
  | None => upd i p None
  end.

Definition dirty (fm : bool) (i : index) (w : worktree) (p : path) : bool :=
  unstaged fm i w p || untracked i w p.

Definition stage_dirty (fm : bool) (w : worktree) (i : index) (p : path) : index :=
  if dirty fm i w p then stage1 i w p else i.

Definition dir_entry : wentry := {| w_entry := {| e_mode := 16384; e_id := 0 |}; w_sig := 0; w_isdir := true |}.

Definition step (fm : bool) (s : st) (o : op) : st :=
  match o with
  | OWrite p e sg => {| hd := hd s; ix := ix s; wt := upd (wt s) p (Some {| w_entry := e; w_sig := sg; w_isdir := false |}) |}
  | OMkdir p => {| hd := hd s; ix := ix s; wt := upd (wt s) p (Some dir_entry) |}
  | ODelete p => {| hd := hd s; ix := ix s; wt := upd (wt s) p None |}
  | OStage p => {| hd := hd s; ix := stage1 (ix s) (wt s) p; wt := wt s |}
  | OStageAll ps => {| hd := hd s; ix := fold_left (stage_dirty fm (wt s)) ps (ix s); wt := wt s |}
  | ORmCached p => {| hd := hd s; ix := upd (ix s) p None; wt := wt s |}
  | OUnstage p sg => {| hd := hd s;
                        ix := upd (ix s) p (match hd s p with Some e => Some {| i_entry := e; i_sig := sg |} | None => None end);
                        wt := wt s |}
  end.

Definition run (fm : bool) (s : st) (ops : list op) : st := fold_left (step fm) ops s.

(* porcelain.status as five predicates on paths *)
Definition staged (s : st) (p : path) : bool :=
  staged_add (hd s) (ix s) p || staged_delete (hd s) (ix s) p || staged_modify (hd s) (ix s) p.
Definition st_unstaged (fm : bool) (s : st) (p : path) : bool := unstaged fm (ix s) (wt s) p.
Definition st_untracked (s : st) (p : path) : bool := untracked (ix s) (wt s) p.

(* the state right after a checkout of t *)
Definition after_checkout (t : tree) (sigs : path -> Z) : st :=
  {| hd := t; ix := fst (checkout t sigs); wt := snd (checkout t sigs) |}.
