(* Model/RefCas.v — dulwich/refs.py DiskRefsContainer: conditional updates of one
   loose ref under its lock file, as step programs for any number of actors and
   any interleaving:
     set_if_equals(old,new) / add_if_new(new) / unconditional set / remove_if_equals(old):
       lock (O_EXCL) -> read the ref again under the lock -> compare ->
       (write + rename, which also releases the lock | remove the file, then unlock) | unlock
     commit (WorkTree.commit / do_commit): read the branch (no lock), build a commit
       whose parent is that value, then set_if_equals(that value, commit) / add_if_new
     read: one read.
   Ghost state: the list of values the ref has held.  Definitions only. *)
From Coq Require Export List Arith Bool Lia.
Export ListNotations.

Inductive result := RTrue | RFalse | RLocked | RSeen (v : option nat).

Inductive kind :=
| KCas (old new : nat)      (* set_if_equals(name, old, new) *)
| KAdd (new : nat)          (* add_if_new *)
| KSet (new : nat)          (* set_if_equals(name, None, new): unconditional *)
| KDel (old : nat)          (* remove_if_equals(name, old) *)
| KCommit (c : nat)         (* commit c on the branch *)
| KRead.

Inductive pc := PReadTip | PReadAdd | PLock | PCheck | PWrite | PUnlock (r : result) | PDone (r : result).

Record actor := { a_kind : kind; a_pc : pc; a_tip : option nat (* what a committer read *) }.

Record state := {
  ref : option nat;
  lock : option nat;
  acts : nat -> actor;
  hist : list (option nat);           (* ghost: every value of the ref, newest first *)
  parent : list (nat * option nat)    (* ghost: parent of every commit object created *)
}.

Definition upd (f : nat -> actor) (i : nat) (a : actor) : nat -> actor := fun j => if Nat.eqb j i then a else f j.
Definition set_pc (a : actor) (p : pc) : actor := {| a_kind := a_kind a; a_pc := p; a_tip := a_tip a |}.
Definition with_pc (s : state) (i : nat) (p : pc) : state :=
  {| ref := ref s; lock := lock s; acts := upd (acts s) i (set_pc (acts s i) p); hist := hist s; parent := parent s |}.

Definition onat_eqb (a b : option nat) : bool :=
  match a, b with Some x, Some y => Nat.eqb x y | None, None => true | _, _ => false end.

(* the condition an operation checks under the lock *)
Definition cond (a : actor) (cur : option nat) : bool :=
  match a_kind a with
  | KCas o _ => onat_eqb cur (Some o)
  | KAdd _ => onat_eqb cur None
  | KSet _ => true
  | KDel o => onat_eqb cur (Some o)
  | KCommit _ => onat_eqb cur (a_tip a)
  | KRead => false
  end.
(* what it writes *)
Definition newval (a : actor) : option nat :=
  match a_kind a with
  | KCas _ n | KAdd n | KSet n | KCommit n => Some n
  | KDel _ | KRead => None
  end.
Definition is_del (a : actor) : bool := match a_kind a with KDel _ => true | _ => false end.

Definition step (s : state) (i : nat) : state :=
  let a := acts s i in
  match a_pc a with
  | PReadTip =>
    match a_kind a with
    | KRead => {| ref := ref s; lock := lock s; acts := upd (acts s) i (set_pc a (PDone (RSeen (ref s))));
                  hist := hist s; parent := parent s |}
    | KCommit c =>
      {| ref := ref s; lock := lock s;
         (* no value: the commit goes through add_if_new, which reads once more before locking *)
         acts := upd (acts s) i {| a_kind := a_kind a; a_pc := match ref s with None => PReadAdd | Some _ => PLock end; a_tip := ref s |};
         hist := hist s; parent := (c, ref s) :: parent s |}
    | KAdd _ =>
      (* add_if_new follows the name first and gives up without locking if it resolves *)
      match ref s with Some _ => with_pc s i (PDone RFalse) | None => with_pc s i PLock end
    | _ => with_pc s i PLock
    end
  | PReadAdd =>
    match ref s with Some _ => with_pc s i (PDone RFalse) | None => with_pc s i PLock end
  | PLock =>
    match lock s with
    | Some _ => with_pc s i (PDone RLocked)
    | None => {| ref := ref s; lock := Some i; acts := upd (acts s) i (set_pc a PCheck); hist := hist s; parent := parent s |}
    end
  | PCheck => if cond a (ref s) then with_pc s i PWrite else with_pc s i (PUnlock RFalse)
  | PWrite =>
    if is_del a then
      {| ref := None; lock := lock s; acts := upd (acts s) i (set_pc a (PUnlock RTrue)); hist := None :: hist s; parent := parent s |}
    else
      {| ref := newval a; lock := None; acts := upd (acts s) i (set_pc a (PDone RTrue)); hist := newval a :: hist s; parent := parent s |}
  | PUnlock r =>
    {| ref := ref s; lock := None; acts := upd (acts s) i (set_pc a (PDone r)); hist := hist s; parent := parent s |}
  | PDone _ => s
  end.

Definition run (s : state) (sched : list nat) : state := fold_left step sched s.

Definition mk (k : kind) : actor := {| a_kind := k; a_pc := PReadTip; a_tip := None |}.
Definition idle : actor := {| a_kind := KRead; a_pc := PDone (RSeen None); a_tip := None |}.
Definition init (r0 : option nat) (l : list kind) : state :=
  {| ref := r0; lock := None; acts := fun i => nth i (map mk l) idle; hist := [r0]; parent := [] |}.

Definition holds_lock (p : pc) : bool := match p with PCheck | PWrite | PUnlock _ => true | _ => false end.
