(* Model/RefName.v — ref-name validity.
   dulwich/refs.py check_ref_format (each Python test is one small automaton run
   over the name; the function is their conjunction) and git's
   check_refname_format (refs.c 2.39: refname_disposition table,
   check_refname_component, check_or_sanitize_refname without flags)
   transcribed as a single-pass state machine.  Definitions only. *)
From DV Require Export Bytes.

Definition SLASH := 47.
Definition DOT := 46.
Definition AT := 64.
Definition LBRACE := 123.
Definition BSL := 92.

(* progress of matching the suffix ".lock" (46 108 111 99 107) *)
Definition lock_next (p : Z) (b : Z) : Z :=
  if (p =? 0) && (b =? 46) then 1
  else if (p =? 1) && (b =? 108) then 2
  else if (p =? 2) && (b =? 111) then 3
  else if (p =? 3) && (b =? 99) then 4
  else if (p =? 4) && (b =? 107) then 5
  else if b =? 46 then 1 else 0.

(* ---------- dulwich ---------- *)
(* BAD_REF_CHARS = set(b"\177 ~^:?*[") plus everything below 0o40 *)
Definition d_bad (b : Z) : bool :=
  (b <? 32) || (b =? 127) || (b =? 32) || (b =? 126) || (b =? 94) || (b =? 58) || (b =? 63)
  || (b =? 42) || (b =? 91).

Record dstate := {
  d_len : Z;            (* min(len, 2) *)
  d_first_at : bool;    (* first byte is '@' *)
  d_slash : bool;       (* b"/" in refname *)
  d_last_dot : bool; d_dotdot : bool;      (* b".." in refname *)
  d_badc : bool;        (* a byte < 0o40 or in BAD_REF_CHARS *)
  d_last : Z;           (* 0 none, 1 last byte is '/' or '.', 2 other *)
  d_last_at : bool; d_atbrace : bool;      (* b"@{" in refname *)
  d_bs : bool;          (* b"\\" in refname *)
  d_cstart : bool;      (* current component still empty *)
  d_lock : Z;           (* ".lock" suffix progress in the current component *)
  d_badcomp : bool      (* an earlier component was empty, began with '.', or ended in ".lock" *)
}.

Definition d_init : dstate :=
  {| d_len := 0; d_first_at := false; d_slash := false; d_last_dot := false; d_dotdot := false;
     d_badc := false; d_last := 0; d_last_at := false; d_atbrace := false; d_bs := false;
     d_cstart := true; d_lock := 0; d_badcomp := false |}.

Definition d_step (s : dstate) (b : Z) : dstate :=
  let sl := b =? SLASH in
  {| d_len := Z.min 2 (d_len s + 1);
     d_first_at := if d_len s =? 0 then b =? AT else d_first_at s;
     d_slash := d_slash s || sl;
     d_last_dot := b =? DOT;
     d_dotdot := d_dotdot s || (d_last_dot s && (b =? DOT));
     d_badc := d_badc s || d_bad b;
     d_last := if sl || (b =? DOT) then 1 else 2;
     d_last_at := b =? AT;
     d_atbrace := d_atbrace s || (d_last_at s && (b =? LBRACE));
     d_bs := d_bs s || (b =? BSL);
     d_cstart := sl;
     d_lock := if sl then 0 else lock_next (d_lock s) b;
     d_badcomp := d_badcomp s
                  || (if sl then d_cstart s || (d_lock s =? 5) else d_cstart s && (b =? DOT)) |}.

Definition d_accept (s : dstate) : bool :=
  negb ((d_len s =? 1) && d_first_at s)        (* refname == b"@" *)
  && d_slash s && negb (d_dotdot s) && negb (d_badc s)
  && (d_last s =? 2)                            (* refname[-1] not in b"/." *)
  && negb (d_atbrace s) && negb (d_bs s)
  && negb (d_badcomp s || d_cstart s || (d_lock s =? 5)).   (* last component *)

Definition check_ref_format (name : bytes) : bool := d_accept (fold_left d_step name d_init).

(* ---------- git ---------- *)
(* refname_disposition: 1 end of component, 2 '.', 3 '{', 4 bad, 5 '*', 0 fine *)
Definition g_disp (b : Z) : Z :=
  if b =? 0 then 1 else if b =? SLASH then 1
  else if b =? DOT then 2 else if b =? LBRACE then 3
  else if (b <? 32) || (b =? 127) || (b =? 32) || (b =? 58) || (b =? 63) || (b =? 91) || (b =? BSL)
          || (b =? 94) || (b =? 126) then 4
  else if b =? 42 then 5 else 0.

Record gstate := {
  g_len : Z; g_first_at : bool;   (* strcmp(refname, "@") *)
  g_rej : bool;                   (* return -1 taken *)
  g_count : Z;                    (* completed components, saturating at 2 *)
  g_empty : bool;                 (* cp == refname *)
  g_fdot : bool;                  (* refname[0] == '.' *)
  g_last : Z;                     (* 0 other, 1 '.', 2 '@' *)
  g_lock : Z
}.

Definition g_init : gstate :=
  {| g_len := 0; g_first_at := false; g_rej := false; g_count := 0; g_empty := true; g_fdot := false;
     g_last := 0; g_lock := 0 |}.

(* the checks made when a component ends *)
Definition g_comp_bad (s : gstate) : bool := g_empty s || g_fdot s || (g_lock s =? 5).

Definition g_step (s : gstate) (b : Z) : gstate :=
  let d := g_disp b in
  let len' := Z.min 2 (g_len s + 1) in
  let fat := if g_len s =? 0 then b =? AT else g_first_at s in
  if d =? 1 then
    {| g_len := len'; g_first_at := fat; g_rej := g_rej s || g_comp_bad s;
       g_count := Z.min 2 (g_count s + 1); g_empty := true; g_fdot := false; g_last := 0; g_lock := 0 |}
  else
    {| g_len := len'; g_first_at := fat;
       g_rej := g_rej s || ((d =? 2) && (g_last s =? 1)) || ((d =? 3) && (g_last s =? 2))
                || (d =? 4) || (d =? 5);
       g_count := g_count s; g_empty := false;
       g_fdot := if g_empty s then b =? DOT else g_fdot s;
       g_last := if b =? DOT then 1 else if b =? AT then 2 else 0;
       g_lock := lock_next (g_lock s) b |}.

Definition g_accept (s : gstate) : bool :=
  negb ((g_len s =? 1) && g_first_at s)
  && negb (g_rej s || g_comp_bad s)
  && negb (g_last s =? 1)                       (* refname[component_len - 1] == '.' *)
  && (1 <=? g_count s).                         (* component_count (this one included) >= 2 *)

Definition git_check_refname_format (name : bytes) : bool := g_accept (fold_left g_step name g_init).

(* ---------- RefsContainer._check_refname ---------- *)
Fixpoint has_dslash (l : bytes) : bool :=
  match l with a :: ((b :: _) as r) => ((a =? SLASH) && (b =? SLASH)) || has_dslash r | _ => false end.

(* _collapse_slashes: b"/".join(c for c in refname.split(b"/") if c) *)
Fixpoint collapse (l : bytes) (started pending : bool) : bytes :=
  match l with
  | [] => []
  | c :: r => if c =? SLASH then collapse r started started
              else (if pending then [SLASH] else []) ++ c :: collapse r true false
  end.

Definition REFS_PREFIX : bytes := [114; 101; 102; 115; 47].
Definition HEADREF : bytes := [72; 69; 65; 68].
Definition STASH : bytes := [114; 101; 102; 115; 47; 115; 116; 97; 115; 104].

Fixpoint beqb (a b : bytes) : bool :=
  match a, b with
  | [], [] => true
  | x :: a', y :: b' => (x =? y) && beqb a' b'
  | _, _ => false
  end.

(* true = accepted (possibly with the deprecation warning), false = RefFormatError *)
Definition check_refname (name : bytes) : bool :=
  if beqb name HEADREF || beqb name STASH then true
  else if negb (beqb (firstn 5 name) REFS_PREFIX) then false
  else
    let rest := skipn 5 name in
    check_ref_format rest || (has_dslash name && check_ref_format (collapse rest false false)).
