(* Model/RustTwins.v — functions with a pure-Python and a Rust implementation:
   parse_tree (dulwich/objects.py, crates/objects), the tree-order comparison
   behind sorted_tree_items (key_entry vs cmp_with_suffix), bisect_find_sha
   (dulwich/pack.py, crates/pack).  apply_delta's twins are in Model/Delta.v.
   Definitions only. *)
From DV Require Export Bytes.

(* ---------- parse_tree ---------- *)
Definition is_octal (c : Z) : bool := (48 <=? c) && (c <=? 55).
Definition octal_value (l : bytes) : Z := fold_left (fun acc c => acc * 8 + (c - 48)) l 0.

(* text.index(b, start): position of the first b at or after the head *)
Fixpoint find_byte (b : Z) (l : bytes) : option Z :=
  match l with
  | [] => None
  | c :: r => if c =? b then Some 0 else match find_byte b r with Some k => Some (k + 1) | None => None end
  end.

Definition tentry : Type := bytes * Z * bytes.     (* name, mode, raw sha *)

(* one entry, Python order of checks; None = an exception (ObjectFormatException or ValueError) *)
Definition py_entry (sha_len : Z) (strict : bool) (text : bytes) : option (tentry * bytes) :=
  match find_byte 32 text with
  | None => None                                           (* text.index(b" ") *)
  | Some mode_end =>
    let mode_text := zfirstn mode_end text in
    if strict && (match mode_text with c :: _ => c =? 48 | [] => false end) then None
    else if (match mode_text with [] => true | _ => false end) || negb (forallb is_octal mode_text) then None
    else
      let mode := octal_value mode_text in
      if mode >? 4294967295 then None
      else
        let after := zskipn mode_end text in               (* starts with the space *)
        match find_byte 0 after with
        | None => None
        | Some k =>                                        (* name_end = mode_end + k *)
          let name := slice after 1 (k - 1) in
          let rest := zskipn (k + 1) after in
          if zlen rest <? sha_len then None
          else Some ((name, mode, zfirstn sha_len rest), zskipn sha_len rest)
        end
  end.

Fixpoint py_parse_tree (fuel : nat) (sha_len : Z) (strict : bool) (text : bytes) : option (list tentry) :=
  match fuel with
  | O => None
  | S f =>
    match text with
    | [] => Some []
    | _ => match py_entry sha_len strict text with
           | None => None
           | Some (e, rest) => match py_parse_tree f sha_len strict rest with
                               | Some es => Some (e :: es)
                               | None => None
                               end
           end
    end
  end.

(* u32::from_str_radix(s, 8) after the digits-only guard: None on empty input
   or on overflow of u32 (checked multiplication / addition digit by digit) *)
Fixpoint u32_octal (l : bytes) (acc : Z) : option Z :=
  match l with
  | [] => Some acc
  | c :: r => let v := acc * 8 + (c - 48) in if v >? 4294967295 then None else u32_octal r v
  end.

Definition rs_entry (sha_len : Z) (strict : bool) (text : bytes) : option (tentry * bytes) :=
  match find_byte 32 text with
  | None => None                                           (* Missing terminator for mode *)
  | Some mode_end =>
    let mode_text := zfirstn mode_end text in
    if negb (forallb is_octal mode_text) then None
    else match (match mode_text with [] => None | _ => u32_octal mode_text 0 end) with
    | None => None
    | Some mode =>
      if strict && (match text with c :: _ => c =? 48 | [] => false end) then None
      else
        let t1 := zskipn (mode_end + 1) text in
        match find_byte 0 t1 with
        | None => None
        | Some namelen =>
          let name := zfirstn namelen t1 in
          let t2 := zskipn (namelen + 1) t1 in
          if zlen t2 <? sha_len then None
          else Some ((name, mode, zfirstn sha_len t2), zskipn sha_len t2)
        end
    end
  end.

Fixpoint rs_parse_tree (fuel : nat) (sha_len : Z) (strict : bool) (text : bytes) : option (list tentry) :=
  match fuel with
  | O => None
  | S f =>
    match text with
    | [] => Some []
    | _ => match rs_entry sha_len strict text with
           | None => None
           | Some (e, rest) => match rs_parse_tree f sha_len strict rest with
                               | Some es => Some (e :: es)
                               | None => None
                               end
           end
    end
  end.

(* ---------- tree order ---------- *)
Inductive ord := OLt | OEq | OGt.
Definition zcmp (a b : Z) : ord := if a <? b then OLt else if b <? a then OGt else OEq.

(* bytes comparison as Python and Rust slices do it: first difference, then length *)
Fixpoint bytes_cmp (a b : bytes) : ord :=
  match a, b with
  | [], [] => OEq
  | [], _ :: _ => OLt
  | _ :: _, [] => OGt
  | x :: a', y :: b' => match zcmp x y with OEq => bytes_cmp a' b' | o => o end
  end.

Definition is_dir (mode : Z) : bool := (mode / 4096) mod 16 =? 4.       (* (mode & 0o170000) == 0o040000 *)

(* Python: key_entry appends "/" to directory names, then bytes comparison *)
Definition py_key (name : bytes) (mode : Z) : bytes := if is_dir mode then name ++ [47] else name.
Definition py_tree_cmp (a : bytes * Z) (b : bytes * Z) : ord := bytes_cmp (py_key (fst a) (snd a)) (py_key (fst b) (snd b)).

(* Rust: cmp_with_suffix compares name.iter().chain(suffix) lexicographically,
   the suffix being "/" for a directory and empty otherwise *)
Definition rs_suffix (mode : Z) : bytes := if is_dir mode then [47] else [].
Definition rs_tree_cmp (a : bytes * Z) (b : bytes * Z) : ord :=
  bytes_cmp (fst a ++ rs_suffix (snd a)) (fst b ++ rs_suffix (snd b)).

(* the comparator the crate had before: the common prefix and then a single
   byte ("/" or NUL standing in for the end of a directory or file name) *)
Fixpoint rs_cmp_suffix (a b : bytes) (da db : bool) : ord :=
  match a, b with
  | x :: a', y :: b' => match zcmp x y with OEq => rs_cmp_suffix a' b' da db | o => o end
  | [], [] => zcmp (if da then 47 else 0) (if db then 47 else 0)
  | [], y :: _ => zcmp (if da then 47 else 0) y
  | x :: _, [] => zcmp x (if db then 47 else 0)
  end.
Definition rs_tree_cmp_one_byte (a : bytes * Z) (b : bytes * Z) : ord :=
  rs_cmp_suffix (fst a) (fst b) (is_dir (snd a)) (is_dir (snd b)).

(* ---------- bisect_find_sha ---------- *)
(* the table is a function from index to name; fuel bounds the halvings *)
Inductive bres := BFound (i : Z) | BNone | BErr | BPanic.

Fixpoint py_bisect (fuel : nat) (name : Z -> bytes) (sha : bytes) (start end_ : Z) : bres :=
  match fuel with
  | O => BErr
  | S f =>
    if start >? end_ then BNone
    else
      let i := (start + end_) / 2 in
      match bytes_cmp (name i) sha with
      | OLt => py_bisect f name sha (i + 1) end_
      | OGt => py_bisect f name sha start (i - 1)
      | OEq => BFound i
      end
  end.
Definition py_bisect_top (fuel : nat) name sha s e : bres :=
  if negb ((zlen sha =? 20) || (zlen sha =? 32)) then BErr (* ValueError *)
  else if s >? e then BErr (* assert start <= end *) else py_bisect fuel name sha s e.

Definition i64_ok (x : Z) : bool := (- 9223372036854775808 <=? x) && (x <=? 9223372036854775807).

Fixpoint rs_bisect (fuel : nat) (name : Z -> bytes) (sha : bytes) (start end_ : Z) : bres :=
  match fuel with
  | O => BErr
  | S f =>
    if start >? end_ then BNone
    else
      let d := end_ - start in
      if negb (i64_ok d) then BPanic
      else
        let i := start + Z.quot d 2 in
        if negb (i64_ok i) then BPanic
        else match bytes_cmp (name i) sha with
             | OLt => if i64_ok (i + 1) then rs_bisect f name sha (i + 1) end_ else BPanic
             | OGt => if i64_ok (i - 1) then rs_bisect f name sha start (i - 1) else BPanic
             | OEq => BFound i
             end
  end.
Definition rs_bisect_top (fuel : nat) name sha s e : bres :=
  if negb ((zlen sha =? 20) || (zlen sha =? 32)) then BErr
  else if s >? e then BErr else rs_bisect fuel name sha s e.

(* ---------- _count_blocks ---------- *)
(* blocks end after a line feed or when they reach 64 bytes; cur is the block
   being filled (reversed), n its length *)
Fixpoint split_blocks (l : bytes) (cur : bytes) (n : Z) : list bytes :=
  match l with
  | [] => match cur with [] => [] | _ => [rev cur] end
  | c :: r => if (c =? 10) || (n + 1 =? 64) then rev (c :: cur) :: split_blocks r [] 0
              else split_blocks r (c :: cur) (n + 1)
  end.
Definition count_blocks (data : bytes) : list bytes := split_blocks data [] 0.
