(* Model/PktLine.v — pkt-line and side-band framing as implemented in
   dulwich/protocol.py (pkt_line, pkt_seq, _parse_pkt_line_length,
   Protocol.read_pkt_line/read_pkt_seq/write_sideband, ReceivableProtocol.read,
   PktLineParser.parse, BufferedPktLineWriter) and dulwich/client.py
   (_read_side_band64k_data).  Definitions only. *)
From DV Require Export Bytes.

(* ---------- writer ---------- *)
Definition hexdigit (n : Z) : Z := if n <? 10 then 48 + n else 87 + n.   (* "%x" *)
Definition hex4 (n : Z) : bytes :=
  [hexdigit (n / 4096 mod 16); hexdigit (n / 256 mod 16); hexdigit (n / 16 mod 16); hexdigit (n mod 16)].

Definition MAX_DATA : Z := 65516.

Inductive wres := WOk (frame : bytes) | WValueError.

(* pkt_line(data): None = flush-pkt *)
Definition pkt_line (d : option bytes) : wres :=
  match d with
  | None => WOk [48; 48; 48; 48]
  | Some p => if zlen p >? MAX_DATA then WValueError else WOk (hex4 (zlen p + 4) ++ p)
  end.

(* pkt_seq: every payload then a flush *)
Fixpoint pkt_seq (l : list bytes) : wres :=
  match l with
  | [] => pkt_line None
  | p :: r => match pkt_line (Some p), pkt_seq r with
              | WOk a, WOk b => WOk (a ++ b)
              | _, _ => WValueError
              end
  end.

(* ---------- length prefix ---------- *)
Definition hexval (c : Z) : option Z :=
  if (48 <=? c) && (c <=? 57) then Some (c - 48)
  else if (97 <=? c) && (c <=? 102) then Some (c - 87)
  else if (65 <=? c) && (c <=? 70) then Some (c - 55)
  else None.

(* _parse_pkt_line_length: exactly four hex digits, else GitProtocolError *)
Definition parse_len (s : bytes) : option Z :=
  match s with
  | [a; b; c; d] =>
    match hexval a, hexval b, hexval c, hexval d with
    | Some a, Some b, Some c, Some d => Some (a * 4096 + b * 256 + c * 16 + d)
    | _, _, _, _ => None
    end
  | _ => None
  end.

(* ---------- Protocol.read_pkt_line over a file-like read ---------- *)
Inductive rres :=
| RFrame (p : bytes)
| RNone              (* flush-pkt 0000 or delim-pkt 0001 *)
| RHangup            (* HangupException: EOF before a prefix *)
| RProtoErr.         (* GitProtocolError *)

Definition read_pkt_line (s : bytes) : rres * bytes :=
  let sizestr := zfirstn 4 s in
  let s1 := zskipn 4 s in
  match sizestr with
  | [] => (RHangup, s1)
  | _ =>
    match parse_len sizestr with
    | None => (RProtoErr, s1)
    | Some size =>
      if (size =? 0) || (size =? 1) then (RNone, s1)
      else if size <? 4 then (RProtoErr, s1)
      else
        let p := if size >? 4 then zfirstn (size - 4) s1 else [] in
        let s2 := if size >? 4 then zskipn (size - 4) s1 else s1 in
        if zlen p + 4 =? size then (RFrame p, s2) else (RProtoErr, s2)
    end
  end.

(* read_pkt_seq: frames up to the next flush/delim; an error ends it *)
Inductive seq_end := SEnd | SHangup | SProtoErr | SFuel.
Fixpoint read_pkt_seq (fuel : nat) (s : bytes) : list bytes * seq_end * bytes :=
  match fuel with
  | O => ([], SFuel, s)
  | S f =>
    match read_pkt_line s with
    | (RFrame p, r) => let '(ps, e, r') := read_pkt_seq f r in (p :: ps, e, r')
    | (RNone, r) => ([], SEnd, r)
    | (RHangup, r) => ([], SHangup, r)
    | (RProtoErr, r) => ([], SProtoErr, r)
    end
  end.
Definition seq_fuel (s : bytes) : nat := S (length s).

(* ---------- ReceivableProtocol.read under an arbitrary recv schedule ---------- *)
(* recv(k) returns a non-empty prefix of the wire of length <= k, or b"" at EOF.
   The schedule lists how many bytes each successive recv is willing to give. *)
Definition recv (k : Z) (wire : bytes) (sched : list Z) : bytes * bytes * list Z :=
  let want := match sched with [] => k | n :: _ => Z.max 1 (Z.min n k) end in
  let n := Z.min want (zlen wire) in
  (zfirstn n wire, zskipn n wire, tl sched).

Record rstate := { rbuf : bytes; wire : bytes; sched : list Z }.

(* loop of ReceivableProtocol.read after the buffer was found too short:
   acc = what buf holds, from `start` *)
Fixpoint rp_loop (fuel : nat) (size : Z) (acc : bytes) (w : bytes) (sc : list Z)
  : bytes * bytes * list Z :=
  match fuel with
  | O => (acc, w, sc)
  | S f =>
    let left := size - zlen acc in
    let '(data, w', sc') := recv left w sc in
    match data with
    | [] => (acc, w', sc')                                   (* EOF: break *)
    | _ =>
      if (zlen data =? size) && (zlen acc =? 0) then (data, w', sc')     (* shortcut *)
      else if zlen data =? left then (acc ++ data, w', sc')             (* break *)
      else rp_loop f size (acc ++ data) w' sc'
    end
  end.

Definition rp_read (size : Z) (st : rstate) : bytes * rstate :=
  if zlen (rbuf st) >=? size then
    (zfirstn size (rbuf st), {| rbuf := zskipn size (rbuf st); wire := wire st; sched := sched st |})
  else
    let '(out, w, sc) := rp_loop (S (Z.to_nat size)) size (rbuf st) (wire st) (sched st) in
    (out, {| rbuf := []; wire := w; sched := sc |}).

(* read_pkt_line with self.read = ReceivableProtocol.read *)
Definition rp_read_pkt_line (st : rstate) : rres * rstate :=
  let '(sizestr, st1) := rp_read 4 st in
  match sizestr with
  | [] => (RHangup, st1)
  | _ =>
    match parse_len sizestr with
    | None => (RProtoErr, st1)
    | Some size =>
      if (size =? 0) || (size =? 1) then (RNone, st1)
      else if size <? 4 then (RProtoErr, st1)
      else
        let '(p, st2) := if size >? 4 then rp_read (size - 4) st1 else ([], st1) in
        if zlen p + 4 =? size then (RFrame p, st2) else (RProtoErr, st2)
    end
  end.

(* ---------- PktLineParser.parse ---------- *)
Inductive pev := PFrame (p : bytes) | PFlush.
(* drain the buffer: returns events, remaining buffer, error flag *)
Fixpoint pp_drain (fuel : nat) (buf : bytes) : list pev * bytes * bool :=
  match fuel with
  | O => ([], buf, false)
  | S f =>
    if zlen buf <? 4 then ([], buf, false)
    else
      match parse_len (zfirstn 4 buf) with
      | None => ([], buf, true)
      | Some size =>
        if size =? 0 then let '(ev, b, e) := pp_drain f (zskipn 4 buf) in (PFlush :: ev, b, e)
        else if size <? 4 then ([], buf, true)
        else if size <=? zlen buf then
          let '(ev, b, e) := pp_drain f (zskipn size buf) in
          (PFrame (slice buf 4 (size - 4)) :: ev, b, e)
        else ([], buf, false)
      end
  end.
(* on GitProtocolError the exception leaves self._readahead holding everything
   written so far (the drained prefix included); the events were already
   delivered to the callback *)
Definition pp_parse (buf data : bytes) : list pev * bytes * bool :=
  let b := buf ++ data in
  let '(ev, tail, err) := pp_drain (S (length b)) b in
  if err then (ev, b, true) else (ev, tail, false).

(* feeding a list of fragments; stops at the first error like the exception does *)
Fixpoint pp_feed (buf : bytes) (frags : list bytes) : list pev * bytes * bool :=
  match frags with
  | [] => ([], buf, false)
  | d :: r =>
    let '(ev, b, e) := pp_parse buf d in
    if e then (ev, b, true)
    else let '(ev2, b2, e2) := pp_feed b r in (ev ++ ev2, b2, e2)
  end.

(* ---------- side-band ---------- *)
(* write_sideband(channel, blob): frames of at most 65515 data bytes *)
Fixpoint write_sideband (fuel : nat) (ch : Z) (blob : bytes) : list bytes :=
  match fuel with
  | O => []
  | S f => match blob with
           | [] => []
           | _ => (ch :: zfirstn 65515 blob) :: write_sideband f ch (zskipn 65515 blob)
           end
  end.
Definition sb_fuel (blob : bytes) : nat := S (Z.to_nat (zlen blob / 65515)).

(* _read_side_band64k_data: None = GitProtocolError (empty pkt) *)
Definition sb_demux (pkts : list bytes) : option (list (Z * bytes)) :=
  fold_right (fun p acc => match p, acc with
                           | ch :: d, Some l => Some ((ch, d) :: l)
                           | _, _ => None
                           end) (Some []) pkts.

(* ---------- BufferedPktLineWriter ---------- *)
(* state: (wbuf, buflen); output: list of writes to the underlying writer.
   flush() resets self._len (sic), not self._buflen: modelled as written. *)
Definition bw_write (bufsize : Z) (st : bytes * Z) (line : bytes) : (bytes * Z) * list bytes :=
  let '(wbuf, buflen) := st in
  let line_len := zlen line in
  let over := buflen + line_len - bufsize in
  if over >=? 0 then
    let start := line_len - over in
    (* Python slicing with a possibly negative index *)
    let cut := if start <? 0 then Z.max 0 (line_len + start) else Z.min start line_len in
    let out := wbuf ++ zfirstn cut line in
    let saved := zskipn cut line in
    ((saved, buflen + zlen saved), match out with [] => [] | _ => [out] end)
  else ((wbuf ++ line, buflen + line_len), []).

Fixpoint bw_run (bufsize : Z) (st : bytes * Z) (payloads : list bytes) : option ((bytes * Z) * list bytes) :=
  match payloads with
  | [] => Some (st, [])
  | p :: r =>
    match pkt_line (Some p) with
    | WValueError => None
    | WOk line =>
      let '(st1, o1) := bw_write bufsize st line in
      match bw_run bufsize st1 r with
      | None => None
      | Some (st2, o2) => Some (st2, o1 ++ o2)
      end
    end
  end.
