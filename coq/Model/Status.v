(* Model/Status.v — dulwich/index.py _check_entry_for_changes / _stat_matches_entry /
   get_unstaged_changes and the three listings behind porcelain.status (HEAD tree,
   index, work tree) as total maps from paths to entries.  Definitions only. *)
From Coq Require Export ZArith List Bool Lia.
Export ListNotations.
Open Scope Z_scope.

Definition path := nat.
Record entry := { e_mode : Z; e_id : Z }.                 (* canonical mode, content id *)
Record ientry := { i_entry : entry; i_sig : Z }.           (* index entry with its recorded stat signature (ctime, mtime, size) *)
Record wentry := { w_entry : entry; w_sig : Z; w_isdir : bool }.   (* what lstat + reading the file give *)

Definition entry_eqb (a b : entry) : bool := (e_mode a =? e_mode b) && (e_id a =? e_id b).

(* _check_entry_for_changes for one index entry: true = reported as unstaged.
   honor_filemode: core.filemode (the executable bit is meaningful) *)
Definition check_entry (honor_filemode : bool) (i : ientry) (w : option wentry) : bool :=
  match w with
  | None => true                                             (* FileNotFoundError: removed *)
  | Some x =>
    if w_isdir x then true                                   (* a directory where a file is tracked (_has_directory_changed; submodules are out of this model): counts as removed *)
    else if w_sig x =? i_sig i                               (* _stat_matches_entry: content taken as unchanged without reading; *)
    then honor_filemode && negb (e_mode (w_entry x) =? e_mode (i_entry i))    (* the mode is in the stat result and compared *)
    else negb (e_id (w_entry x) =? e_id (i_entry i))
         || (honor_filemode && negb (e_mode (w_entry x) =? e_mode (i_entry i)))
  end.

(* the specification: the work tree entry differs from the index entry *)
Definition differs (honor_filemode : bool) (i : ientry) (w : option wentry) : bool :=
  match w with
  | None => true
  | Some x => w_isdir x
              || negb (e_id (w_entry x) =? e_id (i_entry i))
              || (honor_filemode && negb (e_mode (w_entry x) =? e_mode (i_entry i)))
  end.

(* the three listings *)
Definition tree := path -> option entry.
Definition index := path -> option ientry.
Definition worktree := path -> option wentry.

Definition staged_add (h : tree) (i : index) (p : path) : bool :=
  match h p, i p with None, Some _ => true | _, _ => false end.
Definition staged_delete (h : tree) (i : index) (p : path) : bool :=
  match h p, i p with Some _, None => true | _, _ => false end.
Definition staged_modify (h : tree) (i : index) (p : path) : bool :=
  match h p, i p with Some a, Some b => negb (entry_eqb a (i_entry b)) | _, _ => false end.
Definition unstaged (fm : bool) (i : index) (w : worktree) (p : path) : bool :=
  match i p with Some x => check_entry fm x (w p) | None => false end.
Definition untracked (i : index) (w : worktree) (p : path) : bool :=
  match i p, w p with None, Some x => negb (w_isdir x) | _, _ => false end.

(* checkout of a tree: every file is written and its fresh stat recorded in the index *)
Definition checkout (t : tree) (sigs : path -> Z) : index * worktree :=
  (fun p => match t p with Some e => Some {| i_entry := e; i_sig := sigs p |} | None => None end,
   fun p => match t p with Some e => Some {| w_entry := e; w_sig := sigs p; w_isdir := false |} | None => None end).
(* staging everything: the index takes the work tree's entries *)
Definition add_all (w : worktree) : index :=
  fun p => match w p with Some x => if w_isdir x then None else Some {| i_entry := w_entry x; i_sig := w_sig x |} | None => None end.
Definition index_tree (i : index) : tree := fun p => match i p with Some x => Some (i_entry x) | None => None end.
