(* Model/TreeBuild.v — dulwich/index.py commit_tree: the trees built from a flat
   listing of (path, mode, id).  The code fills nested dicts keyed by path
   component and then writes one Tree per dict, children first; a Tree keeps its
   entries in name order.  Here: the names of one directory level are the first
   components of the paths (in name order, each once); a name whose sub-listing
   holds the empty path is a file, otherwise a directory whose id is the id of the
   tree built from the sub-listing.  [H] stands for "id of a tree" (the hash of
   its serialisation).  Listings in which a path is also a directory of another
   path are outside the model (the code's dict of dicts loses entries there).
   Definitions only. *)
From DV Require Export TreeDiff.

Definition listing := list (path * leaf).

Fixpoint ins (n : bytes) (l : list bytes) : list bytes :=
  match l with
  | [] => [n]
  | x :: r => match bytes_cmp n x with OLt => n :: l | OEq => l | OGt => x :: ins n r end
  end.
Definition heads (L : listing) : list bytes :=
  fold_right (fun x acc => match fst x with c :: _ => ins c acc | [] => acc end) [] L.

Fixpoint under (n : bytes) (L : listing) : listing :=
  match L with
  | [] => []
  | (c :: q, v) :: r => if bytes_beq c n then (q, v) :: under n r else under n r
  | ([], _) :: r => under n r
  end.

Definition lookupL (q : path) (L : listing) : option leaf :=
  match List.find (fun x => path_beq (fst x) q) L with Some x => Some (snd x) | None => None end.

Section Build.
  Variable H : list tent -> bytes.

  Fixpoint ents (fuel : nat) (L : listing) : list tent :=
    match fuel with
    | O => []
    | S f => map (fun n => match lookupL [] (under n L) with
                           | Some lf => {| t_name := n; t_mode := fst lf; t_id := snd lf |}
                           | None => {| t_name := n; t_mode := 16384; t_id := H (ents f (under n L)) |}
                           end) (heads L)
    end.

  (* every tree written, this directory's own last *)
  Fixpoint trees (fuel : nat) (L : listing) : list (list tent) :=
    match fuel with
    | O => [[]]
    | S f => flat_map (fun n => match lookupL [] (under n L) with Some _ => [] | None => trees f (under n L) end) (heads L)
             ++ [ents (S f) L]
    end.

  Definition commit_tree (fuel : nat) (L : listing) : bytes * list (list tent) := (H (ents fuel L), trees fuel L).

  Definition store_of (ts : list (list tent)) : store :=
    fun id => match List.find (fun t => bytes_beq (H t) id) ts with Some t => t | None => [] end.
End Build.

(* the domain: no path is a prefix of (or equal to) another entry's path, no empty path, files are not directories *)
Fixpoint is_prefix (a b : path) : bool :=
  match a, b with
  | [], _ => true
  | x :: a', y :: b' => bytes_beq x y && is_prefix a' b'
  | _ :: _, [] => false
  end.
Fixpoint validb (L : listing) : bool :=
  match L with
  | [] => true
  | x :: r => negb (is_dir (fst (snd x))) && match fst x with [] => false | _ => true end &&
              forallb (fun y => negb (is_prefix (fst x) (fst y)) && negb (is_prefix (fst y) (fst x))) r && validb r
  end.
Definition depth (L : listing) : nat := fold_right (fun x acc => Nat.max (length (fst x)) acc) 0%nat L.
