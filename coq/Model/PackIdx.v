(* Model/PackIdx.v — pack entry headers and the pack index lookup.
   dulwich/pack.py: pack_object_header / _decode_object_header (+ the byte loop
   of unpack_object), the OFS_DELTA offset (git varint, Model/Index.v gv_enc /
   gv_dec with the zero check), the fan-out table and _object_offset's
   bisection, the 31-bit / 64-bit offset tables of index v2/v3.
   Definitions only. *)
From DV Require Export Bytes Delta Index RustTwins.

(* ---------- entry header: type and size ---------- *)
Definition obj_header (t size : Z) : bytes :=
  let c := t * 16 + size mod 16 in
  if size / 16 =? 0 then [c] else (c + 128) :: enc_size (size / 16).

(* bytes are read until one has the high bit clear; then _decode_object_header *)
Definition dec_obj_header (l : bytes) : option (Z * Z * bytes) :=
  match l with
  | [] => None
  | c :: r =>
    let t := (c / 16) mod 8 in
    let s0 := c mod 16 in
    if c <? 128 then Some (t, s0, r)
    else match hdr_py r 0 0 with
         | Some (v, r') => Some (t, s0 + v * 16, r')
         | None => None
         end
  end.

(* OFS_DELTA base offset: None = truncated, Some None = ApplyDeltaError (offset 0) *)
Definition dec_ofs (l : bytes) : option (option Z * bytes) :=
  match gv_dec l with
  | None => None
  | Some (v, r) => Some ((if v =? 0 then None else Some v), r)
  end.

(* ---------- index: fan-out and bisection over the sorted name table ---------- *)
Definition first_byte (n : bytes) : Z := match n with c :: _ => c | [] => 0 end.
Definition fan (names : list bytes) (i : Z) : Z :=
  zlen (filter (fun n => first_byte n <=? i) names).
Definition name_at (names : list bytes) (i : Z) : bytes := nth (Z.to_nat i) names [].

(* _object_offset: the index of the name, or None = KeyError *)
Definition idx_lookup (names : list bytes) (sha : bytes) : option Z :=
  let b := first_byte sha in
  let start := if b =? 0 then 0 else fan names (b - 1) in
  let end_ := fan names b in
  if start >=? end_ then None
  else match py_bisect (S (length names)) (name_at names) sha start (end_ - 1) with
       | BFound i => Some i
       | _ => None
       end.

(* ---------- index v2/v3 offset tables ---------- *)
(* writer: offsets below 2^31 inline, others as 2^31 + position in the large table *)
Fixpoint enc_offsets (offs : list Z) (large : list Z) : list Z * list Z :=
  match offs with
  | [] => ([], large)
  | o :: r => if o <? 2147483648
              then let '(t, l) := enc_offsets r large in (o :: t, l)
              else let '(t, l) := enc_offsets r (large ++ [o]) in ((2147483648 + zlen large) :: t, l)
  end.
(* reader: _unpack_offset *)
Definition dec_offset (table large : list Z) (i : Z) : Z :=
  let v := nth (Z.to_nat i) table 0 in
  if 2147483648 <=? v then nth (Z.to_nat (v - 2147483648)) large 0 else v.
