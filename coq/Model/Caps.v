(* Model/Caps.v — dulwich/protocol.py: format_capability_line, format_ref_line,
   extract_capabilities, and the want line with extract_want_line_capabilities.
   Definitions only. *)
From DV Require Export Bytes PackedFile.

Definition NUL : Z := 0.

Definition format_caps (caps : list bytes) : bytes := flat_map (fun c => SP :: c) caps.
Definition format_ref_line (ref sha : bytes) (caps : option (list bytes)) : bytes :=
  match caps with
  | None => sha ++ [SP] ++ ref ++ [LF]
  | Some cs => sha ++ [SP] ++ ref ++ [NUL] ++ format_caps cs ++ [LF]
  end.

(* bytes.strip(): both ends *)
Definition strip (l : bytes) : bytes := drop_while is_space (rstrip l).

Fixpoint split_on_f (c : Z) (l cur : bytes) : list bytes :=
  match l with
  | [] => [rev cur]
  | x :: r => if x =? c then rev cur :: split_on_f c r [] else split_on_f c r (x :: cur)
  end.
Definition split_on (c : Z) (l : bytes) : list bytes := split_on_f c l [].

(* None = ValueError (more than one NUL) *)
Definition extract_capabilities (text : bytes) : option (bytes * list bytes) :=
  if negb (existsb (fun b => b =? NUL) text) then Some (text, [])
  else match split_on NUL (rstrip text) with
       | [t; c] => let c' := strip c in Some (t, match c' with [] => [] | _ => split_on SP c' end)
       | _ => None
       end.

(* "want <id> cap1 cap2 ...\n" *)
Definition WANT : bytes := [119; 97; 110; 116].
Definition format_want_line (sha : bytes) (caps : list bytes) : bytes := WANT ++ [SP] ++ sha ++ format_caps caps ++ [LF].
Definition join_sp (a b : bytes) : bytes := a ++ [SP] ++ b.
Definition extract_want_line_capabilities (text : bytes) : bytes * list bytes :=
  match split_on SP (rstrip text) with
  | a :: b :: c :: r => (join_sp a b, c :: r)
  | _ => (text, [])
  end.

(* a capability: not empty, no NUL, no white space *)
Definition tokenb (c : bytes) : bool :=
  negb (match c with [] => true | _ => false end) && forallb (fun b => negb (is_space b) && negb (b =? NUL)) c.
