(* Model/Delta.v — git delta codec as implemented by dulwich.
   Python side : dulwich/pack.py  _delta_encode_size, _encode_copy_operation,
                 _create_delta_py (given difflib's opcodes), apply_delta
   Rust side   : crates/pack/src/lib.rs  get_delta_header_size, apply_delta
   Definitions only; proofs live in Proofs/DeltaP.v. *)
From DV Require Export Bytes.

(* ---------- results ---------- *)
Inductive dres :=
| DOk (out : bytes)        (* list of chunks joined *)
| DErr                     (* ApplyDeltaError *)
| DPanic.                  (* Rust panic / abort: never an acceptable outcome *)

Definition obind {A B} (o : option A) (f : A -> option B) : option B :=
  match o with Some a => f a | None => None end.
Notation "'do' x <- o ; k" := (obind o (fun x => k))
  (at level 200, x pattern, o at level 100, k at level 200, right associativity).

(* ---------- encoder ---------- *)

(* _delta_encode_size: little-endian base-128 varint *)
Fixpoint enc_size_f (fuel : nat) (n : Z) : bytes :=
  match fuel with
  | O => [n mod 128]
  | S f => if n / 128 =? 0 then [n mod 128]
           else (n mod 128 + 128) :: enc_size_f f (n / 128)
  end.
Definition enc_size (n : Z) : bytes := enc_size_f (Z.to_nat (Z.log2 n)) n.

Definition nz (x : Z) : Z := if x =? 0 then 0 else 1.
Definition optb (x : Z) : bytes := if x =? 0 then [] else [x].

(* _encode_copy_operation(start, length) *)
Definition enc_copy (start len : Z) : bytes :=
  let o0 := start mod 256 in
  let o1 := (start / 256) mod 256 in
  let o2 := (start / 65536) mod 256 in
  let o3 := (start / 16777216) mod 256 in
  let l0 := len mod 256 in
  let l1 := (len / 256) mod 256 in
  (128 + nz o0 + 2 * nz o1 + 4 * nz o2 + 8 * nz o3 + 16 * nz l0 + 32 * nz l1)
    :: optb o0 ++ optb o1 ++ optb o2 ++ optb o3 ++ optb l0 ++ optb l1.

(* while copy_len > 0: to_copy = min(copy_len, 0xFFFF); ... *)
Fixpoint enc_copies (fuel : nat) (start len : Z) : bytes :=
  match fuel with
  | O => []
  | S f => if len <=? 0 then []
           else let c := Z.min len 65535 in
                enc_copy start c ++ enc_copies f (start + c) (len - c)
  end.
Definition copies_fuel (len : Z) : nat := S (Z.to_nat (len / 65535)).

(* while s > 127: emit 127-chunk; finally emit s-chunk *)
Fixpoint enc_inserts (fuel : nat) (data : bytes) : bytes :=
  match fuel with
  | O => zlen data :: data          (* not reached when fuel suffices *)
  | S f => if zlen data >? 127
           then 127 :: zfirstn 127 data ++ enc_inserts f (zskipn 127 data)
           else zlen data :: data
  end.
Definition inserts_fuel (data : bytes) : nat := S (Z.to_nat (zlen data / 127)).

Inductive tag := TEqual | TReplace | TInsert | TDelete.
Record opc := { tg : tag; i1 : Z; i2 : Z; j1 : Z; j2 : Z }.

Definition enc_op (target : bytes) (o : opc) : bytes :=
  match tg o with
  | TEqual => enc_copies (copies_fuel (i2 o - i1 o)) (i1 o) (i2 o - i1 o)
  | TReplace | TInsert =>
      let d := slice target (j1 o) (j2 o - j1 o) in enc_inserts (inserts_fuel d) d
  | TDelete => []
  end.

(* _create_delta_py with the opcodes of SequenceMatcher supplied *)
Definition create_py (base target : bytes) (ops : list opc) : bytes :=
  enc_size (zlen base) ++ enc_size (zlen target) ++ concat (map (enc_op target) ops).

(* what a valid opcode list means (checked on difflib's real output each run) *)
Definition piece (base target : bytes) (o : opc) : bytes :=
  match tg o with
  | TEqual => slice base (i1 o) (i2 o - i1 o)
  | TReplace | TInsert => slice target (j1 o) (j2 o - j1 o)
  | TDelete => []
  end.

Definition op_okb (base target : bytes) (o : opc) : bool :=
  match tg o with
  | TEqual => (0 <=? i1 o) && (i1 o <=? i2 o) && (i2 o <=? zlen base)
  | TReplace | TInsert => (0 <=? j1 o) && (j1 o <? j2 o) && (j2 o <=? zlen target)
  | TDelete => true
  end.

Fixpoint bytes_eqb (a b : bytes) : bool :=
  match a, b with
  | [], [] => true
  | x :: a', y :: b' => (x =? y) && bytes_eqb a' b'
  | _, _ => false
  end.

Definition valid_opcodesb (base target : bytes) (ops : list opc) : bool :=
  forallb (op_okb base target) ops
  && bytes_eqb (concat (map (piece base target) ops)) target.

(* ---------- Python decoder ---------- *)

(* get_delta_header_size: unbounded integers; `|=` of disjoint bit ranges = + *)
Fixpoint hdr_py (d : bytes) (shift acc : Z) : option (Z * bytes) :=
  match d with
  | [] => None
  | c :: r => let acc' := acc + (c mod 128) * 2 ^ shift in
              if c <? 128 then Some (acc', r) else hdr_py r (shift + 7) acc'
  end.

Definition rd (flag : bool) (d : bytes) : option (Z * bytes) :=
  if flag then match d with [] => None | x :: r => Some (x, r) end
  else Some (0, d).

(* the seven optional argument bytes of a copy opcode *)
Definition parse_copy (cmd : Z) (d : bytes) : option (Z * Z * bytes) :=
  do (x0, d) <- rd (bit cmd 0) d;
  do (x1, d) <- rd (bit cmd 1) d;
  do (x2, d) <- rd (bit cmd 2) d;
  do (x3, d) <- rd (bit cmd 3) d;
  do (s0, d) <- rd (bit cmd 4) d;
  do (s1, d) <- rd (bit cmd 5) d;
  do (s2, d) <- rd (bit cmd 6) d;
  Some (x0 + x1 * 256 + x2 * 65536 + x3 * 16777216,
        s0 + s1 * 256 + s2 * 65536, d).

Definition finish (dest_size : Z) (chunks : list bytes) : dres :=
  let out := concat (rev chunks) in
  if zlen out =? dest_size then DOk out else DErr.

(* main loop of apply_delta (Python); chunks is the `out` list, newest first,
   outlen is out_size: what the operations so far have asked for *)
Fixpoint run_py (fuel : nat) (src : bytes) (src_size dest_size : Z)
         (d : bytes) (chunks : list bytes) (outlen : Z) : dres :=
  match fuel with
  | O => DErr
  | S f =>
    match d with
    | [] => finish dest_size chunks
    | cmd :: r =>
      if 128 <=? cmd then
        match parse_copy cmd r with
        | None => DErr                       (* read_byte: truncated copy op *)
        | Some (off, sz0, r') =>
          let sz := if sz0 =? 0 then 65536 else sz0 in
          if (off + sz >? src_size) || (sz >? dest_size)
          then (* break; then `index != delta_length` / dest size checks *)
               match r' with [] => finish dest_size chunks | _ => DErr end
          else if sz >? dest_size - outlen then DErr   (* the output would outgrow the declared size *)
          else run_py f src src_size dest_size r' (slice src off sz :: chunks) (outlen + sz)
        end
      else if cmd =? 0 then DErr             (* Invalid opcode 0 *)
      else if zlen r <? cmd then DErr        (* truncated insert *)
      else if cmd >? dest_size - outlen then DErr
      else run_py f src src_size dest_size (zskipn cmd r) (zfirstn cmd r :: chunks) (outlen + cmd)
    end
  end.

Definition apply_py (src delta : bytes) : dres :=
  match hdr_py delta 0 0 with
  | None => DErr
  | Some (src_size, d1) =>
    match hdr_py d1 0 0 with
    | None => DErr
    | Some (dest_size, d2) =>
      if src_size =? zlen src
      then run_py (S (length d2)) src src_size dest_size d2 [] 0
      else DErr
    end
  end.

Definition declared_dest (delta : bytes) : option Z :=
  do (_, d1) <- hdr_py delta 0 0; do (n, _) <- hdr_py d1 0 0; Some n.

(* bytes the Python loop has materialised (sliced out of the base or the delta)
   when it stops; outlen is what it had materialised before *)
Fixpoint mat_py (fuel : nat) (src_size dest_size : Z) (d : bytes) (outlen : Z) : Z :=
  match fuel with
  | O => outlen
  | S f =>
    match d with
    | [] => outlen
    | cmd :: r =>
      if 128 <=? cmd then
        match parse_copy cmd r with
        | None => outlen
        | Some (off, sz0, r') =>
          let sz := if sz0 =? 0 then 65536 else sz0 in
          if (off + sz >? src_size) || (sz >? dest_size) then outlen
          else if sz >? dest_size - outlen then outlen
          else mat_py f src_size dest_size r' (outlen + sz)
        end
      else if cmd =? 0 then outlen
      else if zlen r <? cmd then outlen
      else if cmd >? dest_size - outlen then outlen
      else mat_py f src_size dest_size (zskipn cmd r) (outlen + cmd)
    end
  end.

(* the decoder as it was before: every copy is appended and the total is
   compared with the declared size only after the last operation *)
Fixpoint mat_py_late (fuel : nat) (src_size dest_size : Z) (d : bytes) : Z :=
  match fuel with
  | O => 0
  | S f =>
    match d with
    | [] => 0
    | cmd :: r =>
      if 128 <=? cmd then
        match parse_copy cmd r with
        | None => 0
        | Some (off, sz0, r') =>
          let sz := if sz0 =? 0 then 65536 else sz0 in
          if (off + sz >? src_size) || (sz >? dest_size) then 0
          else sz + mat_py_late f src_size dest_size r'
        end
      else if cmd =? 0 then 0
      else if zlen r <? cmd then 0
      else cmd + mat_py_late f src_size dest_size (zskipn cmd r)
    end
  end.

(* ---------- Rust decoder (usize = 64 bit, dev profile: overflow panics) ---------- *)

(* usize primitives; None = panic (dev profile) *)
Definition shl64 (v s : Z) : option Z :=
  if (0 <=? s) && (s <? 64) then Some ((v * 2 ^ s) mod 2 ^ 64) else None.
Definition shr64 (v s : Z) : option Z :=
  if (0 <=? s) && (s <? 64) then Some (v / 2 ^ s) else None.
Definition sub64 (a b : Z) : option Z := if b <=? a then Some (a - b) else None.
Definition add64 (a b : Z) : option Z := if a + b <? 2 ^ 64 then Some (a + b) else None.

Inductive hres := HOk (n : Z) (rest : bytes) | HErr | HPanic.

(* get_delta_header_size (Rust).  `size |= v << i` is written `+`: the bit
   ranges are disjoint exactly as on the Python side. *)
Fixpoint hdr_rs (d : bytes) (shift acc : Z) : hres :=
  match d with
  | [] => HErr
  | c :: r =>
    let v := c mod 128 in
    let shift' := Z.min (shift + 7) (2 ^ 64 - 1) in      (* saturating_add *)
    if v =? 0 then
      (if c <? 128 then HOk acc r else hdr_rs r shift' acc)
    else if 64 <=? shift then HErr
    else
      match shl64 v shift with
      | None => HPanic
      | Some w =>
        match shr64 w shift with
        | None => HPanic
        | Some u =>
          if u =? v then
            (if c <? 128 then HOk (acc + w) r else hdr_rs r shift' (acc + w))
          else HErr
        end
      end
  end.

Definition fin_rs (dest_size : Z) (chunks : list bytes) (outlen : Z) (rest : bytes) : dres :=
  match rest with
  | [] => if outlen =? dest_size then DOk (concat (rev chunks)) else DErr
  | _ => DErr
  end.

(* main loop (Rust): `out` grows with the data; outlen = out.len() = outindex *)
Fixpoint run_rs (fuel : nat) (src : bytes) (src_size dest_size : Z)
         (d : bytes) (chunks : list bytes) (outlen : Z) : dres :=
  match fuel with
  | O => DErr
  | S f =>
    match d with
    | [] => fin_rs dest_size chunks outlen []
    | cmd :: r =>
      if 128 <=? cmd then
        match parse_copy cmd r with
        | None => DErr
        | Some (off, sz0, r') =>
          let sz := if sz0 =? 0 then 65536 else sz0 in
          if sz >? src_size then fin_rs dest_size chunks outlen r'
          else if off >? src_size then fin_rs dest_size chunks outlen r'
          else match sub64 src_size sz with
          | None => DPanic
          | Some a =>
            if off >? a then fin_rs dest_size chunks outlen r'
            else if sz >? dest_size then fin_rs dest_size chunks outlen r'
            else match sub64 dest_size sz with
            | None => DPanic
            | Some b =>
              if outlen >? b then DErr
              else match add64 outlen sz with
              | None => DPanic
              | Some ol => run_rs f src src_size dest_size r' (slice src off sz :: chunks) ol
              end
            end
          end
        end
      else if cmd =? 0 then DErr
      else if zlen r <? cmd then DErr
      else if cmd >? dest_size then fin_rs dest_size chunks outlen r
      else match sub64 dest_size outlen with
      | None => DPanic
      | Some room =>
        if cmd >? room then DErr
        else match add64 outlen cmd with
        | None => DPanic
        | Some ol => run_rs f src src_size dest_size (zskipn cmd r) (zfirstn cmd r :: chunks) ol
        end
      end
    end
  end.

Definition apply_rs (src delta : bytes) : dres :=
  match hdr_rs delta 0 0 with
  | HPanic => DPanic
  | HErr => DErr
  | HOk src_size d1 =>
    if src_size =? zlen src then
      match hdr_rs d1 0 0 with
      | HPanic => DPanic
      | HErr => DErr
      | HOk dest_size d2 => run_rs (S (length d2)) src src_size dest_size d2 [] 0
      end
    else DErr
  end.

(* peak length of the Rust output buffer: it only ever holds validated data *)
Fixpoint alloc_rs (fuel : nat) (src_size dest_size : Z) (d : bytes) (outlen : Z) : Z :=
  match fuel with
  | O => outlen
  | S f =>
    match d with
    | [] => outlen
    | cmd :: r =>
      if 128 <=? cmd then
        match parse_copy cmd r with
        | None => outlen
        | Some (off, sz0, r') =>
          let sz := if sz0 =? 0 then 65536 else sz0 in
          if (sz >? src_size) || (off >? src_size) || (off >? src_size - sz)
             || (sz >? dest_size) || (outlen >? dest_size - sz)
          then outlen
          else alloc_rs f src_size dest_size r' (outlen + sz)
        end
      else if cmd =? 0 then outlen
      else if zlen r <? cmd then outlen
      else if cmd >? dest_size then outlen
      else if cmd >? dest_size - outlen then outlen
      else alloc_rs f src_size dest_size (zskipn cmd r) (outlen + cmd)
    end
  end.

(* top-level wrappers used by the correspondence check *)
Definition mat_py_top (src_len : Z) (delta : bytes) : Z :=
  match hdr_py delta 0 0 with
  | None => 0
  | Some (s, d1) =>
    match hdr_py d1 0 0 with
    | None => 0
    | Some (n, d2) => if s =? src_len then mat_py (S (length d2)) s n d2 0 else 0
    end
  end.

Definition alloc_rs_top (src_len : Z) (delta : bytes) : Z :=
  match hdr_rs delta 0 0 with
  | HOk s d1 =>
    if s =? src_len then
      match hdr_rs d1 0 0 with
      | HOk n d2 => alloc_rs (S (length d2)) s n d2 0
      | _ => 0
      end
    else 0
  | _ => 0
  end.
