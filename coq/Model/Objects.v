(* Model/Objects.v — dulwich/objects.py:
   (a) the ShaFile cache automaton (_needs_serialization, _chunked_text, _sha)
       under setters, as_raw_*, id, get_id(other hash), set_raw_*, Blob.chunked;
   (b) _format_message / _parse_message (header folding);
   (c) serialize_tree with octal modes, read back by parse_tree (RustTwins);
   (d) decimal numbers and format/parse_time_entry.
   Definitions only. *)
From DV Require Export Bytes RustTwins.

(* ---------- (a) cache automaton ---------- *)
(* Field contents are abstracted to a version counter: every setter produces a
   new version; an observation reports which version its bytes / id belong to. *)
Record cache := {
  ver : nat;              (* current field values *)
  needs_ser : bool;       (* _needs_serialization *)
  chunked_ver : nat;      (* the version held in _chunked_text *)
  sha_ver : option nat    (* the version the cached _sha was computed from *)
}.

Inductive cop :=
| CSet            (* any serializable_property / Tree mutator / parents / Tag.object *)
| CAsRaw          (* as_raw_chunks / as_raw_string / raw_length *)
| CId             (* .id / sha() / get_id() / __hash__ / __eq__ *)
| CIdOther        (* get_id(SHA256): recomputed, never cached *)
| CSetRaw         (* set_raw_string / set_raw_chunks / Blob.data = ... (new contents, sha=None) *)
| CBlobChunked.   (* Blob.chunked = [...] *)

Definition as_raw (c : cache) : cache :=
  if needs_ser c then {| ver := ver c; needs_ser := false; chunked_ver := ver c; sha_ver := None |} else c.

(* new state and, for observations, the version observed *)
Definition cstep (c : cache) (o : cop) : cache * option nat :=
  match o with
  | CSet => ({| ver := S (ver c); needs_ser := true; chunked_ver := chunked_ver c; sha_ver := sha_ver c |}, None)
  | CAsRaw => let c' := as_raw c in (c', Some (chunked_ver c'))
  | CId =>
    match sha_ver c, needs_ser c with
    | Some h, false => (c, Some h)
    | _, _ => let c' := as_raw c in
              ({| ver := ver c'; needs_ser := false; chunked_ver := chunked_ver c'; sha_ver := Some (chunked_ver c') |},
               Some (chunked_ver c'))
    end
  | CIdOther => let c' := as_raw c in (c', Some (chunked_ver c'))
  | CSetRaw => ({| ver := S (ver c); needs_ser := false; chunked_ver := S (ver c); sha_ver := None |}, None)
  | CBlobChunked => ({| ver := S (ver c); needs_ser := needs_ser c; chunked_ver := S (ver c); sha_ver := None |}, None)
  end.

Definition cache_init : cache := {| ver := 0; needs_ser := true; chunked_ver := 0; sha_ver := None |}.

(* run, collecting (observed version, current version) for every observation *)
Fixpoint crun (c : cache) (ops : list cop) : list (nat * nat) :=
  match ops with
  | [] => []
  | o :: r => let '(c', obs) := cstep c o in
              match obs with
              | Some v => (v, ver c') :: crun c' r
              | None => crun c' r
              end
  end.

(* ---------- (b) header folding ---------- *)
Definition LF := 10.
Definition SP := 32.

(* value.split(b"\n") *)
Fixpoint split_lf (l : bytes) (cur : bytes) : list bytes :=
  match l with
  | [] => [rev cur]
  | c :: r => if c =? LF then rev cur :: split_lf r [] else split_lf r (c :: cur)
  end.

Definition format_header (h : bytes * bytes) : bytes :=
  match split_lf (snd h) [] with
  | [] => []
  | first :: rest => fst h ++ [SP] ++ first ++ [LF] ++ flat_map (fun l => SP :: l ++ [LF]) rest
  end.

(* _format_message(headers, body); body None or empty: nothing after the blank line *)
Definition format_message (headers : list (bytes * bytes)) (body : option bytes) : bytes :=
  flat_map format_header headers ++ [LF] ++ match body with Some b => b | None => [] end.

(* lines of a file object: each ends with LF except possibly the last *)
Fixpoint lines (l : bytes) (cur : bytes) : list bytes :=
  match l with
  | [] => match cur with [] => [] | _ => [rev cur] end
  | c :: r => if c =? LF then rev (c :: cur) :: lines r [] else lines r (c :: cur)
  end.

Definition strip_last_lf (v : bytes) : bytes :=
  match rev v with c :: r => if c =? LF then rev r else v | [] => v end.

Fixpoint split_sp (l : bytes) (cur : bytes) : option (bytes * bytes) :=
  match l with
  | [] => None
  | c :: r => if c =? SP then Some (rev cur, r) else split_sp r (c :: cur)
  end.

Inductive pitem := PHeader (k v : bytes) | PBody (b : option bytes) | PError.

(* _parse_message over the list of lines; k/v: header being accumulated *)
Fixpoint parse_lines (ls : list bytes) (k : option bytes) (v : bytes) : list pitem :=
  let flush := match k with Some key => [PHeader key (strip_last_lf v)] | None => [] end in
  match ls with
  | [] => flush ++ [PBody None]                       (* EOF before the blank line *)
  | line :: r =>
    match line with
    | c :: cont =>
      if c =? SP then parse_lines r k (v ++ cont)     (* continuation *)
      else if (c =? LF) && (match cont with [] => true | _ => false end)
      then flush ++ [PBody (Some (concat r))]           (* blank line: the rest is the body *)
      else match split_sp line [] with
           | Some (key, rest) => flush ++ parse_lines r (Some key) rest
           | None => flush ++ [PError]                 (* line.split(b" ", 1) fails to unpack *)
           end
    | [] => flush ++ [PError]
    end
  end.
Definition parse_message (text : bytes) : list pitem := parse_lines (lines text []) None [].

(* ---------- (c) trees ---------- *)
(* "%04o" % mode *)
Fixpoint octal_digits (fuel : nat) (n : Z) (acc : bytes) : bytes :=
  match fuel with
  | O => acc
  | S f => if n <? 8 then (48 + n) :: acc else octal_digits f (n / 8) ((48 + n mod 8) :: acc)
  end.
Definition octal (n : Z) : bytes := octal_digits (S (Z.to_nat (Z.log2 n))) n [].
Definition octal04 (n : Z) : bytes :=
  let d := octal n in repeat 48 (4 - length d) ++ d.

Definition serialize_entry (e : tentry) : bytes :=
  let '(name, mode, sha) := e in octal04 mode ++ [SP] ++ name ++ [0] ++ sha.
Definition serialize_tree (es : list tentry) : bytes := flat_map serialize_entry es.

(* entries in git's tree order (base_name_compare = key_entry order) *)
Fixpoint tree_sorted (es : list tentry) : bool :=
  match es with
  | a :: ((b :: _) as r) =>
    (match py_tree_cmp (fst (fst a), snd (fst a)) (fst (fst b), snd (fst b)) with OLt => true | _ => false end) && tree_sorted r
  | _ => true
  end.

(* ---------- (d) decimal numbers and time entries ---------- *)
Fixpoint dec_digits (fuel : nat) (n : Z) (acc : bytes) : bytes :=
  match fuel with
  | O => acc
  | S f => if n <? 10 then (48 + n) :: acc else dec_digits f (n / 10) ((48 + n mod 10) :: acc)
  end.
(* str(n).encode("ascii") *)
Definition dec (n : Z) : bytes :=
  if n <? 0 then 45 :: dec_digits (S (Z.to_nat (Z.log2 (- n)))) (- n) []
  else dec_digits (S (Z.to_nat (Z.log2 n))) n [].

Definition is_digit (c : Z) : bool := (48 <=? c) && (c <=? 57).
Definition dec_value (l : bytes) : Z := fold_left (fun a c => a * 10 + (c - 48)) l 0.
(* int(text) for the spellings str() produces: optional '-', then digits *)
Definition parse_dec (l : bytes) : option Z :=
  match l with
  | 45 :: d => if (match d with [] => false | _ => true end) && forallb is_digit d then Some (- dec_value d) else None
  | [] => None
  | _ => if forallb is_digit l then Some (dec_value l) else None
  end.
