(* Model/PeeledCache.v — the peeled values cached in packed-refs (dulwich/refs.py: get_packed_refs with the
   "peeled" header, DiskRefsContainer.get_peeled, _write_packed_refs as used by pack_refs / add_packed_refs /
   _remove_packed_ref) next to loose refs, with `git pack-refs` as a second writer.  Refs are numbers, object
   ids are integers, `peel` says what an id peels to (itself unless it names a tag).  Definitions only. *)
From Coq Require Export ZArith List Bool Lia.
Export ListNotations.
Open Scope Z_scope.

Definition rmap := nat -> option Z.
Definition upd (m : rmap) (r : nat) (v : option Z) : rmap := fun q => if Nat.eqb q r then v else m q.

Section Peel.
Variable peel : Z -> Z.

Record pstate := {
  pk : rmap;          (* packed-refs: name -> id *)
  pl : rmap;          (* the ^ lines: name -> peeled id (both writers put " peeled" in the header: an entry
                         without a ^ line is declared not to be a tag) *)
  ls : rmap           (* loose refs *)
}.

(* what the ref currently is: the loose file wins *)
Definition current (s : pstate) (r : nat) : option Z :=
  match ls s r with Some v => Some v | None => pk s r end.

(* DiskRefsContainer.get_peeled: None = nothing cached, Some p = "the ref peels to p" *)
Definition get_peeled (s : pstate) (r : nat) : option Z :=
  match pk s r with
  | None => None
  | Some v =>
    match ls s r with
    | Some l => if negb (l =? v) then None
                else (match pl s r with Some p => Some p | None => Some l end)
    | None => match pl s r with Some p => Some p | None => Some v end
    end
  end.

(* entries to set or remove, applied in order *)
Definition apply_news (m : rmap) (news : list (nat * option Z)) : rmap :=
  fold_left (fun acc x => upd acc (fst x) (snd x)) news m.

(* _write_packed_refs: write_packed_refs(f, packed_refs, self._peeled_refs) — the table of peeled values read
   earlier is written again under the header, for every name the new table still holds; nothing is peeled *)
Definition write_packed (s : pstate) (news : list (nat * option Z)) : pstate :=
  let pk' := apply_news (pk s) news in
  {| pk := pk'; pl := fun r => match pk' r with Some _ => pl s r | None => None end; ls := ls s |}.

Inductive op :=
| OSet (r : nat) (v : Z)                      (* refs[r] = v: a loose file *)
| ODelete (r : nat)                           (* remove_if_equals: packed entry and loose file *)
| OAddPacked (news : list (nat * Z))          (* add_packed_refs *)
| OPackRefs (which : list nat)                (* pack_refs: the loose refs in `which` are packed and pruned *)
| OGitPack (which : list nat).                (* git pack-refs: the same, writing a fully peeled file *)

Definition loose_news (s : pstate) (which : list nat) : list (nat * option Z) :=
  flat_map (fun r => match ls s r with Some v => [(r, Some v)] | None => [] end) which.
Definition prune (m : rmap) (which : list nat) : rmap := fun r => if existsb (Nat.eqb r) which then None else m r.

Definition step (s : pstate) (o : op) : pstate :=
  match o with
  | OSet r v => {| pk := pk s; pl := pl s; ls := upd (ls s) r (Some v) |}
  | ODelete r =>
      let s' := match pk s r with Some _ => write_packed s [(r, None)] | None => s end in
      {| pk := pk s'; pl := pl s'; ls := upd (ls s') r None |}
  | OAddPacked news =>
      let s' := write_packed s (map (fun x => (fst x, Some (snd x))) news) in
      {| pk := pk s'; pl := pl s'; ls := prune (ls s') (map fst news) |}
  | OPackRefs which =>
      let s' := write_packed s (loose_news s which) in
      {| pk := pk s'; pl := pl s'; ls := prune (ls s') which |}
  | OGitPack which =>
      (* git peels what it packs now; an entry that is in the file already with the value it has now -- whether or
         not a loose file repeats it -- keeps what the file says about it (the header makes git trust it) *)
      let pk' := apply_news (pk s) (loose_news s which) in
      {| pk := pk';
         pl := fun r => match pk' r with
                        | Some v => if match pk s r with Some w => w =? v | None => false end
                                    then pl s r
                                    else (if peel v =? v then None else Some (peel v))
                        | None => None
                        end;
         ls := prune (ls s) which |}
  end.

Definition run (s : pstate) (ops : list op) : pstate := fold_left step ops s.

Definition empty_state : pstate := {| pk := fun _ => None; pl := fun _ => None; ls := fun _ => None |}.
End Peel.
