(* Model/PathSafe.v — dulwich/index.py: the path validators applied to every
   tree entry before it is written to the work tree: validate_path with the
   default and the NTFS element validators (_is_ntfs_dotgit, trailing dot /
   space stripping, ASCII case folding), as on a POSIX host (os.name != "nt").
   Definitions only. *)
From DV Require Export Bytes.

Definition lower_byte (c : Z) : Z := if (65 <=? c) && (c <=? 90) then c + 32 else c.
Definition lower (l : bytes) : bytes := map lower_byte l.

(* element.rstrip(b". ") *)
Definition dot_or_space (c : Z) : bool := (c =? 46) || (c =? 32).
Fixpoint rstrip_ds (l : bytes) : bytes :=
  match l with
  | [] => []
  | c :: r => match rstrip_ds r with
              | [] => if dot_or_space c then [] else [c]
              | r' => c :: r'
              end
  end.

Definition DOTGIT : bytes := [46; 103; 105; 116].
Definition DOT : bytes := [46].
Definition DOTDOT : bytes := [46; 46].

(* normalized in INVALID_DOTNAMES *)
Definition invalid_name (n : bytes) : bool :=
  bytes_beq n DOTGIT || bytes_beq n DOT || bytes_beq n DOTDOT || bytes_beq n [].

Definition valid_default (e : bytes) : bool := negb (invalid_name (lower e)).

(* the tail of _is_ntfs_dotgit: only dots/spaces up to the end or a ':' *)
Fixpoint ntfs_tail (l : bytes) : bool :=
  match l with
  | [] => true
  | c :: r => if c =? 58 then true else if dot_or_space c then ntfs_tail r else false
  end.

Definition is_ntfs_dotgit (name : bytes) : bool :=
  match name with
  | 46 :: g :: i :: t :: r =>
    if bytes_beq (lower [g; i; t]) [103; 105; 116] then ntfs_tail r else false
  | g :: i :: t :: 126 :: 49 :: r =>
    if bytes_beq (lower [g; i; t]) [103; 105; 116] then ntfs_tail r else false
  | _ => false
  end.

(* element.split(b"\\") *)
Fixpoint split_on (sep : Z) (l : bytes) (cur : bytes) : list bytes :=
  match l with
  | [] => [rev cur]
  | c :: r => if c =? sep then rev cur :: split_on sep r [] else split_on sep r (c :: cur)
  end.

Definition valid_ntfs (e : bytes) : bool :=
  negb (existsb is_ntfs_dotgit (split_on 92 e [])) && negb (invalid_name (lower (rstrip_ds e))).

(* validate_path: every '/'-separated element passes the validator *)
Definition validate_path (validator : bytes -> bool) (p : bytes) : bool := forallb validator (split_on 47 p []).

(* lexical normalisation of a relative path (os.path.normpath on the joined path):
   drop empty and "." components, ".." removes the previous one; None = escapes above the root *)
Fixpoint normalize (cs : list bytes) (acc : list bytes) : option (list bytes) :=
  match cs with
  | [] => Some (rev acc)
  | c :: r =>
    if bytes_beq c [] || bytes_beq c DOT then normalize r acc
    else if bytes_beq c DOTDOT then match acc with [] => None | _ :: a => normalize r a end
    else normalize r (c :: acc)
  end.
