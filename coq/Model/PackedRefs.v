(* Model/PackedRefs.v — dulwich/refs.py DiskRefsContainer: one ref name stored as
   a loose file and/or an entry of packed-refs, with the two locks (<ref>.lock,
   packed-refs.lock), as step programs for any number of actors and any
   interleaving:
     pack_refs:  lock packed-refs -> read the ref (loose, else packed) under that lock ->
                 rewrite packed-refs with that value (rename releases the lock) ->
                 _prune_loose_ref: lock the ref -> remove the loose file if it still
                 holds the packed value -> unlock
     set_if_equals(old,new) / unconditional set: lock the ref -> compare the value
                 (loose, else packed) -> write the loose file (rename releases) | unlock
     remove_if_equals(old): lock the ref -> compare -> _remove_packed_ref (skipped
                 without locking when packed-refs has no entry; else lock packed-refs,
                 rewrite without the entry) -> remove the loose file -> unlock
     read: loose, else packed.
   Definitions only. *)
From Coq Require Export List Arith Bool Lia.
Export ListNotations.

Inductive result := RTrue | RFalse | RLocked | RSeen (v : option nat).

Inductive kind :=
| KPack
| KCas (old new : nat)
| KSet (new : nat)
| KDel (old : nat)
| KRead.

Inductive pc :=
| PStart
| PkRead | PkWrite (v : nat) | PkPruneLock (v : nat) | PkPrune (v : nat)
| SCheck | SWrite
| DCheck | DPacked | DRewrite | DLoose
| PUnlock (r : result)               (* holding the ref lock, about to release it *)
| PEnd (r : result).

Record actor := { a_kind : kind; a_pc : pc }.

Record state := {
  loose : option nat;
  packed : option nat;
  rlock : option nat;
  plock : option nat;
  acts : nat -> actor
}.

Definition visible (s : state) : option nat := match loose s with Some v => Some v | None => packed s end.

Definition upd (f : nat -> actor) (i : nat) (a : actor) : nat -> actor := fun j => if Nat.eqb j i then a else f j.
Definition at_pc (s : state) (i : nat) (p : pc) : nat -> actor := upd (acts s) i {| a_kind := a_kind (acts s i); a_pc := p |}.

Definition onat_eqb (a b : option nat) : bool :=
  match a, b with Some x, Some y => Nat.eqb x y | None, None => true | _, _ => false end.

Definition cond (k : kind) (cur : option nat) : bool :=
  match k with
  | KCas o _ => onat_eqb cur (Some o)
  | KSet _ => true
  | KDel o => onat_eqb cur (Some o)
  | _ => false
  end.
Definition newval (k : kind) : option nat := match k with KCas _ n | KSet n => Some n | _ => None end.

Definition step (s : state) (i : nat) : state :=
  let a := acts s i in
  let go p := {| loose := loose s; packed := packed s; rlock := rlock s; plock := plock s; acts := at_pc s i p |} in
  match a_pc a with
  | PStart =>
    match a_kind a with
    | KPack =>
      match plock s with
      | Some _ => go (PEnd RLocked)
      | None => {| loose := loose s; packed := packed s; rlock := rlock s; plock := Some i; acts := at_pc s i PkRead |}
      end
    | KRead => go (PEnd (RSeen (visible s)))
    | k =>
      match rlock s with
      | Some _ => go (PEnd RLocked)
      | None => {| loose := loose s; packed := packed s; rlock := Some i; plock := plock s;
                   acts := at_pc s i (match k with KDel _ => DCheck | _ => SCheck end) |}
      end
    end
  | PkRead =>
    match visible s with
    | None => {| loose := loose s; packed := packed s; rlock := rlock s; plock := None; acts := at_pc s i (PEnd RTrue) |}
    | Some v => go (PkWrite v)
    end
  | PkWrite v => {| loose := loose s; packed := Some v; rlock := rlock s; plock := None; acts := at_pc s i (PkPruneLock v) |}
  | PkPruneLock v =>
    match rlock s with
    | Some _ => go (PEnd RTrue)
    | None => {| loose := loose s; packed := packed s; rlock := Some i; plock := plock s; acts := at_pc s i (PkPrune v) |}
    end
  | PkPrune v =>
    {| loose := if onat_eqb (loose s) (Some v) then None else loose s; packed := packed s; rlock := rlock s; plock := plock s;
       acts := at_pc s i (PUnlock RTrue) |}
  | SCheck => if cond (a_kind a) (visible s) then go SWrite else go (PUnlock RFalse)
  | SWrite => {| loose := newval (a_kind a); packed := packed s; rlock := None; plock := plock s; acts := at_pc s i (PEnd RTrue) |}
  | DCheck => if cond (a_kind a) (visible s) then go DPacked else go (PUnlock RFalse)
  | DPacked =>
    match packed s with
    | None => go DLoose
    | Some _ =>
      match plock s with
      | Some _ => go (PUnlock RLocked)
      | None => {| loose := loose s; packed := packed s; rlock := rlock s; plock := Some i; acts := at_pc s i DRewrite |}
      end
    end
  | DRewrite => {| loose := loose s; packed := None; rlock := rlock s; plock := None; acts := at_pc s i DLoose |}
  | DLoose => {| loose := None; packed := packed s; rlock := rlock s; plock := plock s; acts := at_pc s i (PUnlock RTrue) |}
  | PUnlock r => {| loose := loose s; packed := packed s; rlock := None; plock := plock s; acts := at_pc s i (PEnd r) |}
  | PEnd _ => s
  end.

Definition run (s : state) (sched : list nat) : state := fold_left step sched s.

Definition mk (k : kind) : actor := {| a_kind := k; a_pc := PStart |}.
Definition idle : actor := {| a_kind := KRead; a_pc := PEnd (RSeen None) |}.
Definition init (l0 p0 : option nat) (l : list kind) : state :=
  {| loose := l0; packed := p0; rlock := None; plock := None; acts := fun i => nth i (map mk l) idle |}.

Definition holds_rlock (p : pc) : bool :=
  match p with PkPrune _ | SCheck | SWrite | DCheck | DPacked | DRewrite | DLoose | PUnlock _ => true | _ => false end.
Definition holds_plock (p : pc) : bool := match p with PkRead | PkWrite _ | DRewrite => true | _ => false end.

(* the values the writers are going to write: pairwise distinct and not in use at the start
   (every commit id is new; a ref set back to an earlier value is outside this model) *)
Definition news (l : list kind) : list nat := flat_map (fun k => match newval k with Some n => [n] | None => [] end) l.
Definition is_del (k : kind) : bool := match k with KDel _ => true | _ => false end.
