(* Model/Walk.v — dulwich/walk.py: _CommitTimeQueue without excluded commits (a
   priority queue popped in an order chosen by commit times: here an arbitrary
   choice function) and _topo_reorder.  Commits are numbers.  Definitions only. *)
From Coq Require Export List Arith Bool Lia.
Export ListNotations.

Definition mem (x : nat) (l : list nat) : bool := existsb (Nat.eqb x) l.
Definition remove_nth {A} (i : nat) (l : list A) : list A := firstn i l ++ skipn (S i) l.

Section Walk.
  Variable parents : nat -> list nat.
  Variable pick : list nat -> nat.            (* which queue position the heap yields: decided by the timestamps *)

  Record wst := { pq : list nat; done : list nat; out : list nat }.

  (* _push: only what is neither queued nor done *)
  Definition push (s : wst) (c : nat) : wst :=
    if mem c (pq s) || mem c (done s) then s else {| pq := c :: pq s; done := done s; out := out s |}.

  (* _step without excludes: pop, mark done, push the parents, yield *)
  Definition wstep (s : wst) : wst :=
    let i := pick (pq s) mod length (pq s) in
    match nth_error (pq s) i with
    | None => s
    | Some c =>
      let s1 := {| pq := remove_nth i (pq s); done := c :: done s; out := c :: out s |} in
      fold_left push (parents c) s1
    end.

  Fixpoint wrun (fuel : nat) (s : wst) : option wst :=
    match pq s with
    | [] => Some s
    | _ => match fuel with O => None | S f => wrun f (wstep s) end
    end.

  Definition winit (include : list nat) : wst := fold_left push include {| pq := []; done := []; out := [] |}.
  (* the commits in the order yielded *)
  Definition walk (fuel : nat) (include : list nat) : option (list nat) :=
    match wrun fuel (winit include) with Some s => Some (rev (out s)) | None => None end.

  Inductive reach (roots : list nat) : nat -> Prop :=
  | w_root c : In c roots -> reach roots c
  | w_step c p : reach roots c -> In p (parents c) -> reach roots p.

  (* ---------- _topo_reorder ---------- *)
  Record tst := { todo : list nat; pending : list nat; cnt : nat -> nat; tout : list nat }.

  Definition dec (f : nat -> nat) (p : nat) : nat -> nat := fun x => if Nat.eqb x p then f x - 1 else f x.
  Definition inc (f : nat -> nat) (p : nat) : nat -> nat := fun x => if Nat.eqb x p then S (f x) else f x.
  Definition remove1 (p : nat) (l : list nat) : list nat := filter (fun x => negb (Nat.eqb x p)) l.

  (* the loop over the parents of a yielded commit *)
  Definition release (s : tst) (p : nat) : tst :=
    let c' := dec (cnt s) p in
    if (c' p =? 0) && mem p (pending s)
    then {| todo := p :: todo s; pending := remove1 p (pending s); cnt := c'; tout := tout s |}
    else {| todo := todo s; pending := pending s; cnt := c'; tout := tout s |}.

  Definition tstep (s : tst) : tst :=
    match todo s with
    | [] => s
    | e :: rest =>
      if cnt s e =? 0
      then fold_left release (parents e) {| todo := rest; pending := pending s; cnt := cnt s; tout := e :: tout s |}
      else {| todo := rest; pending := e :: pending s; cnt := cnt s; tout := tout s |}
    end.

  Fixpoint trun (fuel : nat) (s : tst) : option tst :=
    match todo s with
    | [] => Some s
    | _ => match fuel with O => None | S f => trun f (tstep s) end
    end.

  Definition tinit (entries : list nat) : tst :=
    {| todo := entries; pending := []; cnt := fold_left inc (flat_map parents entries) (fun _ => 0); tout := [] |}.
  Definition topo (fuel : nat) (entries : list nat) : option (list nat) :=
    match trun fuel (tinit entries) with Some s => Some (rev (tout s)) | None => None end.
End Walk.
