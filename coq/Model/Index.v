(* Model/Index.v — the staging index file (dulwich/index.py): git's offset
   varint, v4 path prefix compression, cache entries in versions 2/3/4, the
   entry sequence of a file, header and trailer.  Definitions only. *)
From DV Require Export Bytes.

Definition obind {A B} (o : option A) (f : A -> option B) : option B :=
  match o with Some a => f a | None => None end.
Notation "'do' x <- o ; k" := (obind o (fun x => k))
  (at level 200, x pattern, o at level 100, k at level 200, right associativity).

(* ---------- git varint (varint.c): _encode_varint / _decode_varint ---------- *)
(* bytes after the first are produced least significant first and reversed *)
Fixpoint gv_tail (fuel : nat) (v : Z) : bytes :=
  match fuel with
  | O => []
  | S f => if v <=? 0 then [] else (128 + (v - 1) mod 128) :: gv_tail f ((v - 1) / 128)
  end.
Definition gv_fuel (n : Z) : nat := S (Z.to_nat (Z.log2 n)).
Definition gv_enc (n : Z) : bytes := rev (n mod 128 :: gv_tail (gv_fuel n) (n / 128)).

(* value so far, first-byte flag; returns None when the input ends first
   (the stream reader raises ValueError) *)
Fixpoint gv_dec_f (l : bytes) (first : bool) (acc : Z) : option (Z * bytes) :=
  match l with
  | [] => None
  | b :: r =>
    let v := if first then b mod 128 else (acc + 1) * 128 + b mod 128 in
    if b <? 128 then Some (v, r) else gv_dec_f r false v
  end.
Definition gv_dec (l : bytes) : option (Z * bytes) := gv_dec_f l true 0.

(* ---------- v4 path compression ---------- *)
Fixpoint common_len (a b : bytes) : Z :=
  match a, b with
  | x :: a', y :: b' => if x =? y then 1 + common_len a' b' else 0
  | _, _ => 0
  end.

Definition compress_path (path prev : bytes) : bytes :=
  let c := common_len path prev in
  gv_enc (zlen prev - c) ++ zskipn c path ++ [0].

(* the suffix up to the NUL; None = unterminated *)
Fixpoint until_nul (l : bytes) : option (bytes * bytes) :=
  match l with
  | [] => None
  | b :: r => if b =? 0 then Some ([], r)
              else match until_nul r with Some (s, t) => Some (b :: s, t) | None => None end
  end.

Definition decompress_path (l prev : bytes) : option (bytes * bytes) :=
  do (remove, l1) <- gv_dec l;
  do (suffix, l2) <- until_nul l1;
  if remove >? zlen prev then None
  else Some (zfirstn (zlen prev - remove) prev ++ suffix, l2).

(* ---------- fixed-width fields ---------- *)
Definition be32 (n : Z) : bytes := [n / 16777216 mod 256; n / 65536 mod 256; n / 256 mod 256; n mod 256].
Definition be16 (n : Z) : bytes := [n / 256 mod 256; n mod 256].
Definition rd32 (l : bytes) : option (Z * bytes) :=
  match l with a :: b :: c :: d :: r => Some (a * 16777216 + b * 65536 + c * 256 + d, r) | _ => None end.
Definition rd16 (l : bytes) : option (Z * bytes) :=
  match l with a :: b :: r => Some (a * 256 + b, r) | _ => None end.
Definition take (n : Z) (l : bytes) : option (bytes * bytes) :=
  if (0 <=? n) && (n <=? zlen l) then Some (zfirstn n l, zskipn n l) else None.

(* ---------- cache entries ---------- *)
Record ientry := {
  e_name : bytes;
  e_cs : Z; e_cns : Z; e_ms : Z; e_mns : Z;
  e_dev : Z; e_ino : Z; e_mode : Z; e_uid : Z; e_gid : Z; e_size : Z;
  e_sha : bytes;           (* 20 raw bytes *)
  e_flags : Z;             (* bits 12..15 only *)
  e_xflags : Z
}.

Definition NAMEMASK := 4095.
Definition EXTENDED := 16384.

Definition flags_field (e : ientry) : Z :=
  let f := Z.min (zlen (e_name e)) NAMEMASK + (e_flags e / 4096) * 4096 in
  if (e_xflags e =? 0) || ((f / EXTENDED) mod 2 =? 1) then f else f + EXTENDED.

Definition has_ext (f : Z) : bool := (f / EXTENDED) mod 2 =? 1.

Definition pad_len (sofar : Z) : Z := ((sofar + 8) / 8) * 8 - sofar.

(* write_cache_entry; None = the assertion "unable to use extended flags in version < 3" *)
Definition write_entry (v : Z) (prev : bytes) (e : ientry) : option bytes :=
  let f := flags_field e in
  if has_ext f && (v <? 3) then None
  else
    let fixed := be32 (e_cs e) ++ be32 (e_cns e) ++ be32 (e_ms e) ++ be32 (e_mns e)
                 ++ be32 (e_dev e mod 4294967296) ++ be32 (e_ino e mod 4294967296) ++ be32 (e_mode e)
                 ++ be32 (e_uid e) ++ be32 (e_gid e) ++ be32 (e_size e mod 4294967296)
                 ++ e_sha e ++ be16 f ++ (if has_ext f then be16 (e_xflags e) else []) in
    if 4 <=? v then Some (fixed ++ compress_path (e_name e) prev)
    else
      let sofar := zlen fixed + zlen (e_name e) in
      Some (fixed ++ e_name e ++ repeat 0 (Z.to_nat (pad_len sofar))).

(* read_cache_entry *)
Definition read_entry (v : Z) (prev : bytes) (l : bytes) : option (ientry * bytes) :=
  do (cs, l) <- rd32 l; do (cns, l) <- rd32 l; do (ms, l) <- rd32 l; do (mns, l) <- rd32 l;
  do (dev, l) <- rd32 l; do (ino, l) <- rd32 l; do (mode, l) <- rd32 l; do (uid, l) <- rd32 l;
  do (gid, l) <- rd32 l; do (size, l) <- rd32 l;
  do (sha, l) <- take 20 l;
  do (f, l) <- rd16 l;
  do (xf, l) <- (if has_ext f then (if v <? 3 then None else rd16 l) else Some (0, l));
  let fixedlen := 62 + (if has_ext f then 2 else 0) in
  let mk name := {| e_name := name; e_cs := cs; e_cns := cns; e_ms := ms; e_mns := mns; e_dev := dev;
                    e_ino := ino; e_mode := mode; e_uid := uid; e_gid := gid; e_size := size; e_sha := sha;
                    e_flags := (f / 4096) * 4096; e_xflags := xf |} in
  if 4 <=? v then
    do (name, l) <- decompress_path l prev;
    Some (mk name, l)
  else
    let nl := f mod 4096 in
    do (name0, l) <- take nl l;
    if nl =? NAMEMASK then
      (* saturated length: the name runs to the first NUL, which is already padding *)
      do (more, l') <- until_nul l;
      let name := name0 ++ more in
      let sofar := fixedlen + zlen name in
      do (_, l'') <- take (pad_len sofar - 1) l';
      Some (mk name, l'')
    else
      let sofar := fixedlen + nl in
      do (_, l') <- take (pad_len sofar) l;
      Some (mk name0, l').

(* the entries of a file, each v4 path relative to the previous entry's name *)
Fixpoint write_entries (v : Z) (prev : bytes) (es : list ientry) : option bytes :=
  match es with
  | [] => Some []
  | e :: r => do a <- write_entry v prev e; do b <- write_entries v (e_name e) r; Some (a ++ b)
  end.

Fixpoint read_entries (v : Z) (n : nat) (prev : bytes) (l : bytes) : option (list ientry * bytes) :=
  match n with
  | O => Some ([], l)
  | S k => do (e, l1) <- read_entry v prev l;
           do (es, l2) <- read_entries v k (e_name e) l1;
           Some (e :: es, l2)
  end.

(* header: "DIRC" version count *)
Definition DIRC : bytes := [68; 73; 82; 67].
Definition write_header (v n : Z) : bytes := DIRC ++ be32 v ++ be32 n.
Definition read_header (l : bytes) : option (Z * Z * bytes) :=
  do (sig, l) <- take 4 l;
  if negb (bytes_beq sig DIRC) then None
  else do (v, l) <- rd32 l; do (n, l) <- rd32 l;
       if (1 <=? v) && (v <=? 4) then Some (v, n, l) else None.

(* write_index bumps the version to 3 when an entry carries extended flags *)
Definition effective_version (v : Z) (es : list ientry) : Z :=
  if existsb (fun e => negb (e_xflags e =? 0)) es && (v <? 3) then 3 else v.

Definition write_index (v : Z) (es : list ientry) : option bytes :=
  let v' := effective_version v es in
  do body <- write_entries v' [] es;
  Some (write_header v' (zlen es) ++ body).

Definition read_index (l : bytes) : option (Z * list ientry * bytes) :=
  do (hdr, l) <- read_header l;
  let '(v, n) := hdr in
  do (es, l) <- read_entries v (Z.to_nat n) [] l;
  Some (v, es, l).

(* ---------- git's order: name bytewise, then stage ---------- *)
Fixpoint bytes_ltb (a b : bytes) : bool :=
  match a, b with
  | [], [] => false
  | [], _ :: _ => true
  | _ :: _, [] => false
  | x :: a', y :: b' => if x <? y then true else if y <? x then false else bytes_ltb a' b'
  end.
Definition stage_of (e : ientry) : Z := (e_flags e / 4096) mod 4.
Definition entry_ltb (a b : ientry) : bool :=
  bytes_ltb (e_name a) (e_name b) || (bytes_beq (e_name a) (e_name b) && (stage_of a <? stage_of b)).
Fixpoint sorted_entries (es : list ientry) : bool :=
  match es with
  | a :: ((b :: _) as r) => entry_ltb a b && sorted_entries r
  | _ => true
  end.
