(* Model/DeltaGraph.v — dulwich/pack.py DeltaChainIterator: record() sorts the
   entries of a pack into full objects and pending deltas keyed by their base;
   _follow_chain pops an entry, resolves it and moves the deltas pending on it
   to the work stack; whatever is still pending at the end is UnresolvedDeltas
   (REF_DELTA) or an assertion failure (OFS_DELTA).  Entries are numbered; a
   delta names its base by number (an offset, or the id of an object of the
   pack); a number that is no entry of the pack is a missing / external base.
   Definitions only. *)
From Coq Require Export List Arith Bool Lia.
Export ListNotations.

Inductive entry := EFull | EDelta (base : nat).

Record st := {
  todo : list nat;                 (* work stack *)
  pending : nat -> list nat;       (* base -> deltas waiting for it *)
  out : list nat                   (* resolved, newest first *)
}.

Definition is_full (e : entry) : bool := match e with EFull => true | _ => false end.

(* record(): positions of the full objects; deltas pending on each base *)
Fixpoint positions (f : entry -> bool) (es : list entry) (i : nat) : list nat :=
  match es with [] => [] | e :: r => if f e then i :: positions f r (S i) else positions f r (S i) end.
Definition waiting (es : list entry) (b : nat) : list nat :=
  positions (fun e => match e with EDelta b' => Nat.eqb b' b | EFull => false end) es 0.

Definition init (es : list entry) : st :=
  {| todo := positions is_full es 0; pending := waiting es; out := [] |}.

(* one iteration of the while loop of _follow_chain (all chains share the pending maps) *)
Definition step (s : st) : st :=
  match todo s with
  | [] => s
  | x :: rest => {| todo := pending s x ++ rest;
                    pending := fun k => if Nat.eqb k x then [] else pending s k;
                    out := x :: out s |}
  end.

Fixpoint run (fuel : nat) (s : st) : option st :=
  match todo s with
  | [] => Some s
  | _ => match fuel with O => None | S f => run f (step s) end
  end.

(* resolve the whole pack: Some resolved (if nothing is left pending) / None = UnresolvedDeltas *)
Definition unresolved (es : list entry) (s : st) : list nat :=
  filter (fun i => negb (existsb (Nat.eqb i) (out s))) (seq 0 (length es)).
Definition resolve (es : list entry) : option (option (list nat)) :=
  match run (length es) (init es) with
  | None => None                                   (* out of fuel: excluded by the theorem *)
  | Some s => Some (match unresolved es s with [] => Some (out s) | _ => None end)
  end.

(* the specification: following base pointers from i reaches a full object within k steps *)
Fixpoint reaches (es : list entry) (k : nat) (i : nat) : bool :=
  match k with
  | O => false
  | S k' => match nth_error es i with
            | Some EFull => true
            | Some (EDelta b) => reaches es k' b
            | None => false
            end
  end.

(* dulwich/pack.py Pack.resolve_object — the read path: walk down the chain of
   bases from entry i, remembering the offsets already visited; a base that is
   no entry of the pack (get_ref fails) or one that was visited already is an
   error; the walk ends at a full object.  Some (Some d): resolved through d
   deltas; Some None: error; None: out of fuel. *)
Fixpoint chase (es : list entry) (fuel : nat) (seen : list nat) (i : nat) : option (option nat) :=
  match fuel with
  | O => None
  | S f => match nth_error es i with
           | None => Some None
           | Some EFull => Some (Some (length seen - 1))
           | Some (EDelta b) => if existsb (Nat.eqb b) seen then Some None else chase es f (b :: seen) b
           end
  end.
Definition read_entry (es : list entry) (i : nat) : option (option nat) := chase es (S (length es)) [i] i.
