(* Model/CommitGraph.v — dulwich/commit_graph.py: how the parents of a commit are
   stored in the commit data chunk (two 32-bit slots) and the extra edge list
   (CommitGraph.write_to_file), and read back (_parse_graph_file,
   _parse_extra_edges).  A parent is a position in the sorted list of commit ids;
   None stands for a parent that is not in the file.  Definitions only. *)
From Coq Require Export ZArith List Bool Lia.
Export ListNotations.
Local Open Scope Z_scope.

Definition NONE : Z := 1879048192.      (* GRAPH_PARENT_NONE = GRAPH_PARENT_MISSING = 0x70000000 *)
Definition FLAG : Z := 2147483648.      (* GRAPH_EXTRA_EDGES_NEEDED = GRAPH_LAST_EDGE = 0x80000000 *)

Definition slot (p : option Z) : Z := match p with Some x => x | None => NONE end.

Fixpoint mark_last (l : list Z) : list Z :=
  match l with
  | [] => []
  | [x] => [x + FLAG]                   (* pos |= GRAPH_LAST_EDGE *)
  | x :: r => x :: mark_last r
  end.

(* one commit: the two slots and what it appends to the extra edge list, [off] entries long so far *)
Definition encode_commit (ps : list (option Z)) (off : Z) : Z * Z * list Z :=
  match ps with
  | [] => (NONE, NONE, [])
  | [a] => (slot a, NONE, [])
  | [a; b] => (slot a, slot b, [])
  | a :: rest => (slot a, FLAG + off, mark_last (map slot rest))
  end.

Fixpoint enc (cs : list (list (option Z))) (off : Z) : list (Z * Z) * list Z :=
  match cs with
  | [] => ([], [])
  | ps :: r =>
    let '(p1, p2, e) := encode_commit ps off in
    let '(rows, es) := enc r (off + Z.of_nat (length e)) in
    ((p1, p2) :: rows, e ++ es)
  end.
Definition encode_graph (cs : list (list (option Z))) : list (Z * Z) * list Z := enc cs 0.

(* _parse_extra_edges: entries up to and including the first one carrying the flag; positions outside the file are dropped *)
Fixpoint take_edges (l : list Z) (n : Z) : list Z :=
  match l with
  | [] => []
  | x :: r => if FLAG <=? x then (if x - FLAG <? n then [x - FLAG] else [])
              else if x <? n then x :: take_edges r n else take_edges r n
  end.

(* the parents of a row; None = ValueError (a slot below 0x70000000 that is no position) *)
Definition decode_commit (row : Z * Z) (edges : list Z) (n : Z) : option (list Z) :=
  let '(p1, p2) := row in
  if (p1 <? NONE) && negb (p1 <? n) then None
  else if (p2 <? NONE) && negb (p2 <? n) then None
  else Some ((if p1 <? NONE then [p1] else []) ++
             (if p2 <? NONE then [p2] else if FLAG <=? p2 then take_edges (skipn (Z.to_nat (p2 - FLAG)) edges) n else [])).

Definition decode_graph (g : list (Z * Z) * list Z) : list (option (list Z)) :=
  map (fun row => decode_commit row (snd g) (Z.of_nat (length (fst g)))) (fst g).

(* every parent is in the file: a position below the number of commits *)
Definition closed (cs : list (list (option Z))) : Prop :=
  Z.of_nat (length cs) <= NONE /\
  forall ps, In ps cs -> forall p, In p ps -> exists x, p = Some x /\ 0 <= x < Z.of_nat (length cs).
Definition positions (ps : list (option Z)) : list Z := map slot ps.
