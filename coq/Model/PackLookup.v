(* Model/PackLookup.v — PackBasedObjectStore.get_raw / _lookup_in_packs (dulwich/object_store.py) for one object,
   as a small-step reader interleaved with a maintenance process (repack, pack_loose_objects, gc) that adds
   packs and then deletes packs and loose files.  Definitions only. *)
From DV Require Export Gc.      (* for mem *)

Definition rem (x : nat) (l : list nat) : list nat := filter (fun y => negb (Nat.eqb y x)) l.

Section Lookup.
(* packs are content addressed: what a pack holds is a function of its name *)
Variable content : nat -> list nat.
(* the object looked up *)
Variable o : nat.

Definition has (w : nat) : bool := mem o (content w).

(* the object directory as far as o is concerned: the pack files present, whether o is
   there as a loose file, and whether the maintenance process has begun to delete *)
Record disk := { packs : list nat; loose : bool; deleting : bool }.

Definition opack_present (d : disk) : bool := existsb has (packs d).
Definition exists_o (d : disk) : bool := loose d || opack_present d.

(* ---------- the maintenance process ---------- *)
Inductive estep := EAdd (w : nat) | EDelPack (w : nat) | EDelLoose.

(* what it may do: add packs, then delete packs and the loose file, never the last copy of o.
   strict = false drops "then": packs may be added after deletions began (a second
   maintenance run overlapping the same lookup) *)
Definition env_legal (strict : bool) (d : disk) (e : estep) : bool :=
  match e with
  | EAdd w => negb (strict && deleting d) && negb (mem w (packs d))
  | EDelPack w => mem w (packs d) && (loose d || existsb has (rem w (packs d)))
  | EDelLoose => loose d && opack_present d
  end.

Definition env_apply (d : disk) (e : estep) : disk :=
  match e with
  | EAdd w => {| packs := packs d ++ [w]; loose := loose d; deleting := deleting d |}
  | EDelPack w => {| packs := rem w (packs d); loose := loose d; deleting := true |}
  | EDelLoose => {| packs := packs d; loose := false; deleting := true |}
  end.

(* ---------- the reader ---------- *)
(* Scan: inside _lookup_in_packs, `second` = the call made after the loose lookup failed;
   att = the attempt number, todo = the packs of this attempt not probed yet,
   dis / resc = the flags `disappeared` / `rescanned` *)
Inductive pc :=
| Scan (second : bool) (att : nat) (todo : list nat) (dis resc : bool)
| Loose
| Rescan2
| Found
| Missing.

(* cache = _pack_cache (names, in order); iopen / dopen = the packs whose index / data file the
   reader has loaded (Pack.index and Pack.data are loaded on first use and stay usable after the
   files are unlinked) *)
Record reader := { cache : list nat; iopen : list nat; dopen : list nat; ctl : pc }.

Definition max_attempts : nat := 3.        (* _MAX_PACK_RESCAN_ATTEMPTS *)

Definition has_new (d : disk) (r : reader) : bool := existsb (fun w => negb (mem w (cache r))) (packs d).

(* _update_pack_cache: the cache becomes the packs present (in the order `order`, which the
   caller supplies: dictionary order is not modelled), packs that are gone are closed *)
Definition rescan (d : disk) (r : reader) (order : list nat) (c : pc) : reader :=
  {| cache := order; iopen := filter (fun w => mem w (packs d)) (iopen r);
     dopen := filter (fun w => mem w (packs d)) (dopen r); ctl := c |}.
Definition order_ok (d : disk) (order : list nat) : bool :=
  forallb (fun w => mem w (packs d)) order && forallb (fun w => mem w order) (packs d).

Definition exit_miss (second : bool) : pc := if second then Missing else Loose.
Definition next_attempt (second : bool) (att : nat) (order : list nat) : pc :=
  if S att <? max_attempts then Scan second (S att) order false true else exit_miss second.

Definition with_ctl (r : reader) (c : pc) : reader := {| cache := cache r; iopen := iopen r; dopen := dopen r; ctl := c |}.
(* PackFileDisappeared: the pack is evicted *)
Definition evict (r : reader) (w : nat) (c : pc) : reader :=
  {| cache := rem w (cache r); iopen := rem w (iopen r); dopen := rem w (dopen r); ctl := c |}.

Definition rstep (d : disk) (r : reader) (order : list nat) : reader :=
  match ctl r with
  | Scan s att (w :: todo) dis resc =>
      (* Pack.get_raw: the index (loaded now unless it was), then the data for an object the index lists *)
      let present := mem w (packs d) in
      if negb (mem w (iopen r) || present) then evict r w (Scan s att todo true resc)
      else if negb (has w) then
        {| cache := cache r; iopen := w :: iopen r; dopen := dopen r; ctl := Scan s att todo dis resc |}
      else if mem w (dopen r) || present then
        {| cache := cache r; iopen := w :: iopen r; dopen := w :: dopen r; ctl := Found |}
      else evict r w (Scan s att todo true resc)
  | Scan s att [] dis resc =>
      if dis then rescan d r order (next_attempt s att order)
      else if negb resc then
        (if has_new d r then rescan d r order (next_attempt s att order)
         else rescan d r order (exit_miss s))
      else with_ctl r (exit_miss s)
  | Loose => with_ctl r (if loose d then Found else Rescan2)
  | Rescan2 =>
      if has_new d r then rescan d r order (Scan true 0 order false false)
      else rescan d r order Missing
  | Found | Missing => r
  end.

(* does the next reader step read the pack directory? (then it needs a valid order) *)
Definition needs_order (d : disk) (r : reader) : bool :=
  match ctl r with
  | Scan _ _ [] dis resc => dis || negb resc
  | Rescan2 => true
  | _ => false
  end.

(* ---------- interleavings ---------- *)
Inductive event := EvEnv (e : estep) | EvRead (order : list nat).

(* an event that is not allowed in the current state is skipped and reported *)
Definition sys_step (strict : bool) (st : disk * reader * bool) (ev : event) : disk * reader * bool :=
  let '(d, r, bad) := st in
  match ev with
  | EvEnv e => if env_legal strict d e then (env_apply d e, r, bad) else (d, r, true)
  | EvRead order => if needs_order d r && negb (order_ok d order) then (d, r, true) else (d, rstep d r order, bad)
  end.

Definition run (strict : bool) (d : disk) (r : reader) (evs : list event) : disk * reader * bool :=
  fold_left (sys_step strict) evs (d, r, false).

Definition start (c io do : list nat) : reader := {| cache := c; iopen := io; dopen := do; ctl := Scan false 0 c false false |}.

End Lookup.
