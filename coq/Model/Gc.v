(* Model/Gc.v — dulwich/gc.py: find_reachable_objects (worklist with the
   "marked when queued" discipline), find_unreachable_objects,
   prune_unreachable_objects / garbage_collect (what may be removed).
   Objects are numbers; [deps o] lists what object o refers to (tree and
   parents of a commit, entries of a tree, target of a tag; nothing for a blob
   or a missing object).  Definitions only. *)
From Coq Require Export List Arith Bool Lia.
Export ListNotations.

Definition mem (x : nat) (l : list nat) : bool := existsb (Nat.eqb x) l.

Section Gc.
  Variable deps : nat -> list nat.

  (* queue one referenced object unless it is already marked *)
  Definition visit (st : list nat * list nat) (d : nat) : list nat * list nat :=
    let '(pending, reach) := st in
    if mem d reach then (pending, reach) else (pending ++ [d], d :: reach).

  (* the while loop; fuel bounds the number of pops *)
  Fixpoint walk (fuel : nat) (pending reach : list nat) : option (list nat) :=
    match pending with
    | [] => Some reach
    | x :: rest =>
      match fuel with
      | O => None
      | S f => let '(p', r') := fold_left visit (deps x) (rest, reach) in walk f p' r'
      end
    end.

  (* start: every ref value, marked when queued *)
  Definition find_reachable (fuel : nat) (roots : list nat) : option (list nat) :=
    let '(p, r) := fold_left visit roots ([], []) in walk fuel p r.

  (* the graph-theoretic notion *)
  Inductive reachable (roots : list nat) : nat -> Prop :=
  | r_root o : In o roots -> reachable roots o
  | r_step o d : reachable roots o -> In d (deps o) -> reachable roots d.

  (* what prune / gc may remove: stored, not marked, and old enough *)
  Definition prunable (stored reach : list nat) (old_enough : nat -> bool) : list nat :=
    filter (fun o => negb (mem o reach) && old_enough o) stored.
  Definition after_gc (stored to_prune : list nat) : list nat :=
    filter (fun o => negb (mem o to_prune)) stored.
End Gc.
