(* Model/Refs.v — the files ref backend (dulwich/refs.py DiskRefsContainer:
   loose files + packed-refs) as a two-level store, and the flat map it is meant
   to look like.  Names are assumed to have passed _check_refname; directory
   bookkeeping is abstracted to the file/directory collision rule it enforces.
   Definitions only. *)
From DV Require Export Bytes.

Inductive rval := Sha (h : bytes) | Sym (t : bytes).

Definition rval_eqb (a b : rval) : bool :=
  match a, b with
  | Sha x, Sha y => bytes_beq x y
  | Sym x, Sym y => bytes_beq x y
  | _, _ => false
  end.

Definition rmap := list (bytes * rval).

Fixpoint rget (n : bytes) (m : rmap) : option rval :=
  match m with [] => None | (k, v) :: r => if bytes_beq n k then Some v else rget n r end.
Fixpoint rset (n : bytes) (v : rval) (m : rmap) : rmap :=
  match m with
  | [] => [(n, v)]
  | (k, w) :: r => if bytes_beq n k then (k, v) :: r else (k, w) :: rset n v r
  end.
Fixpoint rdel (n : bytes) (m : rmap) : rmap :=
  match m with [] => [] | (k, w) :: r => if bytes_beq n k then rdel n r else (k, w) :: rdel n r end.

Definition ZERO : bytes := repeat 48 40.

(* ---------- following symbolic refs (RefsContainer.follow) ---------- *)
(* None = SymrefLoop; Some (chain, value of the last name) *)
Fixpoint follow_f (read : bytes -> option rval) (fuel : nat) (n : bytes) (acc : list bytes)
  : option (list bytes * option bytes) :=
  match read n with
  | None => Some (acc ++ [n], None)
  | Some c =>
    match fuel with
    | O => None                                   (* depth > 5 *)
    | S f => match c with
             | Sha h => Some (acc ++ [n], Some h)
             | Sym t => follow_f read f t (acc ++ [n])
             end
    end
  end.
Definition follow (read : bytes -> option rval) (n : bytes) := follow_f read 5 n [].

(* ---------- the files backend ---------- *)
Record disk := { loose : rmap; packed : rmap }.

Definition dread (d : disk) (n : bytes) : option rval :=
  match rget n (loose d) with Some v => Some v | None => rget n (packed d) end.

Fixpoint starts_with (p l : bytes) : bool :=
  match p, l with
  | [], _ => true
  | x :: p', y :: l' => (x =? y) && starts_with p' l'
  | _ :: _, [] => false
  end.
(* a is a directory ancestor of b: b = a / ... *)
Definition dir_prefix (a b : bytes) : bool := starts_with (a ++ [47]) b.

Definition names (m : rmap) : list bytes := map fst m.

(* refusals raised before anything is written: an existing ref (loose file or
   packed) is an ancestor directory of x, or a packed ref lies below x *)
Definition pre_collide (x : bytes) (d : disk) : bool :=
  existsb (fun y => dir_prefix y x) (names (loose d) ++ names (packed d))
  || existsb (fun y => dir_prefix x y) (names (packed d)).
(* x is a directory holding loose refs: the final rename / unlink fails *)
Definition post_collide (x : bytes) (d : disk) : bool :=
  existsb (fun y => dir_prefix x y) (names (loose d)).
Definition loose_ancestor (x : bytes) (d : disk) : bool :=
  existsb (fun y => dir_prefix y x) (names (loose d)).

Inductive res := RTrue | RFalse | RExc.

Definition last_or (l : list bytes) (d : bytes) : bytes := last l d.

(* does the stored value of `real` equal the sha `o` (a missing ref counts as ZERO)? *)
Definition orig_is (d : disk) (real o : bytes) : bool :=
  match dread d real with
  | Some (Sha h) => bytes_beq h o
  | Some (Sym _) => false
  | None => bytes_beq ZERO o
  end.

Definition realname (d : disk) (n : bytes) : bytes :=
  match follow (dread d) n with
  | None => n
  | Some (chain, _) => last_or chain n
  end.

Definition set_if_equals (d : disk) (n : bytes) (old : option bytes) (new : bytes) : disk * res :=
  let real := realname d n in
  if pre_collide real d then (d, RExc)
  else if match old with Some o => negb (orig_is d real o) | None => false end then (d, RFalse)
  else if match dread d real with Some v => rval_eqb v (Sha new) | None => false end then (d, RTrue)
  else if post_collide real d then (d, RExc)
  else ({| loose := rset real (Sha new) (loose d); packed := packed d |}, RTrue).

Definition add_if_new (d : disk) (n : bytes) (v : bytes) : disk * res :=
  match follow (dread d) n with
  | None => (d, RExc)
  | Some (_, Some _) => (d, RFalse)
  | Some (chain, None) =>
    let real := last_or chain n in
    if pre_collide real d then (d, RExc)
    else if (match rget real (loose d) with Some _ => true | None => false end)
            || post_collide real d
            || (match rget real (packed d) with Some _ => true | None => false end) then (d, RFalse)
    else ({| loose := rset real (Sha v) (loose d); packed := packed d |}, RTrue)
  end.

Definition remove_if_equals (d : disk) (n : bytes) (old : option bytes) : disk * res :=
  if loose_ancestor n d then (d, RExc)
  else if match old with Some o => negb (orig_is d n o) | None => false end then (d, RFalse)
  else if post_collide n d then (d, RExc)
  else ({| loose := rdel n (loose d); packed := rdel n (packed d) |}, RTrue).

(* (the old target is looked up for the reflog only; a loop there does not stop the write) *)
Definition set_symbolic_ref (d : disk) (n t : bytes) : disk * res :=
  if pre_collide n d then (d, RExc)
  else if post_collide n d then (d, RExc)
  else ({| loose := rset n (Sym t) (loose d); packed := packed d |}, RTrue).

(* pack_refs(all): every selected ref whose visible value is a sha moves to
   packed-refs; symbolic refs and HEAD stay where they are *)
Definition HEAD : bytes := [72; 69; 65; 68].
Definition TAGS : bytes := [114; 101; 102; 115; 47; 116; 97; 103; 115; 47].
Definition selected (all : bool) (n : bytes) : bool :=
  negb (bytes_beq n HEAD) && (all || starts_with TAGS n).

Definition pack_one (all : bool) (d : disk) (n : bytes) : disk :=
  if selected all n then
    match dread d n with
    | Some (Sha h) => {| loose := rdel n (loose d); packed := rset n (Sha h) (packed d) |}
    | _ => d
    end
  else d.
Definition pack_refs (d : disk) (all : bool) : disk :=
  fold_left (pack_one all) (names (loose d) ++ names (packed d)) d.

(* ---------- operations as data, for sequences ---------- *)
Inductive rop :=
| OSet (n : bytes) (old : option bytes) (new : bytes)
| OAdd (n v : bytes)
| ODel (n : bytes) (old : option bytes)
| OSym (n t : bytes)
| OPack (all : bool).

Definition rstep (d : disk) (o : rop) : disk * res :=
  match o with
  | OSet n old new => set_if_equals d n old new
  | OAdd n v => add_if_new d n v
  | ODel n old => remove_if_equals d n old
  | OSym n t => set_symbolic_ref d n t
  | OPack all => (pack_refs d all, RTrue)
  end.

Definition disk_init : disk := {| loose := []; packed := [] |}.

(* observers: read_ref and __getitem__ (None = KeyError, Some None = SymrefLoop) *)
Definition getitem (d : disk) (n : bytes) : option (option bytes) :=
  match follow (dread d) n with
  | None => Some None
  | Some (_, Some h) => Some (Some h)
  | Some (_, None) => None
  end.
