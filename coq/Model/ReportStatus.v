(* Model/ReportStatus.v — the status report of a push on the wire: what ReceivePackHandler._report_status
   (dulwich/server.py) writes for the unpack result and for each ref, and what the client's
   ReportStatusParser (dulwich/client.py: handle_packet strips each packet, check() splits it) makes of
   those packets.  Definitions only. *)
From DV Require Export Bytes PackedFile Caps.

Definition OK_ : bytes := [111; 107].                       (* "ok" *)
Definition NG_ : bytes := [110; 103].                       (* "ng" *)
Definition UNPACK_ : bytes := [117; 110; 112; 97; 99; 107]. (* "unpack" *)

(* the server's line for one ref: None = updated, Some msg = why not *)
Definition status_line (ref : bytes) (st : option bytes) : bytes :=
  match st with
  | None => OK_ ++ [SP] ++ ref ++ [LF]
  | Some msg => NG_ ++ [SP] ++ ref ++ [SP] ++ msg ++ [LF]
  end.
Definition unpack_line (msg : bytes) : bytes := UNPACK_ ++ [SP] ++ msg ++ [LF].
Definition report (unpack : bytes) (refs : list (bytes * option bytes)) : list bytes :=
  unpack_line unpack :: map (fun x => status_line (fst x) (snd x)) refs.

(* bytes.split(b" ", 1): None when there is no space (the ValueError of the two-name unpacking) *)
Fixpoint split1_f (l cur : bytes) : option (bytes * bytes) :=
  match l with
  | [] => None
  | x :: r => if x =? SP then Some (rev cur, r) else split1_f r (x :: cur)
  end.
Definition split1 (l : bytes) : option (bytes * bytes) := split1_f l [].

Fixpoint bytes_eqb (a b : bytes) : bool :=
  match a, b with
  | [], [] => true
  | x :: a', y :: b' => (x =? y) && bytes_eqb a' b'
  | _, _ => false
  end.

(* what check() does with one stored packet *)
Inductive parsed :=
| PEntry (ref : bytes) (err : option bytes)   (* yielded *)
| PSkip                                       (* "malformed response, move on to the next one" *)
| PBad                                        (* GitProtocolError: invalid ref status *)
| PCrash.                                     (* "ng" and a name but no message: the unpacking of rest.split raises ValueError *)
Definition parse_status (pkt : bytes) : parsed :=
  match split1 (strip pkt) with
  | None => PSkip
  | Some (st, rest) =>
    if bytes_eqb st NG_ then
      match split1 rest with Some (ref, err) => PEntry ref (Some err) | None => PCrash end
    else if bytes_eqb st OK_ then PEntry rest None
    else PBad
  end.

(* the client's view of a whole report: the stripped first packet, then the entries; None = an exception *)
Fixpoint parse_entries (pkts : list bytes) : option (list (bytes * option bytes)) :=
  match pkts with
  | [] => Some []
  | p :: r =>
    match parse_status p, parse_entries r with
    | PEntry ref e, Some l => Some ((ref, e) :: l)
    | PSkip, Some l => Some l
    | _, _ => None
    end
  end.
Definition parse_report (pkts : list bytes) : option (bytes * list (bytes * option bytes)) :=
  match pkts with
  | [] => None
  | u :: r => match parse_entries r with Some l => Some (strip u, l) | None => None end
  end.

(* a message that survives strip(): not empty, no white space at either end, no line feed inside *)
Definition msg_ok (m : bytes) : bool :=
  match m, rev m with
  | x :: _, y :: _ => negb (is_space x) && negb (is_space y) && forallb (fun b => negb (b =? LF)) m
  | _, _ => false
  end.
