(* Model/LockFile.v — dulwich/file.py _GitFile: the lock-file protocol as step
   programs over a two-file file system (the protected file and its .lock),
   any number of actors, any interleaving at the granularity of the calls
   os.open(O_EXCL) / write / flush / os.fsync / close / os.replace / os.remove,
   with a fault (the call raises) possible at every call except os.remove.
   Readers open and read the protected file (one step: a rename swaps whole files).
   Definitions only. *)
From Coq Require Export ZArith List Bool Lia.
Export ListNotations.

Inductive outcome := Committed | Aborted | Locked | Failed | Seen.

Inductive pc :=
| POpen                 (* os.open(lock, O_CREAT|O_EXCL) *)
| PWrite                (* f.write(data): buffered *)
| PFlush                (* close(): self._file.flush() *)
| PFsync                (* close(): os.fsync *)
| PCloseFd              (* close(): self._file.close() *)
| PReplace              (* close(): os.replace(lock, target) *)
| PAbortClose (o : outcome)   (* abort(): self._file.close() *)
| PRemove (o : outcome)       (* abort(): os.remove(lock) *)
| PRead                 (* a reader: open(target).read() *)
| PDone (o : outcome).

Record actor := {
  a_pc : pc;
  a_data : Z;               (* what this writer writes (a name for the complete content) *)
  a_aborts : bool;          (* the caller's body raises after writing: __exit__ calls abort() *)
  a_seen : list (option Z)  (* a reader's observations *)
}.

Record state := {
  target : option Z;                    (* the protected file: absent or complete content *)
  lockf : option (nat * option Z);      (* the lock file: creator (ghost) and flushed content *)
  acts : nat -> actor;
  history : list (option Z)             (* every value the protected file has held, newest first (ghost) *)
}.

Definition upd (f : nat -> actor) (i : nat) (a : actor) : nat -> actor :=
  fun j => if Nat.eqb j i then a else f j.
Definition set_pc (a : actor) (p : pc) : actor :=
  {| a_pc := p; a_data := a_data a; a_aborts := a_aborts a; a_seen := a_seen a |}.

Definition with_pc (s : state) (i : nat) (p : pc) : state :=
  {| target := target s; lockf := lockf s; acts := upd (acts s) i (set_pc (acts s i) p); history := history s |}.

(* one call of actor i; fault = the call raises instead of taking effect *)
Definition step (s : state) (i : nat) (fault : bool) : state :=
  let a := acts s i in
  match a_pc a with
  | POpen =>
    if fault then with_pc s i (PDone Failed)
    else match lockf s with
         | Some _ => with_pc s i (PDone Locked)                       (* FileExistsError -> FileLocked *)
         | None => {| target := target s; lockf := Some (i, None);
                      acts := upd (acts s) i (set_pc a PWrite); history := history s |}
         end
  | PWrite =>
    if fault then with_pc s i (PAbortClose Failed)
    else if a_aborts a then with_pc s i (PAbortClose Aborted) else with_pc s i PFlush
  | PFlush =>
    if fault then with_pc s i (PAbortClose Failed)
    else {| target := target s; lockf := Some (i, Some (a_data a));
            acts := upd (acts s) i (set_pc a PFsync); history := history s |}
  | PFsync => if fault then with_pc s i (PAbortClose Failed) else with_pc s i PCloseFd
  | PCloseFd => if fault then with_pc s i (PRemove Failed) else with_pc s i PReplace    (* a failed close still closes: abort() goes straight to os.remove *)
  | PReplace =>
    if fault then with_pc s i (PRemove Failed)
    else match lockf s with
         | Some (_, c) => {| target := c; lockf := None;
                             acts := upd (acts s) i (set_pc a (PDone Committed)); history := c :: history s |}
         | None => with_pc s i (PRemove Failed)                        (* FileNotFoundError *)
         end
  | PAbortClose o => with_pc s i (PRemove (if fault then Failed else o))
  | PRemove o =>
    (* os.remove of whatever is at the lock path; FileNotFoundError is swallowed *)
    {| target := target s; lockf := None; acts := upd (acts s) i (set_pc a (PDone o)); history := history s |}
  | PRead =>
    if fault then with_pc s i (PDone Failed) else
    {| target := target s; lockf := lockf s;
       acts := upd (acts s) i {| a_pc := PDone Seen; a_data := a_data a; a_aborts := a_aborts a;
                                 a_seen := target s :: a_seen a |};
       history := history s |}
  | PDone _ => s
  end.

Definition run (s : state) (sched : list (nat * bool)) : state :=
  fold_left (fun st x => step st (fst x) (snd x)) sched s.

(* the calls during which an actor owns the lock file *)
Definition critical (p : pc) : bool :=
  match p with
  | PWrite | PFlush | PFsync | PCloseFd | PReplace | PAbortClose _ | PRemove _ => true
  | _ => false
  end.

Definition writer (d : Z) (aborts : bool) : actor := {| a_pc := POpen; a_data := d; a_aborts := aborts; a_seen := [] |}.
Definition reader : actor := {| a_pc := PRead; a_data := 0; a_aborts := false; a_seen := [] |}.
Definition idle : actor := {| a_pc := PDone Seen; a_data := 0; a_aborts := false; a_seen := [] |}.

Definition init (t0 : option Z) (l : list actor) : state :=
  {| target := t0; lockf := None; acts := fun i => nth i l idle; history := [t0] |}.

(* the name of the call an actor is about to make (for comparing traces) *)
Definition next_call (p : pc) : nat :=
  match p with
  | POpen => 1 | PWrite => 2 | PFlush => 3 | PFsync => 4 | PCloseFd => 5 | PReplace => 6
  | PAbortClose _ => 7 | PRemove _ => 8 | PRead => 9 | PDone _ => 0
  end.
