(* Model/TreeDiff.v — dulwich/diff_tree.py: _merge_entries (one directory level
   of walk_trees) and the classification of an entry pair in tree_changes.
   Definitions only. *)
From DV Require Export Bytes RustTwins.

Record tent := { t_name : bytes; t_mode : Z; t_id : bytes }.

Definition tent_eqb (a b : tent) : bool :=
  bytes_beq (t_name a) (t_name b) && (t_mode a =? t_mode b) && bytes_beq (t_id a) (t_id b).

(* _merge_entries over two lists in name order; fuel = total length *)
Fixpoint merge_entries (fuel : nat) (l1 l2 : list tent) : list (option tent * option tent) :=
  match fuel with
  | O => []
  | S f =>
    match l1, l2 with
    | [], [] => []
    | e1 :: r1, [] => (Some e1, None) :: merge_entries f r1 []
    | [], e2 :: r2 => (None, Some e2) :: merge_entries f [] r2
    | e1 :: r1, e2 :: r2 =>
      match bytes_cmp (t_name e1) (t_name e2) with
      | OLt => (Some e1, None) :: merge_entries f r1 l2
      | OGt => (None, Some e2) :: merge_entries f l1 r2
      | OEq => (Some e1, Some e2) :: merge_entries f r1 r2
      end
    end
  end.
Definition merge (l1 l2 : list tent) := merge_entries (length l1 + length l2) l1 l2.

(* tree_changes on one pair (trees already skipped: include_trees = False) *)
Inductive change := CAdd (e : tent) | CDelete (e : tent) | CModify (a b : tent) | CUnchanged (a b : tent).

Definition ifmt (m : Z) : Z := (m / 4096) mod 16.
Definition skip_tree (e : option tent) : option tent :=
  match e with Some x => if is_dir (t_mode x) then None else Some x | None => None end.

Definition classify (want_unchanged change_type_same : bool) (p : option tent * option tent) : list change :=
  let '(e1, e2) := p in
  let same := match e1, e2 with Some a, Some b => tent_eqb a b | None, None => true | _, _ => false end in
  if same && negb want_unchanged then []
  else
    match skip_tree e1, skip_tree e2 with
    | Some a, Some b =>
      if negb (ifmt (t_mode a) =? ifmt (t_mode b)) && negb change_type_same then [CDelete a; CAdd b]
      else if tent_eqb a b then [CUnchanged a b] else [CModify a b]
    | Some a, None => [CDelete a]
    | None, Some b => [CAdd b]
    | None, None => []
    end.
