(* Model/TreeDiff.v — dulwich/diff_tree.py: _merge_entries, walk_trees and
   tree_changes (no rename detector, no path filter); dulwich/object_store.py:
   iter_tree_contents and Tree.lookup_path.
   A store maps a tree id to the tree's entries in name order (what
   Tree.iteritems(name_order=True) yields); both trees of a diff are read from
   the same store, so equal ids denote equal trees.  Paths are lists of path
   components; the implementation joins them with '/'.
   Definitions only. *)
From DV Require Export Bytes RustTwins.

Record tent := { t_name : bytes; t_mode : Z; t_id : bytes }.

Definition tent_eqb (a b : tent) : bool :=
  bytes_beq (t_name a) (t_name b) && (t_mode a =? t_mode b) && bytes_beq (t_id a) (t_id b).

Definition store := bytes -> list tent.
Definition path := list bytes.
Definition leaf := (Z * bytes)%type.            (* mode, id of a non-directory entry *)
Definition pair := (option tent * option tent)%type.

(* ---------- one directory level: _merge_entries ---------- *)
Fixpoint merge_entries (fuel : nat) (l1 l2 : list tent) : list pair :=
  match fuel with
  | O => []
  | S f =>
    match l1, l2 with
    | [], [] => []
    | e1 :: r1, [] => (Some e1, None) :: merge_entries f r1 []
    | [], e2 :: r2 => (None, Some e2) :: merge_entries f [] r2
    | e1 :: r1, e2 :: r2 =>
      match bytes_cmp (t_name e1) (t_name e2) with
      | OLt => (Some e1, None) :: merge_entries f r1 l2
      | OGt => (None, Some e2) :: merge_entries f l1 r2
      | OEq => (Some e1, Some e2) :: merge_entries f r1 r2
      end
    end
  end.
Definition merge (l1 l2 : list tent) : list pair := merge_entries (length l1 + length l2) l1 l2.

Definition pair_name (p : pair) : bytes :=
  match p with (Some a, _) => t_name a | (None, Some b) => t_name b | (None, None) => [] end.

(* ---------- reading a tree ---------- *)
Definition find (n : bytes) (l : list tent) : option tent :=
  List.find (fun e => bytes_beq (t_name e) n) l.

(* the entries below an entry: a directory's tree, nothing otherwise *)
Definition sub (st : store) (e : option tent) : list tent :=
  match e with Some x => if is_dir (t_mode x) then st (t_id x) else [] | None => [] end.
Definition as_leaf (e : option tent) : option leaf :=
  match e with Some x => if is_dir (t_mode x) then None else Some (t_mode x, t_id x) | None => None end.

(* the file (mode, id) found at a path below an entry: Tree.lookup_path restricted to non-directories *)
Fixpoint look (st : store) (e : option tent) (q : path) : option leaf :=
  match q with
  | [] => as_leaf e
  | n :: r => look st (find n (sub st e)) r
  end.

Definition root (id : bytes) : option tent := Some {| t_name := []; t_mode := 16384; t_id := id |}.

(* iter_tree_contents: every file below an entry, with its path *)
Fixpoint flatten (fuel : nat) (st : store) (e : tent) : list (path * leaf) :=
  if is_dir (t_mode e) then
    match fuel with
    | O => []
    | S f => flat_map (fun c => map (fun x => (t_name c :: fst x, snd x)) (flatten f st c)) (st (t_id e))
    end
  else [([], (t_mode e, t_id e))].

(* ---------- walk_trees ---------- *)
Definition is_tree (e : option tent) : bool := match e with Some x => is_dir (t_mode x) | None => false end.
Definition oeqb (e1 e2 : option tent) : bool :=
  match e1, e2 with Some a, Some b => tent_eqb a b | None, None => true | _, _ => false end.

(* pre-order; paths relative to the pair walked *)
Fixpoint walk (fuel : nat) (st : store) (prune : bool) (pr : pair) : list (path * pair) :=
  if prune && is_tree (fst pr) && is_tree (snd pr) && oeqb (fst pr) (snd pr) then []
  else ([], pr) ::
       match fuel with
       | O => []
       | S f => flat_map (fun c => map (fun x => (pair_name c :: fst x, snd x)) (walk f st prune c))
                         (merge (sub st (fst pr)) (sub st (snd pr)))
       end.

(* ---------- tree_changes ---------- *)
Inductive change := CAdd (e : tent) | CDelete (e : tent) | CModify (a b : tent) | CUnchanged (a b : tent).

Definition ifmt (m : Z) : Z := (m / 4096) mod 16.
Definition skip_tree (include_trees : bool) (e : option tent) : option tent :=
  match e with Some x => if negb include_trees && is_dir (t_mode x) then None else Some x | None => None end.

Definition classify (want_unchanged include_trees change_type_same : bool) (p : pair) : list change :=
  if oeqb (fst p) (snd p) && negb want_unchanged then []
  else
    match skip_tree include_trees (fst p), skip_tree include_trees (snd p) with
    | Some a, Some b =>
      if negb (ifmt (t_mode a) =? ifmt (t_mode b)) && negb change_type_same then [CDelete a; CAdd b]
      else if tent_eqb a b then [CUnchanged a b] else [CModify a b]
    | Some a, None => [CDelete a]
    | None, Some b => [CAdd b]
    | None, None => []
    end.

Definition tree_changes (fuel : nat) (st : store) (want_unchanged include_trees change_type_same : bool)
           (t1 t2 : option bytes) : list (path * change) :=
  let r := fun t => match t with Some id => root id | None => None end in
  flat_map (fun x => map (fun c => (fst x, c)) (classify want_unchanged include_trees change_type_same (snd x)))
           (walk fuel st (negb want_unchanged) (r t1, r t2)).

(* the change list as a patch on flat listings: (path, old file, new file);
   a type change reported as delete + add is one patch item *)
Definition own_delta (p : pair) : list (path * option leaf * option leaf) :=
  if oeqb (fst p) (snd p) then []
  else match as_leaf (fst p), as_leaf (snd p) with
       | None, None => []
       | o, n => [([], o, n)]
       end.
Definition tree_delta (fuel : nat) (st : store) (pr : pair) : list (path * option leaf * option leaf) :=
  flat_map (fun x => map (fun d => (fst x ++ fst (fst d), snd (fst d), snd d)) (own_delta (snd x))) (walk fuel st true pr).

Fixpoint path_beq (a b : path) : bool :=
  match a, b with
  | [], [] => true
  | x :: a', y :: b' => bytes_beq x y && path_beq a' b'
  | _, _ => false
  end.
Definition find_delta (q : path) (d : list (path * option leaf * option leaf)) : option (option leaf * option leaf) :=
  match List.find (fun x => path_beq (fst (fst x)) q) d with
  | Some x => Some (snd (fst x), snd x)
  | None => None
  end.
(* the first tree's listing with the patch applied *)
Definition patched (fuel : nat) (st : store) (pr : pair) (q : path) : option leaf :=
  match find_delta q (tree_delta fuel st pr) with
  | Some (_, n) => n
  | None => look st (fst pr) q
  end.

(* ---------- well-formedness, decidable: entries strictly increasing by name, depth within fuel ---------- *)
Fixpoint sortedb (l : list tent) : bool :=
  match l with
  | a :: ((b :: _) as r) => (match bytes_cmp (t_name a) (t_name b) with OLt => true | _ => false end) && sortedb r
  | _ => true
  end.
Fixpoint wfb (fuel : nat) (st : store) (e : option tent) : bool :=
  sortedb (sub st e) &&
  match fuel with
  | O => match sub st e with [] => true | _ => false end
  | S f => forallb (fun c => wfb f st (Some c)) (sub st e)
  end.

(* a finite store *)
Definition st_of (tbl : list (bytes * list tent)) : store :=
  fun id => match List.find (fun kv => bytes_beq (fst kv) id) tbl with Some kv => snd kv | None => [] end.
