(* Model/TimeEntry.v — dulwich/objects.py: format_timezone / parse_timezone and
   format_time_entry / parse_time_entry (the author, committer and tagger lines).
   int(offset / 3600) on floats is truncation towards zero (Z.quot);
   (offset / 60) % 60 is Python's modulo on an exact quotient (offset is a multiple
   of 60 when it gets there).  Definitions only. *)
From DV Require Export Bytes Objects.

Definition PLUS : Z := 43.
Definition MINUS : Z := 45.
Definition GT : Z := 62.
Definition SPC : Z := 32.

(* "%02d" % n *)
Definition pad2 (n : Z) : bytes :=
  if (0 <=? n) && (n <? 100) then [48 + n / 10; 48 + n mod 10] else dec n.

(* None = ValueError *)
Definition format_timezone (offset : Z) (neg_utc : bool) : option bytes :=
  if negb (offset mod 60 =? 0) then None
  else
    let '(sign, off) := if (offset <? 0) || neg_utc then (MINUS, - offset) else (PLUS, offset) in
    Some (sign :: pad2 (Z.quot off 3600) ++ pad2 ((off / 60) mod 60)).

Definition parse_timezone (text : bytes) : option (Z * bool) :=
  match text with
  | s :: rest =>
    if (s =? PLUS) || (s =? MINUS) then
      match parse_dec rest with
      | Some n =>
        let off := if s =? MINUS then - n else n in
        let unnecessary := (0 <=? off) && (s =? MINUS) in
        let signum := if off <? 0 then -1 else 1 in
        let a := Z.abs off in
        Some (signum * ((a / 100) * 3600 + (a mod 100) * 60), unnecessary)
      | None => None
      end
    else None
  | [] => None
  end.

Definition format_time_entry (person : bytes) (time : Z) (tz : Z) (neg_utc : bool) : option bytes :=
  match format_timezone tz neg_utc with
  | Some t => Some (person ++ [SPC] ++ dec time ++ [SPC] ++ t)
  | None => None
  end.

(* value.rindex(b"> "): position of the last occurrence *)
Fixpoint rindex_gt (l : bytes) (i : Z) (found : option Z) : option Z :=
  match l with
  | a :: ((b :: _) as r) => rindex_gt r (i + 1) (if (a =? GT) && (b =? SPC) then Some i else found)
  | _ => found
  end.
(* text.rsplit(b" ", 1): at the last space *)
Fixpoint last_space (l : bytes) (i : Z) (found : option Z) : option Z :=
  match l with
  | a :: r => last_space r (i + 1) (if a =? SPC then Some i else found)
  | [] => found
  end.

Inductive tres := TNoDate (value : bytes) | TOk (person : bytes) (time : Z) (tz : Z) (neg_utc : bool) | TError.

Definition parse_time_entry (value : bytes) : tres :=
  match rindex_gt value 0 None with
  | None => TNoDate value
  | Some sep =>
    let person := zfirstn (sep + 1) value in
    let rest := zskipn (sep + 2) value in
    match last_space rest 0 None with
    | None => TError
    | Some k =>
      match parse_dec (zfirstn k rest), parse_timezone (zskipn (k + 1) rest) with
      | Some t, Some (tz, neg) => TOk person t tz neg
      | _, _ => TError
      end
    end
  end.
