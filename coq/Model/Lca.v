(* Model/Lca.v — dulwich/graph.py _find_lcas (flags, _DNC propagation, the final
   redundancy filter), can_fast_forward, independent.  Commits are numbered so
   that parents have smaller numbers (any DAG can be numbered so; the code does
   not use the numbers).  The work list is popped at a position chosen by an
   arbitrary function `pick`: commit timestamps influence the real heap only
   through this choice, so a statement for every `pick` is a statement for
   every assignment of timestamps.  Definitions only. *)
From Coq Require Export List Arith Bool Lia.
Export ListNotations.

Definition node := nat.

Record st := {
  A1 : node -> bool;      (* _ANC_OF_1 *)
  A2 : node -> bool;      (* _ANC_OF_2 *)
  DN : node -> bool;      (* _DNC *)
  wl : list node;         (* work list (heap contents, duplicates allowed) *)
  cands : list node       (* candidates, newest first *)
}.

Definition upd (f : node -> bool) (v : node) : node -> bool := fun u => if Nat.eqb u v then true else f u.
Definition memb (v : node) (l : list node) : bool := existsb (Nat.eqb v) l.
Definition remove_nth {A} (i : nat) (l : list A) : list A := firstn i l ++ skipn (S i) l.

Section Algo.
  Variable parents : node -> list node.
  Variable pick : list node -> nat.

  (* pushing the flags (p1,p2,pd) of a popped commit to one parent *)
  Definition push_parent (p1 p2 pd : bool) (s : st) (p : node) : st :=
    if (implb p1 (A1 s p)) && (implb p2 (A2 s p)) && (implb pd (DN s p)) then s
    else {| A1 := if p1 then upd (A1 s) p else A1 s;
            A2 := if p2 then upd (A2 s) p else A2 s;
            DN := if pd then upd (DN s) p else DN s;
            wl := p :: wl s; cands := cands s |}.

  Definition step (s : st) : st :=
    let i := pick (wl s) mod length (wl s) in
    match nth_error (wl s) i with
    | None => s
    | Some v =>
      let is_ca := A1 s v && A2 s v && negb (DN s v) in
      let s1 := {| A1 := A1 s; A2 := A2 s; DN := DN s; wl := remove_nth i (wl s);
                   cands := if is_ca && negb (memb v (cands s)) then v :: cands s else cands s |} in
      fold_left (push_parent (A1 s v) (A2 s v) (DN s v || is_ca)) (parents v) s1
    end.

  (* _has_candidates *)
  Definition has_candidates (s : st) : bool := existsb (fun v => negb (DN s v)) (wl s).

  Fixpoint run (fuel : nat) (s : st) : option st :=
    if has_candidates s then
      match fuel with O => None | S f => run f (step s) end
    else Some s.

  Definition init (c1 : node) (c2s : list node) : st :=
    {| A1 := upd (fun _ => false) c1;
       A2 := fun u => memb u c2s;
       DN := fun _ => false;
       wl := rev c2s ++ [c1]; cands := [] |}.

  (* ancestors-or-self of every commit below n, bottom-up (parents are smaller) *)
  Fixpoint anc_tbl (n : nat) : list (list node) :=
    match n with
    | O => []
    | S k => let t := anc_tbl k in
             t ++ [k :: flat_map (fun p => nth p t []) (parents k)]
    end.
  Definition ancb (n : nat) (a v : node) : bool := memb a (nth v (anc_tbl n) []).

  (* final filter: not _DNC, then drop what is reachable from another candidate *)
  Definition finish (n : nat) (s : st) : list node :=
    let results := filter (fun c => negb (DN s c)) (cands s) in
    filter (fun c => negb (existsb (fun c' => negb (Nat.eqb c c') && ancb n c c') results)) results.

  Definition find_lcas (n : nat) (fuel : nat) (c1 : node) (c2s : list node) : option (list node) :=
    match run fuel (init c1 c2s) with
    | Some s => Some (finish n s)
    | None => None
    end.

  (* can_fast_forward(c1, c2): c1 == c2 or _find_lcas(c1, [c2]) == [c1] *)
  Definition can_fast_forward (n fuel : nat) (c1 c2 : node) : option bool :=
    if Nat.eqb c1 c2 then Some true
    else match find_lcas n fuel c1 [c2] with
         | Some [x] => Some (Nat.eqb x c1)
         | Some _ => Some false
         | None => None
         end.
End Algo.

(* fuel that always suffices: every push sets a new flag bit *)
Definition lca_fuel (n : nat) (c2s : list node) : nat := 3 * n + length c2s + 2.

(* the heap order of the implementation, for running the model: largest stamp
   first; the result does not depend on it *)
Definition pick_max (stamp : node -> nat) (l : list node) : nat :=
  let fix go (l : list node) (i best bi : nat) :=
    match l with
    | [] => bi
    | v :: r => if Nat.ltb best (S (stamp v)) then go r (S i) (S (stamp v)) i else go r (S i) best bi
    end in go l 0 0 0.
