(* Model/ThinPack.v — completing a thin pack (dulwich/pack.py DeltaChainIterator: record, _walk_all_chains,
   _walk_ref_chains with resolve_ext_ref, _follow_chain; extend_pack appends the objects listed in ext_refs).
   Objects are named by numbers (their ids).  An entry of the pack is a full object or a delta on a base given
   by name (REF_DELTA); the base may be another entry of the pack, an object only the receiver's store has,
   both, or neither.  Definitions only. *)
From Coq Require Export List Arith Bool Lia.
Export ListNotations.

Inductive kind := KFull | KDelta (base : nat).
Definition entry := (nat * kind)%type.            (* name, kind *)

Definition mem (x : nat) (l : list nat) : bool := existsb (Nat.eqb x) l.
Definition remove1 (x : nat) (l : list nat) : list nat := filter (fun y => negb (Nat.eqb y x)) l.

Record st := {
  pend : list (nat * nat);        (* pending REF_DELTAs: (base name, name of the delta entry) *)
  prod : list nat;                (* names of the entries resolved so far *)
  ext : list nat                  (* ext_refs: bases fetched from the store *)
}.

(* the entries waiting for base b, and the rest *)
Definition waiting (b : nat) (p : list (nat * nat)) : list nat := map snd (filter (fun x => Nat.eqb (fst x) b) p).
Definition others (b : nat) (p : list (nat * nat)) : list (nat * nat) := filter (fun x => negb (Nat.eqb (fst x) b)) p.

(* _follow_chain: a work list of entries whose base has just become available; `dedupe` is the repair
   (an entry that is resolved is taken off ext_refs) *)
Fixpoint follow (dedupe : bool) (fuel : nat) (todo : list nat) (s : st) : st :=
  match fuel with
  | O => s
  | S f =>
    match todo with
    | [] => s
    | n :: rest =>
      follow dedupe f (waiting n (pend s) ++ rest)
        {| pend := others n (pend s); prod := n :: prod s;
           ext := if dedupe then remove1 n (ext s) else ext s |}
    end
  end.

(* record() + _walk_all_chains: the full objects are resolved first, with everything that hangs on them *)
Definition initial (es : list entry) : st :=
  {| pend := flat_map (fun e => match snd e with KDelta b => [(b, fst e)] | KFull => [] end) es; prod := []; ext := [] |}.
Definition fulls (es : list entry) : list nat :=
  flat_map (fun e => match snd e with KFull => [fst e] | KDelta _ => [] end) es.

(* _walk_ref_chains: the pending bases in the order given (sorted ids); one that is still pending and that the
   store has is taken from the store *)
Fixpoint walk_refs (dedupe : bool) (fuel : nat) (store : nat -> bool) (bases : list nat) (s : st) : st :=
  match bases with
  | [] => s
  | b :: rest =>
    if mem b (map fst (pend s)) && store b then
      walk_refs dedupe fuel store rest
        (follow dedupe fuel (waiting b (pend s))
           {| pend := others b (pend s); prod := prod s; ext := b :: ext s |})
    else walk_refs dedupe fuel store rest s
  end.

Definition complete (dedupe : bool) (store : nat -> bool) (order : list nat) (es : list entry) : st :=
  let fuel := S (length es) in
  walk_refs dedupe fuel store order (follow dedupe fuel (fulls es) (initial es)).

(* the names of the objects of the completed pack: the entries that were sent, then what extend_pack appends *)
Definition completed_names (es : list entry) (s : st) : list nat := map fst es ++ ext s.
