(* Model/Receive.v — dulwich/server.py ReceivePackHandler._apply_pack after the
   pack has been stored: the per-ref update loop, with and without the atomic
   capability.  Ref storage is the flat map that Model/Refs.v shows the files
   backend to be (compare-and-swap on one name); the update hook is absent.
   Definitions only. *)
From DV Require Export Bytes.

Definition ZERO : bytes := repeat 48 40.

Definition refmap := list (bytes * bytes).
Fixpoint rget (r : bytes) (m : refmap) : option bytes :=
  match m with [] => None | (k, v) :: t => if bytes_beq r k then Some v else rget r t end.
Fixpoint rset (r v : bytes) (m : refmap) : refmap :=
  match m with
  | [] => [(r, v)]
  | (k, w) :: t => if bytes_beq r k then (k, v) :: t else (k, w) :: rset r v t
  end.
Fixpoint rdel (r : bytes) (m : refmap) : refmap :=
  match m with [] => [] | (k, w) :: t => if bytes_beq r k then rdel r t else (k, w) :: rdel r t end.

(* current value as the wire protocol names it: the zero id for a missing ref *)
Definition cur (m : refmap) (r : bytes) : bytes := match rget r m with Some v => v | None => ZERO end.

Record cmd := { c_old : bytes; c_new : bytes; c_ref : bytes }.

Inductive status := SOk | SMissing | SStale | SAtomicFailed.

Definition memb (x : bytes) (l : list bytes) : bool := existsb (bytes_beq x) l.

(* check_update: None = may be attempted.  (Deleting without the delete-refs
   capability raises GitProtocolError for the whole session; commands here are
   assumed to respect the advertised capabilities.) *)
Definition check_update (objs : list bytes) (c : cmd) : option status :=
  if bytes_beq (c_new c) ZERO then None
  else if memb (c_new c) objs then None else Some SMissing.

(* apply_update: compare-and-swap *)
Definition apply_update (m : refmap) (c : cmd) : refmap * status :=
  if bytes_beq (cur m (c_ref c)) (c_old c) then
    (if bytes_beq (c_new c) ZERO then rdel (c_ref c) m else rset (c_ref c) (c_new c) m, SOk)
  else (m, SStale).

(* non-atomic: each command on its own *)
Fixpoint run_plain (objs : list bytes) (m : refmap) (cs : list cmd) : refmap * list status :=
  match cs with
  | [] => (m, [])
  | c :: r =>
    let '(m1, s) := match check_update objs c with
                    | Some e => (m, e)
                    | None => apply_update m c
                    end in
    let '(m2, ss) := run_plain objs m1 r in (m2, s :: ss)
  end.

(* atomic: validation pass over the unchanged map *)
Definition validate (objs : list bytes) (m : refmap) (c : cmd) : status :=
  match check_update objs c with
  | Some e => e
  | None => if bytes_beq (cur m (c_ref c)) (c_old c) then SOk else SStale
  end.

Definition is_ok (s : status) : bool := match s with SOk => true | _ => false end.

(* undo, newest first *)
Definition undo_one (m : refmap) (c : cmd) : refmap :=
  if bytes_beq (c_old c) ZERO then
    (if bytes_beq (cur m (c_ref c)) (c_new c) then rdel (c_ref c) m else m)
  else if bytes_beq (c_new c) ZERO then
    (match rget (c_ref c) m with None => rset (c_ref c) (c_old c) m | Some _ => m end)
  else if bytes_beq (cur m (c_ref c)) (c_new c) then rset (c_ref c) (c_old c) m else m.

(* apply phase: returns the final map and, on failure, the failing command's
   position and status *)
Fixpoint apply_all (m : refmap) (todo : list cmd) (applied : list cmd) (i : nat)
  : refmap * option (nat * status) :=
  match todo with
  | [] => (m, None)
  | c :: r =>
    let '(m1, s) := apply_update m c in
    if is_ok s then apply_all m1 r (c :: applied) (S i)
    else (fold_left undo_one applied m1, Some (i, s))
  end.

Definition run_atomic (objs : list bytes) (m : refmap) (cs : list cmd) : refmap * list status :=
  let vs := map (validate objs m) cs in
  if forallb is_ok vs then
    match apply_all m cs [] 0 with
    | (m', None) => (m', map (fun _ => SOk) cs)
    | (m', Some (i, s)) =>
      (* the report names refs: every command on the failing ref carries its status *)
      let failing := c_ref (nth i cs {| c_old := []; c_new := []; c_ref := [] |}) in
      (m', map (fun c => if bytes_beq (c_ref c) failing then s else SAtomicFailed) cs)
    end
  else (m, map (fun s => if is_ok s then SAtomicFailed else s) vs).

Definition apply_pack (atomic : bool) (objs : list bytes) (m : refmap) (cs : list cmd) : refmap * list status :=
  if atomic then run_atomic objs m cs else run_plain objs m cs.

(* what a command asks for *)
Definition requested (c : cmd) (m : refmap) : bool :=
  if bytes_beq (c_new c) ZERO then (match rget (c_ref c) m with None => true | Some _ => false end)
  else match rget (c_ref c) m with Some v => bytes_beq v (c_new c) | None => false end.
