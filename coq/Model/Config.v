(* Model/Config.v — git configuration value / subsection codecs.
   dulwich/config.py: _escape_value, _format_string, _parse_string,
   _escape_subsection, _unescape_subsection, the value part of from_file /
   write_to_file lines; and git's own reader (config.c parse_value, 2.39) as the
   second reader.  Definitions only. *)
From DV Require Export Bytes.

Definition BS := 92.   (* backslash *)
Definition DQ := 34.   (* double quote *)
Definition LF := 10.
Definition CR := 13.
Definition TAB := 9.
Definition SP := 32.
Definition HASH := 35.
Definition SEMI := 59.

(* ---------- writer ---------- *)
(* _escape_value: the four sequential bytes.replace calls act per byte *)
Definition esc_byte (c : Z) : bytes :=
  if c =? BS then [BS; BS]
  else if c =? LF then [BS; 110]
  else if c =? TAB then [BS; 116]
  else if c =? DQ then [BS; DQ]
  else [c].
Definition escape_value (v : bytes) : bytes := flat_map esc_byte v.

Definition is_blank (c : Z) : bool := (c =? SP) || (c =? TAB).
Definition mem (c : Z) (v : bytes) : bool := existsb (Z.eqb c) v.
Definition starts_blank (v : bytes) : bool := match v with c :: _ => is_blank c | [] => false end.
Definition ends_blank (v : bytes) : bool := starts_blank (rev v).

(* _format_string *)
Definition needs_quote (v : bytes) : bool :=
  starts_blank v || ends_blank v || mem HASH v || mem SEMI v || mem CR v.
Definition format_string (v : bytes) : bytes :=
  if needs_quote v then DQ :: escape_value v ++ [DQ] else escape_value v.

(* ---------- dulwich reader ---------- *)
Definition is_strip (c : Z) : bool := (c =? SP) || (c =? TAB) || (c =? CR) || (c =? LF).
Fixpoint lstrip (l : bytes) : bytes :=
  match l with c :: r => if is_strip c then lstrip r else l | [] => [] end.
Definition strip (l : bytes) : bytes := rev (lstrip (rev (lstrip l))).

Definition esc_table (c : Z) : option Z :=
  if c =? BS then Some BS else if c =? DQ then Some DQ
  else if c =? 110 then Some LF else if c =? 116 then Some TAB
  else if c =? 98 then Some 8 else None.

(* main loop of _parse_string; None = ValueError("missing end quote") *)
Fixpoint ps (l : bytes) (ret ws : bytes) (inq : bool) : option bytes :=
  match l with
  | [] => if inq then None else Some ret
  | c :: r =>
    if c =? BS then
      match r with
      | [] => if inq then None else Some (ret ++ ws ++ [BS])
      | e :: r' =>
        match esc_table e with
        | Some v => ps r' (ret ++ ws ++ [v]) [] inq
        | None => ps r (ret ++ ws ++ [BS]) [] inq          (* reprocess e *)
        end
      end
    else if c =? DQ then ps r ret ws (negb inq)
    else if ((c =? HASH) || (c =? SEMI)) && negb inq then Some ret     (* comment: break *)
    else if is_blank c then
      (if inq then ps r (ret ++ [c]) ws inq else ps r ret (ws ++ [c]) inq)
    else ps r (ret ++ ws ++ [c]) [] inq
  end.
Definition parse_string (value : bytes) : option bytes := ps (strip value) [] [] false.

(* ---------- git's reader: config.c parse_value (2.39) ---------- *)
(* get_next_char: CR LF -> LF; end of input -> LF.  The input is the text after
   the '=' up to and including the line feed. *)
Definition git_space (c : Z) : bool := (c =? SP) || (c =? TAB) || (c =? CR) || (c =? LF).

Fixpoint spaces (n : nat) : bytes := match n with O => [] | S k => SP :: spaces k end.

(* get_next_char applied to the whole input: CR LF -> LF *)
Fixpoint crlf (l : bytes) : bytes :=
  match l with
  | [] => []
  | c :: r => match r with
              | n :: r1 => if (c =? CR) && (n =? LF) then LF :: crlf r1 else c :: crlf r
              | [] => [c]
              end
  end.

(* value, pending space count, quote flag, comment flag; None = "bad config line" *)
Fixpoint gpv (l : bytes) (val : bytes) (space : nat) (quote comment : bool) : option bytes :=
  match l with
  | [] => if quote then None else Some val                 (* EOF acts as LF *)
  | c :: r =>
    if c =? LF then (if quote then None else Some val)
    else if comment then gpv r val space quote comment
    else if git_space c && negb quote then
      gpv r val (match val with [] => space | _ => S space end) quote comment
    else if negb quote && ((c =? SEMI) || (c =? HASH)) then gpv r val space quote true
    else
      let val1 := val ++ spaces space in
      if c =? BS then
        match r with
        | [] => if quote then None else Some val1          (* backslash, EOF: continuation, then end *)
        | e :: r' =>
          if e =? LF then gpv r' val1 0 quote comment
          else if e =? 116 then gpv r' (val1 ++ [TAB]) 0 quote comment
          else if e =? 98 then gpv r' (val1 ++ [8]) 0 quote comment
          else if e =? 110 then gpv r' (val1 ++ [LF]) 0 quote comment
          else if (e =? BS) || (e =? DQ) then gpv r' (val1 ++ [e]) 0 quote comment
          else None
        end
      else if c =? DQ then gpv r val1 0 (negb quote) comment
      else gpv r (val1 ++ [c]) 0 quote comment
  end.
Definition git_parse_value (l : bytes) : option bytes := gpv (crlf l) [] 0 false false.

(* ---------- subsections ---------- *)
(* _escape_subsection (None = ValueError: LF or NUL inside) *)
Definition esc_sub_byte (c : Z) : bytes := if c =? BS then [BS; BS] else if c =? DQ then [BS; DQ] else [c].
Definition escape_subsection (name : bytes) : option bytes :=
  if mem LF name || mem 0 name then None else Some (flat_map esc_sub_byte name).

(* _unescape_subsection *)
Fixpoint unescape_subsection (l : bytes) : bytes :=
  match l with
  | [] => []
  | c :: r =>
    if c =? BS then
      match r with
      | e :: r' => e :: unescape_subsection r'
      | [] => [c]
      end
    else c :: unescape_subsection r
  end.

(* the line written by write_to_file for one setting, and what from_file hands to
   _parse_string: everything after the first '=' *)
Definition setting_line (key v : bytes) : bytes := TAB :: key ++ [SP; 61; SP] ++ format_string v ++ [LF].
Definition value_part (v : bytes) : bytes := SP :: format_string v ++ [LF].

(* ---------- CaseInsensitiveOrderedMultiDict ---------- *)
Definition lower_byte (c : Z) : Z := if (65 <=? c) && (c <=? 90) then c + 32 else c.
Definition lower (k : bytes) : bytes := map lower_byte k.

Definition kv : Type := bytes * bytes.

(* a Python dict keyed by byte strings: insertion ordered, update in place *)
Fixpoint aget (k : bytes) (l : list kv) : option bytes :=
  match l with [] => None | (k', v) :: r => if bytes_beq k k' then Some v else aget k r end.
Fixpoint aset (k v : bytes) (l : list kv) : list kv :=
  match l with
  | [] => [(k, v)]
  | (k', v') :: r => if bytes_beq k k' then (k', v) :: r else (k', v') :: aset k v r
  end.
Fixpoint adel (k : bytes) (l : list kv) : list kv :=
  match l with [] => [] | (k', v') :: r => if bytes_beq k k' then r else (k', v') :: adel k r end.

Record md := { md_real : list kv; md_keyed : list kv }.
Definition md_init : md := {| md_real := []; md_keyed := [] |}.

Definition other_key (lk : bytes) (e : kv) : bool := negb (bytes_beq (lower (fst e)) lk).

Inductive mop := MAdd (k v : bytes) | MSet (k v : bytes) | MDel (k : bytes).

(* returns the new state and whether KeyError was raised *)
Definition md_step (s : md) (o : mop) : md * bool :=
  match o with
  | MAdd k v => ({| md_real := md_real s ++ [(k, v)]; md_keyed := aset (lower k) v (md_keyed s) |}, false)
  | MSet k v => ({| md_real := filter (other_key (lower k)) (md_real s) ++ [(k, v)];
                    md_keyed := aset (lower k) v (md_keyed s) |}, false)
  | MDel k => match aget (lower k) (md_keyed s) with
              | None => (s, true)
              | Some _ => ({| md_real := filter (other_key (lower k)) (md_real s);
                              md_keyed := adel (lower k) (md_keyed s) |}, false)
              end
  end.

Definition md_run (ops : list mop) : md := fold_left (fun s o => fst (md_step s o)) ops md_init.

(* the specification reads only the ordered list of pairs *)
Fixpoint last_val (lk : bytes) (real : list kv) : option bytes :=
  match real with
  | [] => None
  | e :: r => match last_val lk r with
              | Some v => Some v
              | None => if bytes_beq (lower (fst e)) lk then Some (snd e) else None
              end
  end.
Definition all_vals (lk : bytes) (real : list kv) : list bytes :=
  map snd (filter (fun e => bytes_beq (lower (fst e)) lk) real).

(* observers as the class implements them *)
Definition md_getitem (s : md) (k : bytes) : option bytes := aget (lower k) (md_keyed s).
Definition md_get_all (s : md) (k : bytes) : list bytes := all_vals (lower k) (md_real s).
Definition md_len (s : md) : Z := zlen (md_keyed s).
