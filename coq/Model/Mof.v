(* Model/Mof.v — dulwich/object_store.py: what a sender selects for a transfer.
   _split_commits_and_tags, get_reachable_commits (all ancestors of the haves),
   _collect_ancestors (commits between wants and haves, and the boundary),
   MissingObjectFinder.__init__ (remote_has) and __next__ (the walk that skips
   what the remote has).  Objects are numbers.  Definitions only. *)
From DV Require Export Gc.

Inductive kind := KCommit | KTag (target : nat) | KOther.

Section Mof.
  Variable kind_of : nat -> option kind.     (* None: not in the sender's store *)
  Variable parents : nat -> list nat.        (* of a commit *)
  Variable cdeps : nat -> list nat.          (* what an object's content names: commit -> [tree]; tree -> entries (gitlinks excluded); tag -> [target] *)

  (* _split_commits_and_tags (unknown ids dropped), following tag chains *)
  Fixpoint split1 (fuel : nat) (e : nat) : list nat * list nat * list nat :=
    match kind_of e with
    | None => ([], [], [])
    | Some KCommit => ([e], [], [])
    | Some KOther => ([], [], [e])
    | Some (KTag x) =>
      match fuel with
      | O => ([], [e], [])
      | S f => let '(c, t, o) := split1 f x in (c, e :: t, o)
      end
    end.
  Definition split (fuel : nat) (l : list nat) : list nat * list nat * list nat :=
    fold_right (fun e acc => let '(c, t, o) := split1 fuel e in let '(c', t', o') := acc in (c ++ c', t ++ t', o ++ o')) ([], [], []) l.

  (* _collect_ancestors: breadth first from the heads, stopping at [common] *)
  Fixpoint collect (fuel : nat) (queue commits bases : list nat) (common : list nat) : option (list nat * list nat) :=
    match queue with
    | [] => Some (commits, bases)
    | e :: q =>
      match fuel with
      | O => None
      | S f =>
        if mem e common then collect f q commits (e :: bases) common
        else if mem e commits then collect f q commits bases common
        else collect f (q ++ parents e) (e :: commits) bases common
      end
    end.

  (* MissingObjectFinder.__next__: pop, skip what is done, expand through the content *)
  Fixpoint send (fuel : nat) (todo done sent : list nat) : option (list nat) :=
    match todo with
    | [] => Some sent
    | x :: rest =>
      match fuel with
      | O => None
      | S f =>
        if mem x done then send f rest done sent
        else send f (filter (fun d => negb (mem d done)) (cdeps x) ++ rest) (x :: done) (x :: sent)
      end
    end.

  Definition tree_of (c : nat) : list nat := cdeps c.

  (* the whole selection *)
  Definition select (fuel : nat) (haves wants : list nat) : option (list nat) :=
    let '(hc, ht, ho) := split fuel haves in
    let '(wc, wt, wo) := split fuel wants in
    match find_reachable parents fuel hc with
    | None => None
    | Some ancestors =>
      match collect fuel wc [] [] ancestors with
      | None => None
      | Some (missing, common) =>
        (* _collect_filetree_revs adds what the root tree of each boundary commit contains, not the root tree itself *)
        match find_reachable cdeps fuel (flat_map cdeps (flat_map tree_of common)) with
        | None => None
        | Some trees =>
          let remote_has := common ++ trees ++ ht in
          let roots := missing ++ filter (fun t => negb (mem t ht)) wt ++ filter (fun o => negb (mem o ho)) wo in
          send fuel roots remote_has []
        end
      end
    end.
End Mof.
