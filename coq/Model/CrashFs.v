(* Model/CrashFs.v — what a re-opened repository sees (object containers: loose
   files and complete pack+index pairs; loose and packed refs) and the
   repository-changing operations as lists of the steps that change it, in the
   order dulwich performs them.  Steps that a re-opened repository cannot see
   (temporary files, lock files, fsync) are not steps here: the correspondence
   check verifies on every run that the sequence of distinct visible states of
   the real operation is the model's.  A crash leaves the state after some
   prefix of the steps.  Definitions only. *)
From Coq Require Export List Arith Bool Lia.
Export ListNotations.

Definition obj := nat.
Definition refname := nat.
Definition cid := nat.                    (* a loose object file or a pack *)

Record fs := {
  conts : list (cid * list obj);
  loose : list (refname * obj);
  packed : list (refname * obj)
}.

Fixpoint lookup (r : nat) (m : list (nat * obj)) : option obj :=
  match m with [] => None | (k, v) :: t => if Nat.eqb k r then Some v else lookup r t end.
Definition remove_key {A} (r : nat) (m : list (nat * A)) : list (nat * A) :=
  filter (fun kv => negb (Nat.eqb (fst kv) r)) m.
Definition set_key (r : nat) (v : obj) (m : list (nat * obj)) := (r, v) :: remove_key r m.

Definition resolve (s : fs) (r : refname) : option obj :=
  match lookup r (loose s) with Some v => Some v | None => lookup r (packed s) end.

Definition has (s : fs) (o : obj) : bool := existsb (fun c => existsb (Nat.eqb o) (snd c)) (conts s).

Inductive step :=
| SAddC (c : cid) (os : list obj)   (* a loose object renamed into place / a pack whose index has just appeared *)
| SDelC (c : cid)                   (* a loose file / a pack removed *)
| SSetLoose (r : refname) (v : obj)
| SDelLoose (r : refname)
| SSetPacked (rs : list (refname * obj))   (* packed-refs rewritten with these entries set (one rename) *)
| SDelPacked (r : refname).

Definition apply (s : fs) (st : step) : fs :=
  match st with
  | SAddC c os => {| conts := (c, os) :: conts s; loose := loose s; packed := packed s |}
  | SDelC c => {| conts := remove_key c (conts s); loose := loose s; packed := packed s |}
  | SSetLoose r v => {| conts := conts s; loose := set_key r v (loose s); packed := packed s |}
  | SDelLoose r => {| conts := conts s; loose := remove_key r (loose s); packed := packed s |}
  | SSetPacked rs => {| conts := conts s; loose := loose s;
                        packed := fold_right (fun kv m => set_key (fst kv) (snd kv) m) (packed s) rs |}
  | SDelPacked r => {| conts := conts s; loose := loose s; packed := remove_key r (packed s) |}
  end.
Definition run (s : fs) (p : list step) : fs := fold_left apply p s.

(* ---------- the operations ---------- *)
(* add containers one by one, then move the ref: commit, receive-pack, fetch *)
Definition p_update (news : list (cid * list obj)) (r : refname) (v : obj) : list step :=
  map (fun c => SAddC (fst c) (snd c)) news ++ [SSetLoose r v].
(* remove_if_equals: the packed entry first, then the loose file *)
Definition p_delete (r : refname) : list step := [SDelPacked r; SDelLoose r].
(* pack_refs over the refs and values read: packed-refs first, then the loose files *)
Definition p_pack_refs (rs : list (refname * obj)) : list step :=
  SSetPacked rs :: map (fun kv => SDelLoose (fst kv)) rs.
(* repack / pack_loose_objects: the new pack first, then the containers it replaces *)
Definition p_repack (c : cid) (keep : list obj) (old : list cid) : list step :=
  SAddC c keep :: map SDelC old.

(* ---------- consistency ---------- *)
Section Deps.
  Variable deps : obj -> list obj.        (* direct references of an object *)
  Definition closed (s : fs) : Prop := forall o, has s o = true -> forall d, In d (deps o) -> has s d = true.
  Definition refs_valid (s : fs) : Prop := forall r v, resolve s r = Some v -> has s v = true.
  Definition consistent (s : fs) : Prop := closed s /\ refs_valid s.
  (* objects arrive after what they refer to *)
  Fixpoint ordered (s : fs) (news : list (cid * list obj)) : Prop :=
    match news with
    | [] => True
    | c :: r => let s' := apply s (SAddC (fst c) (snd c)) in
                (forall o, In o (snd c) -> forall d, In d (deps o) -> has s' d = true) /\ ordered s' r
    end.
End Deps.
