(* Proofs/PackIdxP.v *)
From DV Require Import Bytes Delta DeltaP Index IndexP RustTwins PackIdx.
Local Open Scope Z_scope.

(* ---------- entry header ---------- *)
Lemma obj_header_roundtrip_lemma t size r :
  1 <= t <= 7 -> 0 <= size -> dec_obj_header (obj_header t size ++ r) = Some (t, size, r).
Proof.
  intros Ht Hs. unfold obj_header, dec_obj_header.
  destruct (size / 16 =? 0) eqn:E; cbn [app].
  - replace (t * 16 + size mod 16 <? 128) with true by lia. f_equal. f_equal. f_equal; lia.
  - replace (t * 16 + size mod 16 + 128 <? 128) with false by lia.
    rewrite hdr_py_enc_size by lia. f_equal. f_equal. f_equal; lia.
Qed.

Lemma ofs_roundtrip_lemma n r : 0 < n -> dec_ofs (gv_enc n ++ r) = Some (Some n, r).
Proof.
  intros Hn. unfold dec_ofs. rewrite gv_roundtrip_lemma by lia. replace (n =? 0) with false by lia. reflexivity.
Qed.

(* ---------- offsets tables ---------- *)
Lemma enc_offsets_spec : forall offs large,
  Forall (fun o => 0 <= o) offs -> zlen large < 2147483648 - zlen offs ->
  let '(t, l) := enc_offsets offs large in
  zlen t = zlen offs /\ (exists ext, l = large ++ ext) /\
  forall i, 0 <= i < zlen offs -> dec_offset t l i = nth (Z.to_nat i) offs 0.
Proof.
  induction offs as [|o offs IH]; intros large Hall Hl.
  - cbn. repeat split; [exists []; rewrite app_nil_r; reflexivity|]. intros i Hi. change (zlen (@nil Z)) with 0 in Hi. lia.
  - inversion Hall as [|? ? Ho Hall']; subst. rewrite zlen_cons in Hl. pose proof (zlen_nonneg offs) as Hn.
    pose proof (zlen_nonneg large) as Hlg. cbn [enc_offsets]. destruct (o <? 2147483648) eqn:E.
    + specialize (IH large Hall' ltac:(lia)). destruct (enc_offsets offs large) as [t l].
      destruct IH as (I1 & (ext & I2) & I3). rewrite !zlen_cons. split; [lia|]. split; [exists ext; exact I2|].
      intros i Hi. destruct (Z.eq_dec i 0) as [->|Hnz].
      * unfold dec_offset. cbn. replace (2147483648 <=? o) with false by lia. reflexivity.
      * unfold dec_offset in *. replace (Z.to_nat i) with (S (Z.to_nat (i - 1))) by lia. cbn [nth].
        apply (I3 (i - 1)). lia.
    + specialize (IH (large ++ [o]) Hall' ltac:(rewrite zlen_app; change (zlen [o]) with 1; lia)).
      destruct (enc_offsets offs (large ++ [o])) as [t l]. destruct IH as (I1 & (ext & I2) & I3).
      rewrite !zlen_cons. split; [lia|]. split; [exists ([o] ++ ext); rewrite I2, <- app_assoc; reflexivity|].
      intros i Hi. destruct (Z.eq_dec i 0) as [->|Hnz].
      * unfold dec_offset. cbn [nth Z.to_nat]. change (Z.to_nat 0) with 0%nat. cbn [nth].
        replace (2147483648 <=? 2147483648 + zlen large) with true by lia.
        replace (2147483648 + zlen large - 2147483648) with (zlen large) by lia.
        rewrite I2. unfold zlen. rewrite Nat2Z.id. rewrite <- app_assoc. rewrite app_nth2 by lia. rewrite Nat.sub_diag. reflexivity.
      * unfold dec_offset in *. replace (Z.to_nat i) with (S (Z.to_nat (i - 1))) by lia. cbn [nth].
        apply (I3 (i - 1)). lia.
Qed.

(* ---------- byte-string order ---------- *)
Lemma bytes_cmp_refl a : bytes_cmp a a = OEq.
Proof. induction a as [|x a IH]; [reflexivity|]. cbn [bytes_cmp]. unfold zcmp. replace (x <? x) with false by lia. exact IH. Qed.

Lemma bytes_cmp_eq : forall a b, bytes_cmp a b = OEq -> a = b.
Proof.
  induction a as [|x a IH]; intros [|y b] H; cbn [bytes_cmp] in H; try discriminate; [reflexivity|].
  unfold zcmp in H. destruct (x <? y) eqn:E1; [discriminate|]. destruct (y <? x) eqn:E2; [discriminate|].
  assert (x = y) by lia. subst. f_equal. apply IH. exact H.
Qed.

Lemma bytes_cmp_flip : forall a b, bytes_cmp a b = OLt -> bytes_cmp b a = OGt.
Proof.
  induction a as [|x a IH]; intros [|y b] H; cbn [bytes_cmp] in *; try discriminate; [reflexivity|].
  unfold zcmp in *. destruct (x <? y) eqn:E1.
  - replace (y <? x) with false by lia. reflexivity.
  - destruct (y <? x) eqn:E2; [discriminate|]. apply IH. exact H.
Qed.

Lemma bytes_cmp_first a b : a <> [] -> Forall (fun c => 0 <= c) a -> Forall (fun c => 0 <= c) b ->
  bytes_cmp a b = OLt -> first_byte a <= first_byte b.
Proof.
  intros Ha Hpa Hpb H. destruct a as [|x a]; [contradiction|]. destruct b as [|y b]; [discriminate|].
  cbn [bytes_cmp first_byte] in *. unfold zcmp in H. destruct (x <? y) eqn:E1; [lia|]. destruct (y <? x) eqn:E2; [discriminate|]. lia.
Qed.

(* ---------- bisection ---------- *)
Section Bisect.
Variable names : list bytes.
Let name := name_at names.
Hypothesis sorted : forall i j, 0 <= i -> i < j -> j < zlen names -> bytes_cmp (name i) (name j) = OLt.

Lemma bisect_sound sha : forall fuel lo hi i,
  py_bisect fuel name sha lo hi = BFound i -> lo <= i <= hi /\ name i = sha.
Proof.
  induction fuel as [|f IH]; intros lo hi i H; cbn [py_bisect] in H; [discriminate|].
  destruct (lo >? hi) eqn:E; [discriminate|].
  destruct (bytes_cmp (name ((lo + hi) / 2)) sha) eqn:Ec.
  - apply IH in H. destruct H as [H1 H2]. split; [lia|exact H2].
  - inversion H; subst. split; [lia|]. apply bytes_cmp_eq. exact Ec.
  - apply IH in H. destruct H as [H1 H2]. split; [lia|exact H2].
Qed.

Lemma bisect_complete sha : forall fuel lo hi k,
  0 <= lo -> lo <= k <= hi -> hi < zlen names -> name k = sha -> hi - lo < Z.of_nat fuel ->
  py_bisect fuel name sha lo hi = BFound k.
Proof.
  induction fuel as [|f IH]; intros lo hi k Hlo Hk Hhi Hn Hf; [lia|].
  cbn [py_bisect]. replace (lo >? hi) with false by lia.
  set (i := (lo + hi) / 2). assert (Hi : lo <= i <= hi) by (unfold i; lia).
  destruct (Z.lt_trichotomy i k) as [Hlt|[Heq|Hgt]].
  - assert (Ec : bytes_cmp (name i) sha = OLt) by (rewrite <- Hn; apply sorted; lia). rewrite Ec. apply IH; [lia|lia|lia|exact Hn|lia].
  - subst k. rewrite Hn. rewrite bytes_cmp_refl. reflexivity.
  - assert (Ec : bytes_cmp (name i) sha = OGt) by (rewrite <- Hn; apply bytes_cmp_flip; apply sorted; lia).
    rewrite Ec. apply IH; [lia|lia|lia|exact Hn|lia].
Qed.
End Bisect.

(* ---------- fan-out ---------- *)
Lemma fan_cons x r v : fan (x :: r) v = (if first_byte x <=? v then 1 else 0) + fan r v.
Proof. unfold fan. cbn [filter]. destruct (first_byte x <=? v); [rewrite zlen_cons; lia|lia]. Qed.

Lemma fan_bounds names v : 0 <= fan names v <= zlen names.
Proof.
  induction names as [|x r IH]; [unfold fan; cbn; lia|]. rewrite fan_cons, zlen_cons. destruct (first_byte x <=? v); lia.
Qed.

Lemma fan_all_greater r v : Forall (fun n => v < first_byte n) r -> fan r v = 0.
Proof.
  induction 1 as [|x r Hx _ IH]; [reflexivity|]. rewrite fan_cons, IH. replace (first_byte x <=? v) with false by lia. reflexivity.
Qed.

(* first bytes are non-decreasing *)
Inductive nondec : list bytes -> Prop :=
| nd_nil : nondec []
| nd_cons x r : Forall (fun n => first_byte x <= first_byte n) r -> nondec r -> nondec (x :: r).

Lemma fan_index : forall names v k, nondec names -> 0 <= k < zlen names ->
  (k < fan names v <-> first_byte (name_at names k) <= v).
Proof.
  induction names as [|x r IH]; intros v k Hnd Hk; [change (zlen (@nil bytes)) with 0 in Hk; lia|].
  inversion Hnd as [|? ? Hall Hr]; subst. rewrite fan_cons. rewrite zlen_cons in Hk.
  destruct (Z.eq_dec k 0) as [->|Hnz].
  - change (name_at (x :: r) 0) with x. pose proof (fan_bounds r v). destruct (first_byte x <=? v) eqn:E; [lia|].
    rewrite fan_all_greater; [lia|]. eapply Forall_impl; [|exact Hall]. cbn. intros. lia.
  - assert (Hn : name_at (x :: r) k = name_at r (k - 1)).
    { unfold name_at. replace (Z.to_nat k) with (S (Z.to_nat (k - 1))) by lia. reflexivity. }
    rewrite Hn. specialize (IH v (k - 1) Hr ltac:(lia)).
    destruct (first_byte x <=? v) eqn:E; [lia|].
    rewrite fan_all_greater; [|eapply Forall_impl; [|exact Hall]; cbn; intros; lia].
    assert (In (name_at r (k - 1)) r) by (unfold name_at; apply nth_In; unfold zlen in *; lia).
    rewrite Forall_forall in Hall. specialize (Hall _ H). lia.
Qed.

(* ---------- the index lookup is exact ---------- *)
Definition wf_names (names : list bytes) : Prop := Forall (fun n => n <> [] /\ Forall (fun c => 0 <= c) n) names.
Definition sorted_names (names : list bytes) : Prop :=
  forall i j, 0 <= i -> i < j -> j < zlen names -> bytes_cmp (name_at names i) (name_at names j) = OLt.

Lemma name_at_cons x r k : 0 < k -> name_at (x :: r) k = name_at r (k - 1).
Proof. intros H. unfold name_at. replace (Z.to_nat k) with (S (Z.to_nat (k - 1))) by lia. reflexivity. Qed.

Lemma sorted_tail x r : sorted_names (x :: r) -> sorted_names r.
Proof.
  intros H i j Hi Hij Hj. specialize (H (i + 1) (j + 1) ltac:(lia) ltac:(lia) ltac:(rewrite zlen_cons; lia)).
  rewrite !name_at_cons in H by lia. replace (i + 1 - 1) with i in H by lia. replace (j + 1 - 1) with j in H by lia. exact H.
Qed.

Lemma sorted_nondec : forall names, wf_names names -> sorted_names names -> nondec names.
Proof.
  induction names as [|x r IH]; intros Hw Hs; [constructor|].
  inversion Hw as [|? ? [Hx1 Hx2] Hw']; subst. constructor; [|apply IH; [exact Hw'|eapply sorted_tail; eauto]].
  rewrite Forall_forall. intros n Hn. apply In_nth with (d := []) in Hn. destruct Hn as (j & Hj & <-).
  specialize (Hs 0 (Z.of_nat j + 1) ltac:(lia) ltac:(lia) ltac:(rewrite zlen_cons; unfold zlen; lia)).
  rewrite (name_at_cons x r (Z.of_nat j + 1)) in Hs by lia. change (name_at (x :: r) 0) with x in Hs.
  replace (Z.of_nat j + 1 - 1) with (Z.of_nat j) in Hs by lia. unfold name_at in Hs. rewrite Nat2Z.id in Hs.
  apply bytes_cmp_first; try assumption.
  rewrite Forall_forall in Hw'. apply (Hw' (nth j r [])). apply nth_In. exact Hj.
Qed.

Lemma idx_lookup_exact_lemma names sha :
  wf_names names -> sorted_names names ->
  forall i, idx_lookup names sha = Some i <-> 0 <= i < zlen names /\ name_at names i = sha.
Proof.
  intros Hw Hs i. pose proof (sorted_nondec names Hw Hs) as Hnd. unfold idx_lookup.
  set (b := first_byte sha). set (start := if b =? 0 then 0 else fan names (b - 1)). set (end_ := fan names b).
  assert (Hst : 0 <= start) by (unfold start; destruct (b =? 0); [lia|apply fan_bounds]).
  assert (Hen : end_ <= zlen names) by apply fan_bounds.
  split.
  - destruct (start >=? end_) eqn:E; [discriminate|].
    destruct (py_bisect (S (length names)) (name_at names) sha start (end_ - 1)) eqn:Eb; try discriminate.
    intros H. inversion H; subst. apply bisect_sound in Eb; [|exact Hs]. destruct Eb as [Hr Hn]. split; [lia|exact Hn].
  - intros [Hi Hn].
    assert (Hb : first_byte (name_at names i) = b) by (rewrite Hn; reflexivity).
    assert (Hlt : i < end_) by (apply (fan_index names b i Hnd Hi); lia).
    assert (Hge : start <= i).
    { unfold start. destruct (b =? 0) eqn:E0; [lia|].
      destruct (Z_lt_le_dec i (fan names (b - 1))) as [Hc|Hc]; [|exact Hc].
      apply (fan_index names (b - 1) i Hnd Hi) in Hc. lia. }
    replace (start >=? end_) with false by lia.
    rewrite (bisect_complete names Hs sha (S (length names)) start (end_ - 1) i); [reflexivity|lia|lia|lia|exact Hn|].
    unfold zlen in *. lia.
Qed.

Lemma absent_not_found_lemma names sha :
  wf_names names -> sorted_names names -> ~ In sha names -> idx_lookup names sha = None.
Proof.
  intros Hw Hs Hnot. destruct (idx_lookup names sha) as [i|] eqn:E; [|reflexivity].
  apply (idx_lookup_exact_lemma names sha Hw Hs) in E. destruct E as [Hi Hn]. exfalso. apply Hnot.
  rewrite <- Hn. unfold name_at. apply nth_In. unfold zlen in Hi. lia.
Qed.

Example ex_idx :
  let names := [[1;5]; [1;9]; [7;0]; [255;1]; [255;254]] in
  map (idx_lookup names) [[1;9]; [255;254]; [255;255]; [0;0]; [7;0]; [8;8]] = [Some 1; Some 4; None; None; Some 2; None].
Proof. vm_compute. reflexivity. Qed.
