(* Proofs/DeltaP.v — lemmas about Model/Delta.v *)
From DV Require Import Bytes Delta.

Local Open Scope Z_scope.

(* ---------- size varint ---------- *)

Lemma pow128 k : 0 <= k -> 2 ^ (7 * k) = 128 ^ k.
Proof. intros; rewrite Z.pow_mul_r by lia; reflexivity. Qed.

Lemma hdr_py_enc_f : forall fuel n r shift acc,
  0 <= n < 128 ^ (Z.of_nat fuel + 1) -> 0 <= shift ->
  hdr_py (enc_size_f fuel n ++ r) shift acc = Some (acc + n * 2 ^ shift, r).
Proof.
  induction fuel as [|f IH]; intros n r shift acc Hn Hs.
  - cbn [enc_size_f app hdr_py]. change (Z.of_nat 0 + 1) with 1 in Hn. rewrite Z.pow_1_r in Hn.
    assert (n mod 128 = n) as -> by lia.
    assert (n mod 128 = n) as -> by lia.
    destruct (n <? 128) eqn:E; [reflexivity|lia].
  - cbn [enc_size_f].
    destruct (n / 128 =? 0) eqn:E.
    + cbn [app hdr_py].
      assert (n mod 128 = n) as -> by lia.
      assert (n mod 128 = n) as -> by lia.
      destruct (n <? 128) eqn:E2; [reflexivity|lia].
    + cbn [app hdr_py].
      assert ((n mod 128 + 128) mod 128 = n mod 128) as -> by lia.
      destruct (n mod 128 + 128 <? 128) eqn:E2; [lia|].
      rewrite IH.
      * f_equal. f_equal.
        rewrite Z.pow_add_r by lia. change (2 ^ 7) with 128.
        assert (n = 128 * (n / 128) + n mod 128) as Hd by lia.
        generalize dependent (n / 128). generalize dependent (n mod 128). generalize (2 ^ shift).
        intros; subst n; ring.
      * replace (Z.of_nat (S f) + 1) with (Z.of_nat f + 1 + 1) in Hn by lia.
        rewrite Z.pow_add_r in Hn by lia. change (128 ^ 1) with 128 in Hn. lia.
      * lia.
Qed.

Lemma log2_fuel_ok n : 0 <= n -> n < 128 ^ (Z.of_nat (Z.to_nat (Z.log2 n)) + 1).
Proof.
  intros Hn. rewrite Z2Nat.id by apply Z.log2_nonneg.
  destruct (Z.eq_dec n 0) as [->|Hz]; [reflexivity|].
  assert (n < 2 ^ (Z.log2 n + 1)) by (apply Z.log2_spec; lia).
  assert (2 ^ (Z.log2 n + 1) <= 128 ^ (Z.log2 n + 1)).
  { apply Z.pow_le_mono_l. pose proof (Z.log2_nonneg n). lia. }
  lia.
Qed.

Lemma hdr_py_enc_size n r : 0 <= n -> hdr_py (enc_size n ++ r) 0 0 = Some (n, r).
Proof.
  intros Hn. unfold enc_size. rewrite hdr_py_enc_f; [|split; [lia|apply log2_fuel_ok; lia]|lia].
  f_equal. f_equal. change (2 ^ 0) with 1. lia.
Qed.

(* ---------- copy opcode ---------- *)

Ltac eval_bits :=
  repeat match goal with
  | |- context [bit ?x ?i] => let v := eval vm_compute in (bit x i) in change (bit x i) with v
  end.

Lemma parse_copy_enc_copy start len r :
  0 <= start < 2 ^ 32 -> 0 < len <= 65535 ->
  exists cmd tl, enc_copy start len = cmd :: tl /\ 128 <= cmd < 256 /\
                 parse_copy cmd (tl ++ r) = Some (start, len, r).
Proof.
  intros Hs Hl. unfold enc_copy.
  remember (start mod 256) as o0 eqn:H0.
  remember ((start / 256) mod 256) as o1 eqn:H1.
  remember ((start / 65536) mod 256) as o2 eqn:H2.
  remember ((start / 16777216) mod 256) as o3 eqn:H3.
  remember (len mod 256) as l0 eqn:H4.
  remember ((len / 256) mod 256) as l1 eqn:H5.
  assert (Hstart : start = o0 + o1 * 256 + o2 * 65536 + o3 * 16777216) by lia.
  assert (Hlen : len = l0 + l1 * 256) by lia.
  assert (Hr : 0 <= o0 < 256 /\ 0 <= o1 < 256 /\ 0 <= o2 < 256 /\ 0 <= o3 < 256 /\ 0 <= l0 < 256 /\ 0 <= l1 < 256) by lia.
  clear H0 H1 H2 H3 H4 H5 Hs Hl.
  do 2 eexists. split; [reflexivity|].
  unfold nz, optb.
  destruct (o0 =? 0) eqn:E0; destruct (o1 =? 0) eqn:E1; destruct (o2 =? 0) eqn:E2;
  destruct (o3 =? 0) eqn:E3; destruct (l0 =? 0) eqn:E4; destruct (l1 =? 0) eqn:E5.
  all: split; [lia|]; cbn [app]; unfold parse_copy, rd, obind; eval_bits; cbn iota beta.
  all: assert (A : forall a b a' b' : Z, a = a' -> b = b' -> Some (a, b, r) = Some (a', b', r))
         by (intros; subst; reflexivity); apply A; lia.
Qed.

(* ---------- fuel is irrelevant once it exceeds the remaining delta ---------- *)

Lemma rd_length flag d x r : rd flag d = Some (x, r) -> (length r <= length d)%nat.
Proof.
  unfold rd; destruct flag; [destruct d as [|y d']|]; intros H; inversion H; subst; cbn [length]; lia.
Qed.

Lemma parse_copy_length cmd d o s r : parse_copy cmd d = Some (o, s, r) -> (length r <= length d)%nat.
Proof.
  unfold parse_copy, obind. intros H.
  repeat match type of H with
  | match rd ?f ?d with _ => _ end = _ =>
      let E := fresh "E" in destruct (rd f d) as [[? ?]|] eqn:E; [apply rd_length in E|discriminate]
  end.
  inversion H; subst. lia.
Qed.

Lemma skipn_length_le {A} n (l : list A) : (length (skipn n l) <= length l)%nat.
Proof. rewrite skipn_length; lia. Qed.

Lemma run_py_fuel_mono : forall f1 f2 src ss ds d chunks ol,
  (length d < f1)%nat -> (f1 <= f2)%nat ->
  run_py f1 src ss ds d chunks ol = run_py f2 src ss ds d chunks ol.
Proof.
  induction f1 as [|f1 IH]; intros f2 src ss ds d chunks ol H1 H2; [lia|].
  destruct f2 as [|f2]; [lia|].
  cbn [run_py]. destruct d as [|cmd r]; [reflexivity|].
  cbn [length] in H1.
  destruct (128 <=? cmd).
  - destruct (parse_copy cmd r) as [[[off sz0] r']|] eqn:E; [|reflexivity].
    apply parse_copy_length in E.
    destruct ((off + (if sz0 =? 0 then 65536 else sz0) >? ss) || ((if sz0 =? 0 then 65536 else sz0) >? ds));
      [reflexivity|]. destruct (_ >? ds - ol); [reflexivity|]. apply IH; lia.
  - destruct (cmd =? 0); [reflexivity|]. destruct (zlen r <? cmd); [reflexivity|].
    destruct (cmd >? ds - ol); [reflexivity|].
    apply IH; [|lia]. unfold zskipn. pose proof (skipn_length_le (Z.to_nat cmd) r). lia.
Qed.

Lemma run_py_S f src ss ds d chunks ol :
  run_py (S f) src ss ds d chunks ol =
    match d with
    | [] => finish ds chunks
    | cmd :: r =>
      if 128 <=? cmd then
        match parse_copy cmd r with
        | None => DErr
        | Some (off, sz0, r') =>
          let sz := if sz0 =? 0 then 65536 else sz0 in
          if (off + sz >? ss) || (sz >? ds)
          then match r' with [] => finish ds chunks | _ => DErr end
          else if sz >? ds - ol then DErr
          else run_py f src ss ds r' (slice src off sz :: chunks) (ol + sz)
        end
      else if cmd =? 0 then DErr
      else if zlen r <? cmd then DErr
      else if cmd >? ds - ol then DErr
      else run_py f src ss ds (zskipn cmd r) (zfirstn cmd r :: chunks) (ol + cmd)
    end.
Proof. reflexivity. Qed.

Definition runP src ss ds d chunks ol := run_py (S (length d)) src ss ds d chunks ol.

Lemma runP_nil src ss ds chunks ol : runP src ss ds [] chunks ol = finish ds chunks.
Proof. reflexivity. Qed.

Lemma runP_copy src ss ds cmd r off sz0 r' chunks ol :
  128 <= cmd -> parse_copy cmd r = Some (off, sz0, r') ->
  let sz := if sz0 =? 0 then 65536 else sz0 in
  off + sz <= ss -> sz <= ds - ol -> 0 <= ol ->
  runP src ss ds (cmd :: r) chunks ol = runP src ss ds r' (slice src off sz :: chunks) (ol + sz).
Proof.
  intros Hc Hp sz H1 H2 H3. unfold runP. rewrite run_py_S at 1.
  destruct (128 <=? cmd) eqn:E; [|lia]. rewrite Hp. cbv zeta. fold sz.
  destruct ((off + sz >? ss) || (sz >? ds)) eqn:E2; [lia|].
  destruct (sz >? ds - ol) eqn:E3; [lia|].
  apply parse_copy_length in Hp. cbn [length].
  symmetry; apply run_py_fuel_mono; lia.
Qed.

Lemma runP_insert src ss ds cmd r chunks ol :
  0 < cmd < 128 -> cmd <= zlen r -> cmd <= ds - ol ->
  runP src ss ds (cmd :: r) chunks ol = runP src ss ds (zskipn cmd r) (zfirstn cmd r :: chunks) (ol + cmd).
Proof.
  intros Hc Hl Hd. unfold runP. rewrite run_py_S at 1.
  destruct (128 <=? cmd) eqn:E; [lia|]. destruct (cmd =? 0) eqn:E0; [lia|].
  destruct (zlen r <? cmd) eqn:E1; [lia|]. destruct (cmd >? ds - ol) eqn:E2; [lia|].
  cbn [length]. unfold zskipn; pose proof (skipn_length_le (Z.to_nat cmd) r).
  symmetry; apply run_py_fuel_mono; lia.
Qed.

(* ---------- encoder pieces run through the decoder ---------- *)

Definition outc (chunks : list bytes) : bytes := concat (rev chunks).

Lemma outc_cons c chunks : outc (c :: chunks) = outc chunks ++ c.
Proof. unfold outc; cbn [rev]. rewrite concat_app. cbn [concat]. rewrite app_nil_r. reflexivity. Qed.

Lemma run_copies src ss ds : forall fuel start len r chunks ol,
  ss < 2 ^ 32 -> 0 <= start -> 0 <= len -> start + len <= ss -> 0 <= ol -> len <= ds - ol ->
  len <= 65535 * Z.of_nat fuel ->
  exists chunks', runP src ss ds (enc_copies fuel start len ++ r) chunks ol = runP src ss ds r chunks' (ol + len)
                  /\ outc chunks' = outc chunks ++ slice src start len.
Proof.
  induction fuel as [|f IH]; intros start len r chunks ol Hss Hs Hl Hb Hol Hd Hf.
  - assert (len = 0) by lia. subst len. exists chunks. cbn [enc_copies app]. rewrite slice_zero, app_nil_r, Z.add_0_r. auto.
  - cbn [enc_copies]. destruct (len <=? 0) eqn:E.
    + assert (len = 0) by lia. subst len. exists chunks. cbn [app]. rewrite slice_zero, app_nil_r, Z.add_0_r. auto.
    + set (c := Z.min len 65535).
      assert (Hc : 0 < c <= 65535) by lia.
      destruct (parse_copy_enc_copy start c (enc_copies f (start + c) (len - c) ++ r)) as (cmd & tl & He & Hcmd & Hp); [lia|lia|].
      rewrite He. cbn [app]. rewrite <- app_assoc.
      pose proof (runP_copy src ss ds cmd _ start c _ chunks ol ltac:(lia) Hp) as HR. cbv zeta in HR.
      destruct (c =? 0) eqn:Ec; [lia|].
      rewrite HR by lia. clear HR.
      destruct (IH (start + c) (len - c) r (slice src start c :: chunks) (ol + c)) as (chunks' & H1 & H2); try lia.
      exists chunks'. split; [rewrite H1; f_equal; lia|].
      rewrite H2, outc_cons, <- app_assoc. f_equal.
      rewrite <- slice_split by lia. f_equal. lia.
Qed.

Lemma copies_fuel_ok len : 0 <= len -> len <= 65535 * Z.of_nat (copies_fuel len).
Proof. intros; unfold copies_fuel. rewrite Nat2Z.inj_succ, Z2Nat.id by lia. lia. Qed.

Lemma run_inserts src ss ds : forall fuel data r chunks ol,
  0 < zlen data -> zlen data <= 127 * Z.of_nat fuel -> zlen data <= ds - ol ->
  exists chunks', runP src ss ds (enc_inserts fuel data ++ r) chunks ol = runP src ss ds r chunks' (ol + zlen data)
                  /\ outc chunks' = outc chunks ++ data.
Proof.
  induction fuel as [|f IH]; intros data r chunks ol H0 Hf Hd; [lia|].
  cbn [enc_inserts]. destruct (zlen data >? 127) eqn:E.
  - cbn [app]. rewrite <- app_assoc.
    pose proof (zlen_firstn 127 data ltac:(lia)) as Hl.
    rewrite runP_insert; [|lia|rewrite zlen_app; pose proof (zlen_nonneg (enc_inserts f (zskipn 127 data) ++ r)); lia|lia].
    rewrite zfirstn_app_exact, zskipn_app_exact by (symmetry; exact Hl).
    pose proof (zlen_skipn 127 data ltac:(lia)) as Hk.
    destruct (IH (zskipn 127 data) r (zfirstn 127 data :: chunks) (ol + 127)) as (chunks' & H1 & H2); try lia.
    exists chunks'. split; [rewrite H1; f_equal; lia|]. rewrite H2, outc_cons, <- app_assoc. f_equal. apply zfirstn_zskipn.
  - cbn [app]. rewrite runP_insert; [|lia|rewrite zlen_app; pose proof (zlen_nonneg r); lia|lia].
    rewrite zfirstn_app_exact, zskipn_app_exact by reflexivity.
    exists (data :: chunks). split; [reflexivity|apply outc_cons].
Qed.

Lemma inserts_fuel_ok (data : bytes) : zlen data <= 127 * Z.of_nat (inserts_fuel data).
Proof.
  unfold inserts_fuel. pose proof (zlen_nonneg data).
  rewrite Nat2Z.inj_succ, Z2Nat.id by lia. lia.
Qed.

(* ---------- apply (create ...) = target ---------- *)

Lemma bytes_eqb_eq : forall a b, bytes_eqb a b = true -> a = b.
Proof.
  induction a as [|x a IH]; intros [|y b] H; cbn in H; try discriminate; [reflexivity|].
  apply andb_prop in H. destruct H as [H1 H2]. apply Z.eqb_eq in H1. subst. f_equal. auto.
Qed.

Lemma zlen_concat_in (x : bytes) l : In x l -> zlen x <= zlen (concat l).
Proof.
  induction l as [|y l IH]; intros H; [destruct H|].
  cbn [concat]. rewrite zlen_app. destruct H as [->|H].
  - pose proof (zlen_nonneg (concat l)). lia.
  - pose proof (zlen_nonneg y). specialize (IH H). lia.
Qed.

Lemma run_ops base target ss ds : forall ops r chunks ol,
  ss = zlen base -> ss < 2 ^ 32 -> 0 <= ol ->
  Forall (fun o => op_okb base target o = true) ops ->
  ol + zlen (concat (map (piece base target) ops)) <= ds ->
  exists chunks', runP base ss ds (concat (map (enc_op target) ops) ++ r) chunks ol
                  = runP base ss ds r chunks' (ol + zlen (concat (map (piece base target) ops)))
                  /\ outc chunks' = outc chunks ++ concat (map (piece base target) ops).
Proof.
  induction ops as [|o ops IH]; intros r chunks ol Hss Hlt Hol Hall Hroom.
  - exists chunks. cbn. rewrite app_nil_r, Z.add_0_r. auto.
  - inversion Hall as [|? ? Hok Hall']; subst.
    cbn [map concat] in *. rewrite <- app_assoc. rewrite zlen_app in *.
    pose proof (zlen_nonneg (concat (map (piece base target) ops))) as Hrest.
    pose proof (zlen_nonneg (piece base target o)) as Hp0.
    assert (Hstep : exists c1, runP base (zlen base) ds (enc_op target o ++ concat (map (enc_op target) ops) ++ r) chunks ol
                               = runP base (zlen base) ds (concat (map (enc_op target) ops) ++ r) c1 (ol + zlen (piece base target o))
                               /\ outc c1 = outc chunks ++ piece base target o).
    { unfold enc_op, piece, op_okb in *. destruct (tg o).
      - assert (zlen (slice base (i1 o) (i2 o - i1 o)) = i2 o - i1 o) as Hz by (apply zlen_slice; lia).
        rewrite Hz in *. apply run_copies; try lia. apply copies_fuel_ok; lia.
      - assert (zlen (slice target (j1 o) (j2 o - j1 o)) = j2 o - j1 o) as Hz by (apply zlen_slice; lia).
        apply run_inserts; [lia|apply inserts_fuel_ok|lia].
      - assert (zlen (slice target (j1 o) (j2 o - j1 o)) = j2 o - j1 o) as Hz by (apply zlen_slice; lia).
        apply run_inserts; [lia|apply inserts_fuel_ok|lia].
      - exists chunks. cbn [app]. rewrite app_nil_r. change (zlen (@nil Z)) with 0. rewrite Z.add_0_r. auto. }
    destruct Hstep as (c1 & R1 & O1).
    destruct (IH r c1 (ol + zlen (piece base target o)) eq_refl Hlt ltac:(lia) Hall' ltac:(lia)) as (c2 & R2 & O2).
    exists c2. split; [rewrite R1, R2; f_equal; lia|]. rewrite O2, O1, app_assoc. reflexivity.
Qed.

Lemma apply_create_py_lemma base target ops :
  zlen base < 2 ^ 32 -> valid_opcodesb base target ops = true ->
  apply_py base (create_py base target ops) = DOk target.
Proof.
  intros Hb Hv. unfold valid_opcodesb in Hv. apply andb_prop in Hv. destruct Hv as [Hok Heq].
  apply bytes_eqb_eq in Heq. rewrite forallb_forall in Hok.
  unfold apply_py, create_py.
  rewrite hdr_py_enc_size by apply zlen_nonneg.
  rewrite hdr_py_enc_size by apply zlen_nonneg.
  rewrite Z.eqb_refl.
  change (run_py (S (length ?d)) ?a ?b ?c ?d ?e ?g) with (runP a b c d e g).
  rewrite <- (app_nil_r (concat (map (enc_op target) ops))).
  destruct (run_ops base target (zlen base) (zlen target) ops [] [] 0 eq_refl Hb ltac:(lia)) as (c & R & O).
  { rewrite Forall_forall. intros o Ho. apply Hok; exact Ho. }
  { rewrite Heq. lia. }
  rewrite R, runP_nil. unfold finish. fold (outc c). rewrite O, Heq. cbn [outc rev concat app].
  rewrite Z.eqb_refl. reflexivity.
Qed.

(* ---------- soundness of the Python decoder ---------- *)

Definition suffix (r d : bytes) : Prop := exists k, r = skipn k d.

Lemma suffix_refl d : suffix d d.
Proof. exists 0%nat; reflexivity. Qed.

Lemma suffix_skipn n r d : suffix r d -> suffix (skipn n r) d.
Proof. intros [k ->]. exists (k + n)%nat. symmetry; apply skipn_plus. Qed.

Lemma suffix_tail x r d : suffix (x :: r) d -> suffix r d.
Proof. intros H. apply (suffix_skipn 1) in H. exact H. Qed.

Lemma rd_suffix flag d x r delta : rd flag d = Some (x, r) -> suffix d delta -> suffix r delta.
Proof.
  unfold rd; destruct flag; [destruct d as [|y d']|]; intros H S; inversion H; subst; auto.
  eapply suffix_tail; eauto.
Qed.

Lemma parse_copy_suffix cmd d o s r delta :
  parse_copy cmd d = Some (o, s, r) -> suffix d delta -> suffix r delta.
Proof.
  unfold parse_copy, obind. intros H S.
  repeat match type of H with
  | match rd ?f ?d with _ => _ end = _ =>
      let E := fresh "E" in destruct (rd f d) as [[? ?]|] eqn:E; [apply rd_suffix with (delta := delta) in E; [|assumption]|discriminate]
  end.
  inversion H; subst. assumption.
Qed.

Lemma hdr_py_suffix : forall d shift acc n r delta,
  hdr_py d shift acc = Some (n, r) -> suffix d delta -> suffix r delta.
Proof.
  induction d as [|c d IH]; intros shift acc n r delta H S; cbn [hdr_py] in H; [discriminate|].
  destruct (c <? 128).
  - inversion H; subst. eapply suffix_tail; eauto.
  - eapply IH; eauto. eapply suffix_tail; eauto.
Qed.

Definition is_slice (c l : bytes) : Prop := exists a n, c = slice l a n.
Definition piece_ok (src delta c : bytes) : Prop := is_slice c src \/ is_slice c delta.
Definition Pieces (src delta out : bytes) : Prop :=
  exists chunks, out = concat chunks /\ Forall (piece_ok src delta) chunks.

Lemma firstn_suffix_is_slice n r delta : suffix r delta -> is_slice (zfirstn n r) delta.
Proof.
  intros [k ->]. exists (Z.of_nat k), (Z.max n 0). unfold slice, zfirstn.
  rewrite Nat2Z.id. f_equal. lia.
Qed.

Lemma run_py_sound src ss ds delta : forall f d chunks ol out,
  run_py f src ss ds d chunks ol = DOk out ->
  suffix d delta -> Forall (piece_ok src delta) chunks ->
  zlen out = ds /\ exists chunks', out = concat chunks' /\ Forall (piece_ok src delta) chunks'.
Proof.
  assert (Fin : forall chunks out, finish ds chunks = DOk out -> Forall (piece_ok src delta) chunks ->
            zlen out = ds /\ exists chunks', out = concat chunks' /\ Forall (piece_ok src delta) chunks').
  { unfold finish. intros chunks out H Hall. destruct (zlen (concat (rev chunks)) =? ds) eqn:E; [|discriminate].
    inversion H; subst. split; [lia|]. exists (rev chunks). split; [reflexivity|].
    rewrite Forall_forall in *. intros x Hx. apply Hall. apply in_rev. exact Hx. }
  induction f as [|f IH]; intros d chunks ol out H S Hall; [discriminate|].
  rewrite run_py_S in H. destruct d as [|cmd r]; [eapply Fin; eassumption|].
  destruct (128 <=? cmd).
  - destruct (parse_copy cmd r) as [[[off sz0] r']|] eqn:E; [|discriminate].
    cbv zeta in H.
    destruct ((off + (if sz0 =? 0 then 65536 else sz0) >? ss) || ((if sz0 =? 0 then 65536 else sz0) >? ds)).
    + destruct r'; [eapply Fin; eassumption|discriminate].
    + destruct (_ >? ds - ol); [discriminate|].
      eapply IH; [exact H| |].
      * eapply parse_copy_suffix; [exact E|]. eapply suffix_tail; eauto.
      * constructor; [|assumption]. left. eexists _, _. reflexivity.
  - destruct (cmd =? 0); [discriminate|]. destruct (zlen r <? cmd); [discriminate|].
    destruct (cmd >? ds - ol); [discriminate|].
    eapply IH; [exact H| |].
    + apply suffix_skipn. eapply suffix_tail; eauto.
    + constructor; [|assumption]. right. apply firstn_suffix_is_slice. eapply suffix_tail; eauto.
Qed.

Lemma apply_py_sound_lemma src delta out :
  apply_py src delta = DOk out ->
  declared_dest delta = Some (zlen out) /\ Pieces src delta out.
Proof.
  unfold apply_py, declared_dest, obind. intros H.
  destruct (hdr_py delta 0 0) as [[ss d1]|] eqn:E1; [|discriminate].
  destruct (hdr_py d1 0 0) as [[ds d2]|] eqn:E2; [|discriminate].
  destruct (ss =? zlen src); [|discriminate].
  pose proof (hdr_py_suffix _ _ _ _ _ delta E1 (suffix_refl delta)) as S1.
  pose proof (hdr_py_suffix _ _ _ _ _ delta E2 S1) as S2.
  destruct (run_py_sound src ss ds delta _ _ _ _ _ H S2 (Forall_nil _)) as [Hl Hp].
  split; [rewrite Hl; reflexivity|exact Hp].
Qed.

(* apply_py has no third outcome: the Python model cannot panic *)
Lemma run_py_no_panic : forall f src ss ds d chunks ol, run_py f src ss ds d chunks ol <> DPanic.
Proof.
  induction f as [|f IH]; intros; [discriminate|]. rewrite run_py_S.
  unfold finish. repeat (match goal with
  | |- context [match ?x with _ => _ end] => destruct x
  | |- context [if ?x then _ else _] => destruct x
  end; try discriminate; try apply IH).
Qed.

Lemma apply_py_total_lemma src delta : apply_py src delta = DErr \/ exists out, apply_py src delta = DOk out.
Proof.
  destruct (apply_py src delta) as [out| |] eqn:E; [right; eauto|left; reflexivity|].
  exfalso. unfold apply_py in E.
  repeat match type of E with
  | match ?x with _ => _ end = _ => destruct x; try discriminate
  | (if ?x then _ else _) = _ => destruct x; try discriminate
  end.
  eapply run_py_no_panic; eauto.
Qed.

(* ---------- Rust decoder: never panics, agrees with Python ---------- *)

Lemma pow2_pos k : 0 <= k -> 0 < 2 ^ k.
Proof. intros; apply Z.pow_pos_nonneg; lia. Qed.

Lemma shl_check v s : 0 <= v -> 0 <= s < 64 ->
  (v * 2 ^ s) mod 2 ^ 64 / 2 ^ s = v mod 2 ^ (64 - s).
Proof.
  intros Hv Hs. replace (2 ^ 64) with (2 ^ s * 2 ^ (64 - s)) by (rewrite <- Z.pow_add_r by lia; f_equal; lia).
  rewrite (Z.mul_comm v). rewrite Z.mul_mod_distr_l.
  - rewrite Z.mul_comm. apply Z.div_mul. pose proof (pow2_pos s); lia.
  - pose proof (pow2_pos (64 - s)); lia.
  - pose proof (pow2_pos s); lia.
Qed.

Lemma shl_fits v s : 0 <= v -> 0 <= s < 64 ->
  (v mod 2 ^ (64 - s) =? v) = (v * 2 ^ s <? 2 ^ 64).
Proof.
  intros Hv Hs. pose proof (pow2_pos (64 - s) ltac:(lia)) as Hq. pose proof (pow2_pos s ltac:(lia)) as Hp.
  assert (E : 2 ^ 64 = 2 ^ (64 - s) * 2 ^ s) by (rewrite <- Z.pow_add_r by lia; f_equal; lia).
  destruct (Z_lt_le_dec v (2 ^ (64 - s))) as [Hlt|Hge].
  - rewrite Z.mod_small by lia. rewrite Z.eqb_refl. symmetry. apply Z.ltb_lt. rewrite E.
    apply Z.mul_lt_mono_pos_r; lia.
  - assert (v mod 2 ^ (64 - s) < 2 ^ (64 - s)) by (apply Z.mod_pos_bound; lia).
    replace (v mod 2 ^ (64 - s) =? v) with false by (symmetry; apply Z.eqb_neq; lia).
    symmetry. apply Z.ltb_ge. rewrite E. apply Z.mul_le_mono_nonneg_r; lia.
Qed.

Lemma hdr_py_mono : forall d shift acc n r,
  wf_bytes d -> 0 <= shift -> hdr_py d shift acc = Some (n, r) -> acc <= n.
Proof.
  induction d as [|c d IH]; intros shift acc n r Hw Hs H; cbn [hdr_py] in H; [discriminate|].
  inversion Hw as [|? ? Hc Hw']; subst. unfold wf_byte in Hc.
  assert (0 <= (c mod 128) * 2 ^ shift) by (pose proof (pow2_pos shift Hs); apply Z.mul_nonneg_nonneg; lia).
  destruct (c <? 128).
  - inversion H; subst. lia.
  - apply IH in H; [lia|assumption|lia].
Qed.

Lemma hdr_py_wf : forall d shift acc n r, wf_bytes d -> hdr_py d shift acc = Some (n, r) -> wf_bytes r.
Proof.
  induction d as [|c d IH]; intros shift acc n r Hw H; cbn [hdr_py] in H; [discriminate|].
  inversion Hw; subst. destruct (c <? 128); [inversion H; subst; assumption|eapply IH; eauto].
Qed.

Lemma hdr_py_len : forall d shift acc n r, hdr_py d shift acc = Some (n, r) -> zlen r <= zlen d.
Proof.
  induction d as [|c d IH]; intros shift acc n r H; cbn [hdr_py] in H; [discriminate|].
  rewrite zlen_cons. destruct (c <? 128); [inversion H; subst; lia|apply IH in H; lia].
Qed.

Lemma hdr_rel : forall d shift acc,
  wf_bytes d -> 0 <= shift -> shift + 7 * zlen d < 2 ^ 64 - 1 ->
  0 <= acc -> acc < 2 ^ shift -> acc < 2 ^ 64 ->
  match hdr_py d shift acc with
  | None => hdr_rs d shift acc = HErr
  | Some (n, r) => hdr_rs d shift acc = if n <? 2 ^ 64 then HOk n r else HErr
  end.
Proof.
  induction d as [|c d IH]; intros shift acc Hw Hs Hb Ha0 Ha1 Ha2; [reflexivity|].
  inversion Hw as [|? ? Hc Hw']; subst. unfold wf_byte in Hc. rewrite zlen_cons in Hb.
  pose proof (zlen_nonneg d) as Hd.
  cbn [hdr_py hdr_rs]. cbv zeta.
  replace (Z.min (shift + 7) (2 ^ 64 - 1)) with (shift + 7) by lia.
  set (v := c mod 128). assert (Hv : 0 <= v < 128) by (unfold v; lia).
  pose proof (pow2_pos shift Hs) as Hp.
  assert (Hp7 : 2 ^ (shift + 7) = 2 ^ shift * 128) by (rewrite Z.pow_add_r by lia; reflexivity).
  destruct (v =? 0) eqn:Ev.
  - assert (v = 0) by lia. replace (acc + v * 2 ^ shift) with acc by lia.
    destruct (c <? 128) eqn:Ec.
    + replace (acc <? 2 ^ 64) with true by lia. reflexivity.
    + apply IH; try assumption; lia.
  - destruct (64 <=? shift) eqn:E64.
    + assert (2 ^ 64 <= 2 ^ shift) by (apply Z.pow_le_mono_r; lia).
      assert (2 ^ 64 <= acc + v * 2 ^ shift) by nia.
      destruct (c <? 128) eqn:Ec.
      * replace (acc + v * 2 ^ shift <? 2 ^ 64) with false by lia. reflexivity.
      * destruct (hdr_py d (shift + 7) (acc + v * 2 ^ shift)) as [[n r]|] eqn:E; [|reflexivity].
        apply hdr_py_mono in E; [|assumption|lia].
        replace (n <? 2 ^ 64) with false by lia. reflexivity.
    + unfold shl64, shr64. replace ((0 <=? shift) && (shift <? 64)) with true by lia.
      rewrite shl_check by lia. rewrite shl_fits by lia.
      destruct (v * 2 ^ shift <? 2 ^ 64) eqn:Ef.
      * rewrite Z.mod_small by lia.
        assert (acc + v * 2 ^ shift < 2 ^ 64).
        { assert (E : 2 ^ 64 = 2 ^ (64 - shift) * 2 ^ shift) by (rewrite <- Z.pow_add_r by lia; f_equal; lia).
          assert (v < 2 ^ (64 - shift)) by (apply Z.mul_lt_mono_pos_r with (p := 2 ^ shift); lia).
          nia. }
        destruct (c <? 128) eqn:Ec.
        -- replace (acc + v * 2 ^ shift <? 2 ^ 64) with true by lia. reflexivity.
        -- apply IH; try assumption; try lia. nia.
      * assert (2 ^ 64 <= acc + v * 2 ^ shift) by lia.
        destruct (c <? 128) eqn:Ec.
        -- replace (acc + v * 2 ^ shift <? 2 ^ 64) with false by lia. reflexivity.
        -- destruct (hdr_py d (shift + 7) (acc + v * 2 ^ shift)) as [[n r]|] eqn:E; [|reflexivity].
           apply hdr_py_mono in E; [|assumption|lia].
           replace (n <? 2 ^ 64) with false by lia. reflexivity.
Qed.

Lemma rd_nonneg flag d x r : wf_bytes d -> rd flag d = Some (x, r) -> 0 <= x < 256 /\ wf_bytes r.
Proof.
  unfold rd; destruct flag; [destruct d as [|y d']|]; intros Hw H; inversion H; subst.
  - inversion Hw; subst. unfold wf_byte in *. auto.
  - split; [lia|assumption].
Qed.

Lemma parse_copy_nonneg cmd d o s r :
  wf_bytes d -> parse_copy cmd d = Some (o, s, r) -> 0 <= o /\ 0 <= s < 2 ^ 24 /\ wf_bytes r.
Proof.
  unfold parse_copy, obind. intros Hw H.
  repeat match type of H with
  | match rd ?f ?d with _ => _ end = _ =>
      let E := fresh "E" in destruct (rd f d) as [[? ?]|] eqn:E; [apply rd_nonneg in E; [destruct E as [? ?]|assumption]|discriminate]
  end.
  inversion H; subst. change (2 ^ 24) with 16777216. repeat split; try assumption; lia.
Qed.

Lemma zlen_slice_le {A} (l : list A) a n : zlen (slice l a n) <= Z.max n 0.
Proof. unfold zlen, slice. rewrite firstn_length. lia. Qed.

Lemma zlen_outc_cons c chunks : zlen (outc (c :: chunks)) = zlen (outc chunks) + zlen c.
Proof. rewrite outc_cons, zlen_app. reflexivity. Qed.

Lemma fin_eq ds chunks r :
  fin_rs ds chunks (zlen (outc chunks)) r = match r with [] => finish ds chunks | _ => DErr end.
Proof. unfold fin_rs, finish, outc. destruct r; reflexivity. Qed.

Lemma run_rs_S f src ss ds d chunks outlen :
  run_rs (S f) src ss ds d chunks outlen =
    match d with
    | [] => fin_rs ds chunks outlen []
    | cmd :: r =>
      if 128 <=? cmd then
        match parse_copy cmd r with
        | None => DErr
        | Some (off, sz0, r') =>
          let sz := if sz0 =? 0 then 65536 else sz0 in
          if sz >? ss then fin_rs ds chunks outlen r'
          else if off >? ss then fin_rs ds chunks outlen r'
          else match sub64 ss sz with
          | None => DPanic
          | Some a =>
            if off >? a then fin_rs ds chunks outlen r'
            else if sz >? ds then fin_rs ds chunks outlen r'
            else match sub64 ds sz with
            | None => DPanic
            | Some b =>
              if outlen >? b then DErr
              else match add64 outlen sz with
              | None => DPanic
              | Some ol => run_rs f src ss ds r' (slice src off sz :: chunks) ol
              end
            end
          end
        end
      else if cmd =? 0 then DErr
      else if zlen r <? cmd then DErr
      else if cmd >? ds then fin_rs ds chunks outlen r
      else match sub64 ds outlen with
      | None => DPanic
      | Some room =>
        if cmd >? room then DErr
        else match add64 outlen cmd with
        | None => DPanic
        | Some ol => run_rs f src ss ds (zskipn cmd r) (zfirstn cmd r :: chunks) ol
        end
      end
    end.
Proof. reflexivity. Qed.

Lemma run_rel src ds : 0 <= ds < 2 ^ 64 -> zlen src < 2 ^ 64 ->
  forall f d chunks, wf_bytes d -> zlen (outc chunks) <= ds ->
  run_rs f src (zlen src) ds d chunks (zlen (outc chunks)) = run_py f src (zlen src) ds d chunks (zlen (outc chunks)).
Proof.
  intros Hds Hss. set (ss := zlen src) in *. assert (Hss0 : 0 <= ss) by apply zlen_nonneg.
  induction f as [|f IH]; intros d chunks Hw Ho; [reflexivity|].
  rewrite run_rs_S, run_py_S. destruct d as [|cmd r]; [apply fin_eq|].
  inversion Hw as [|? ? Hc Hw']; subst. unfold wf_byte in Hc.
  pose proof (zlen_nonneg (outc chunks)) as Ho0.
  destruct (128 <=? cmd) eqn:E128.
  - destruct (parse_copy cmd r) as [[[off sz0] r']|] eqn:E; [|reflexivity].
    apply parse_copy_nonneg in E; [|assumption]. destruct E as (Hoff & Hsz0 & Hw2).
    cbv zeta. set (sz := if sz0 =? 0 then 65536 else sz0).
    assert (Hsz : 0 < sz) by (unfold sz; destruct (sz0 =? 0) eqn:?; lia).
    destruct (sz >? ss) eqn:E1.
    { replace ((off + sz >? ss) || (sz >? ds)) with true by lia. apply fin_eq. }
    destruct (off >? ss) eqn:E2.
    { replace ((off + sz >? ss) || (sz >? ds)) with true by lia. apply fin_eq. }
    unfold sub64. replace (sz <=? ss) with true by lia.
    destruct (off >? ss - sz) eqn:E3.
    { replace ((off + sz >? ss) || (sz >? ds)) with true by lia. apply fin_eq. }
    destruct (sz >? ds) eqn:E4.
    { rewrite orb_true_r. apply fin_eq. }
    replace ((off + sz >? ss) || false) with false by lia.
    replace (sz <=? ds) with true by lia.
    assert (Hsl : zlen (slice src off sz) = sz) by (apply zlen_slice; lia).
    destruct (zlen (outc chunks) >? ds - sz) eqn:E5.
    { replace (sz >? ds - zlen (outc chunks)) with true by lia. reflexivity. }
    replace (sz >? ds - zlen (outc chunks)) with false by lia.
    unfold add64. replace (zlen (outc chunks) + sz <? 2 ^ 64) with true by lia.
    replace (zlen (outc chunks) + sz) with (zlen (outc (slice src off sz :: chunks))) by (rewrite zlen_outc_cons; lia).
    apply IH; [assumption|]. rewrite zlen_outc_cons. lia.
  - destruct (cmd =? 0) eqn:E0; [reflexivity|].
    destruct (zlen r <? cmd) eqn:El; [reflexivity|].
    assert (Hfl : zlen (zfirstn cmd r) = cmd) by (apply zlen_firstn; lia).
    destruct (cmd >? ds) eqn:E1.
    { rewrite fin_eq. destruct r as [|x r0]; [rewrite zlen_nil in El; lia|].
      replace (cmd >? ds - zlen (outc chunks)) with true by lia. reflexivity. }
    unfold sub64. replace (zlen (outc chunks) <=? ds) with true by lia.
    destruct (cmd >? ds - zlen (outc chunks)) eqn:E2; [reflexivity|].
    unfold add64. replace (zlen (outc chunks) + cmd <? 2 ^ 64) with true by lia.
    replace (zlen (outc chunks) + cmd) with (zlen (outc (zfirstn cmd r :: chunks))) by (rewrite zlen_outc_cons; lia).
    apply IH.
    + apply wf_bytes_skipn. assumption.
    + rewrite zlen_outc_cons. lia.
Qed.

(* output length bound: what Python can produce before the final size check *)
Lemma run_py_len_bound src ss ds : forall f d chunks ol out,
  wf_bytes d -> run_py f src ss ds d chunks ol = DOk out ->
  zlen out <= zlen (outc chunks) + 2 ^ 24 * zlen d.
Proof.
  assert (Fin : forall chunks out k, 0 <= k -> finish ds chunks = DOk out -> zlen out <= zlen (outc chunks) + k).
  { unfold finish. intros chunks out k Hk H. destruct (_ =? _); [|discriminate]. inversion H; subst. fold (outc chunks). lia. }
  change (2 ^ 24) with 16777216.
  induction f as [|f IH]; intros d chunks ol out Hw H; [discriminate|].
  rewrite run_py_S in H. destruct d as [|cmd r]; [change (zlen (@nil Z)) with 0; rewrite Z.mul_0_r; apply Fin; [lia|assumption]|].
  inversion Hw as [|? ? Hc Hw']; subst. unfold wf_byte in Hc. rewrite zlen_cons.
  pose proof (zlen_nonneg r) as Hr.
  destruct (128 <=? cmd).
  - destruct (parse_copy cmd r) as [[[off sz0] r']|] eqn:E; [|discriminate].
    pose proof (parse_copy_length _ _ _ _ _ E) as Hlen.
    apply parse_copy_nonneg in E; [|assumption]. destruct E as (Hoff & Hsz0 & Hw2).
    change (2 ^ 24) with 16777216 in Hsz0.
    cbv zeta in H. destruct (_ || _).
    + destruct r'; [|discriminate]. eapply Fin; [|eassumption]. lia.
    + destruct (_ >? ds - ol); [discriminate|].
      apply IH in H; [|assumption]. rewrite zlen_outc_cons in H.
      pose proof (zlen_slice_le src off (if sz0 =? 0 then 65536 else sz0)).
      assert (zlen r' <= zlen r) by (unfold zlen; lia).
      destruct (sz0 =? 0); lia.
  - destruct (cmd =? 0); [discriminate|]. destruct (zlen r <? cmd) eqn:El; [discriminate|].
    destruct (cmd >? ds - ol); [discriminate|].
    apply IH in H; [|apply wf_bytes_skipn; assumption]. rewrite zlen_outc_cons in H.
    rewrite zlen_firstn in H by lia. rewrite zlen_skipn in H by lia. lia.
Qed.

Lemma apply_rs_eq_py_lemma src delta :
  wf_bytes delta -> zlen delta < 2 ^ 40 -> zlen src < 2 ^ 64 ->
  apply_rs src delta = apply_py src delta.
Proof.
  intros Hw Hl Hs. unfold apply_rs, apply_py.
  pose proof (hdr_rel delta 0 0 Hw ltac:(lia) ltac:(lia) ltac:(lia) ltac:(reflexivity) ltac:(reflexivity)) as H1.
  destruct (hdr_py delta 0 0) as [[ss d1]|] eqn:E1; [|rewrite H1; reflexivity].
  rewrite H1. pose proof (hdr_py_wf _ _ _ _ _ Hw E1) as Hw1. pose proof (hdr_py_len _ _ _ _ _ E1) as Hl1.
  pose proof (zlen_nonneg src) as Hs0.
  destruct (ss <? 2 ^ 64) eqn:Ess.
  2:{ destruct (hdr_py d1 0 0) as [[ds d2]|]; [|reflexivity].
      replace (ss =? zlen src) with false by lia. reflexivity. }
  destruct (ss =? zlen src) eqn:Eeq; [|destruct (hdr_py d1 0 0) as [[? ?]|]; reflexivity].
  assert (ss = zlen src) by lia. subst ss.
  pose proof (zlen_nonneg d1) as Hd1.
  pose proof (hdr_rel d1 0 0 Hw1 ltac:(lia) ltac:(lia) ltac:(lia) ltac:(reflexivity) ltac:(reflexivity)) as H2.
  destruct (hdr_py d1 0 0) as [[ds d2]|] eqn:E2; [|rewrite H2; reflexivity].
  rewrite H2. pose proof (hdr_py_wf _ _ _ _ _ Hw1 E2) as Hw2. pose proof (hdr_py_len _ _ _ _ _ E2) as Hl2.
  pose proof (hdr_py_mono d1 0 0 ds d2 Hw1 ltac:(lia) E2) as Hds0.
  destruct (ds <? 2 ^ 64) eqn:Eds.
  - pose proof (run_rel src ds ltac:(lia) Hs (S (length d2)) d2 [] Hw2) as HR.
    change (zlen (outc [])) with 0 in HR. apply HR. lia.
  - destruct (run_py (S (length d2)) src (zlen src) ds d2 [] 0) as [out| |] eqn:ER; [|reflexivity|].
    + pose proof (run_py_len_bound _ _ _ _ _ _ _ _ Hw2 ER) as Hb.
      destruct (run_py_sound src (zlen src) ds d2 _ _ _ _ _ ER (suffix_refl d2) (Forall_nil _)) as [Hlen _].
      exfalso. change (zlen (outc [])) with 0 in Hb. change (2 ^ 24) with 16777216 in Hb.
      change (2 ^ 40) with 1099511627776 in Hl. change (2 ^ 64) with 18446744073709551616 in Eds. lia.
    + exfalso. eapply run_py_no_panic; eauto.
Qed.

(* ---------- memory: what each decoder materialises ---------- *)

Lemma alloc_rs_bound ss : forall f ds d outlen,
  wf_bytes d -> 0 <= outlen <= ds ->
  outlen <= alloc_rs f ss ds d outlen <= Z.min ds (outlen + 2 ^ 24 * zlen d).
Proof.
  change (2 ^ 24) with 16777216.
  induction f as [|f IH]; intros ds d outlen Hw Ho; pose proof (zlen_nonneg d) as Hd; [cbn [alloc_rs]; lia|].
  cbn [alloc_rs]. destruct d as [|cmd r]; [lia|].
  inversion Hw as [|? ? Hc Hw']; subst. unfold wf_byte in Hc. rewrite zlen_cons in *.
  pose proof (zlen_nonneg r) as Hr.
  destruct (128 <=? cmd).
  - destruct (parse_copy cmd r) as [[[off sz0] r']|] eqn:E; [|lia].
    pose proof (parse_copy_length _ _ _ _ _ E) as Hlen.
    apply parse_copy_nonneg in E; [|assumption]. destruct E as (Hoff & Hsz0 & Hw2).
    change (2 ^ 24) with 16777216 in Hsz0. cbv zeta.
    set (sz := if sz0 =? 0 then 65536 else sz0).
    assert (0 < sz <= 16777216) by (unfold sz; destruct (sz0 =? 0) eqn:?; lia).
    destruct (_ || _) eqn:Eb; [lia|].
    assert (zlen r' <= zlen r) by (unfold zlen; lia).
    specialize (IH ds r' (outlen + sz) Hw2 ltac:(lia)). lia.
  - destruct (cmd =? 0) eqn:?; [lia|]. destruct (zlen r <? cmd) eqn:?; [lia|].
    destruct (cmd >? ds) eqn:?; [lia|]. destruct (cmd >? ds - outlen) eqn:?; [lia|].
    specialize (IH ds (zskipn cmd r) (outlen + cmd) (wf_bytes_skipn _ _ Hw') ltac:(lia)).
    rewrite zlen_skipn in IH by lia. lia.
Qed.

(* the Python decoder never holds more than the declared size *)
Lemma mat_py_bound ss : forall f ds d outlen,
  wf_bytes d -> 0 <= outlen <= ds ->
  outlen <= mat_py f ss ds d outlen <= Z.min ds (outlen + 2 ^ 24 * zlen d).
Proof.
  change (2 ^ 24) with 16777216.
  induction f as [|f IH]; intros ds d outlen Hw Ho; pose proof (zlen_nonneg d) as Hd; [cbn [mat_py]; lia|].
  cbn [mat_py]. destruct d as [|cmd r]; [lia|].
  inversion Hw as [|? ? Hc Hw']; subst. unfold wf_byte in Hc. rewrite zlen_cons in *.
  pose proof (zlen_nonneg r) as Hr.
  destruct (128 <=? cmd).
  - destruct (parse_copy cmd r) as [[[off sz0] r']|] eqn:E; [|lia].
    pose proof (parse_copy_length _ _ _ _ _ E) as Hlen.
    apply parse_copy_nonneg in E; [|assumption]. destruct E as (Hoff & Hsz0 & Hw2).
    change (2 ^ 24) with 16777216 in Hsz0. cbv zeta.
    set (sz := if sz0 =? 0 then 65536 else sz0).
    assert (0 < sz <= 16777216) by (unfold sz; destruct (sz0 =? 0) eqn:?; lia).
    destruct (_ || _) eqn:Eb; [lia|]. destruct (sz >? ds - outlen) eqn:Er; [lia|].
    assert (zlen r' <= zlen r) by (unfold zlen; lia).
    specialize (IH ds r' (outlen + sz) Hw2 ltac:(lia)). lia.
  - destruct (cmd =? 0) eqn:?; [lia|]. destruct (zlen r <? cmd) eqn:?; [lia|].
    destruct (cmd >? ds - outlen) eqn:?; [lia|].
    specialize (IH ds (zskipn cmd r) (outlen + cmd) (wf_bytes_skipn _ _ Hw') ltac:(lia)).
    rewrite zlen_skipn in IH by lia. lia.
Qed.

(* the decoder that checked the total only at the end could be made to hold
   65536 bytes per byte of delta whatever size the delta declared: n copy
   operations of the whole of a 65536-byte base *)
Lemma mat_py_late_unbounded : forall n : nat,
  mat_py_late (S n) 65536 65536 (repeat 128 n) = 65536 * Z.of_nat n.
Proof.
  induction n as [|n IH]; [reflexivity|].
  change (repeat 128 (S n)) with (128 :: repeat 128 n).
  assert (E : forall k r, mat_py_late (S k) 65536 65536 (128 :: r) = 65536 + mat_py_late k 65536 65536 r) by reflexivity.
  rewrite E, IH, Nat2Z.inj_succ. lia.
Qed.

(* ---------- non-vacuity: hypotheses are satisfiable, results non-trivial ---------- *)
Example ex_valid :
  let base := [104;101;108;108;111] in let target := [104;101;121;108;111] in
  let ops := [ {| tg := TEqual; i1 := 0; i2 := 2; j1 := 0; j2 := 2 |};
               {| tg := TReplace; i1 := 2; i2 := 3; j1 := 2; j2 := 3 |};
               {| tg := TEqual; i1 := 3; i2 := 5; j1 := 3; j2 := 5 |} ] in
  valid_opcodesb base target ops = true /\ zlen base < 2 ^ 32 /\
  apply_py base (create_py base target ops) = DOk target /\
  apply_rs base (create_py base target ops) = DOk target.
Proof. vm_compute. repeat split; reflexivity. Qed.
