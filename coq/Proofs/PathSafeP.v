(* Proofs/PathSafeP.v — a validated path stays inside the work tree and outside .git *)
From DV Require Import Bytes PathSafe.
Local Open Scope Z_scope.

Lemma lower_byte_fix c : lower_byte c < 65 \/ 90 < lower_byte c.
Proof. unfold lower_byte. destruct ((65 <=? c) && (c <=? 90)) eqn:E; lia. Qed.

Lemma lower_byte_low c x : lower_byte c = x -> x < 65 -> c = x.
Proof. unfold lower_byte. destruct ((65 <=? c) && (c <=? 90)) eqn:E; lia. Qed.

Lemma bytes_beq_false_neq a b : bytes_beq a b = false -> a <> b.
Proof. intros H E. subst. rewrite bytes_beq_refl in H. discriminate. Qed.

Lemma invalid_name_false n : invalid_name n = false -> n <> DOTGIT /\ n <> DOT /\ n <> DOTDOT /\ n <> [].
Proof.
  unfold invalid_name. intros H. apply orb_false_elim in H. destruct H as [H H4].
  apply orb_false_elim in H. destruct H as [H H3]. apply orb_false_elim in H. destruct H as [H1 H2].
  repeat split; apply bytes_beq_false_neq; assumption.
Qed.

(* an element the default validator accepts is not "", ".", ".." and does not fold to ".git" *)
Lemma valid_default_safe e : valid_default e = true -> e <> [] /\ e <> DOT /\ e <> DOTDOT /\ lower e <> DOTGIT.
Proof.
  unfold valid_default. intros H. apply negb_true_iff in H. apply invalid_name_false in H.
  destruct H as (A & B & C & D). repeat split; auto; intros ->; [apply D|apply B|apply C]; reflexivity.
Qed.

(* the NTFS validator is at least as strict as the default one *)
Lemma valid_ntfs_implies_default e : valid_ntfs e = true -> valid_default e = true.
Proof.
  unfold valid_ntfs, valid_default. intros H. apply andb_prop in H. destruct H as [_ H].
  apply negb_true_iff in H. apply negb_true_iff.
  destruct (invalid_name (lower e)) eqn:I; [|reflexivity]. exfalso.
  unfold invalid_name in I. apply orb_prop in I. destruct I as [I|I]; [apply orb_prop in I; destruct I as [I|I]; [apply orb_prop in I; destruct I as [I|I]|]|];
    apply bytes_beq_spec in I.
  - (* lower e = ".git": e has four bytes, the last is t or T: nothing to strip *)
    destruct e as [|a [|b [|c [|d [|x r]]]]]; try discriminate I. cbn [lower map] in I. injection I as Ha Hb Hc Hd.
    assert (dot_or_space d = false) by (unfold dot_or_space, lower_byte in *; destruct ((65 <=? d) && (d <=? 90)) eqn:E; lia).
    cbn [rstrip_ds] in H. rewrite H0 in H. cbn [lower map] in H. rewrite Ha, Hb, Hc, Hd in H. discriminate H.
  - destruct e as [|a [|x r]]; try discriminate I. cbn [lower map] in I. injection I as Ha. apply lower_byte_low in Ha; [|lia]. subst a.
    cbn in H. discriminate H.
  - destruct e as [|a [|b [|x r]]]; try discriminate I. cbn [lower map] in I. injection I as Ha Hb.
    apply lower_byte_low in Ha; [|lia]. apply lower_byte_low in Hb; [|lia]. subst a b. cbn in H. discriminate H.
  - destruct e; [|discriminate I]. cbn in H. discriminate H.
Qed.

(* ---------- whole paths ---------- *)
Lemma normalize_safe : forall cs acc,
  Forall (fun c => c <> [] /\ c <> DOT /\ c <> DOTDOT) cs -> normalize cs acc = Some (rev acc ++ cs).
Proof.
  induction cs as [|c r IH]; intros acc F; cbn [normalize]; [rewrite app_nil_r; reflexivity|].
  inversion F as [|? ? (A & B & C) F']; subst.
  replace (bytes_beq c []) with false by (symmetry; destruct (bytes_beq c []) eqn:E; [apply bytes_beq_spec in E; contradiction|reflexivity]).
  replace (bytes_beq c DOT) with false by (symmetry; destruct (bytes_beq c DOT) eqn:E; [apply bytes_beq_spec in E; contradiction|reflexivity]).
  replace (bytes_beq c DOTDOT) with false by (symmetry; destruct (bytes_beq c DOTDOT) eqn:E; [apply bytes_beq_spec in E; contradiction|reflexivity]).
  cbn [orb]. rewrite IH by exact F'. cbn [rev]. rewrite <- app_assoc. reflexivity.
Qed.

Lemma split_on_nonempty sep l cur : split_on sep l cur <> [].
Proof. revert cur. induction l as [|c r IH]; intros cur; cbn [split_on]; [discriminate|]. destruct (c =? sep); [discriminate|apply IH]. Qed.

Lemma validated_path_inside validator p :
  (forall e, validator e = true -> valid_default e = true) ->
  validate_path validator p = true ->
  let cs := split_on 47 p [] in
  normalize cs [] = Some cs /\ cs <> [] /\
  Forall (fun c => c <> [] /\ c <> DOT /\ c <> DOTDOT /\ lower c <> DOTGIT) cs.
Proof.
  intros V H cs. unfold validate_path in H. fold cs in H. rewrite forallb_forall in H.
  assert (F : Forall (fun c => c <> [] /\ c <> DOT /\ c <> DOTDOT /\ lower c <> DOTGIT) cs).
  { apply Forall_forall. intros c Hc. apply valid_default_safe. apply V. apply H. exact Hc. }
  split; [|split; [apply split_on_nonempty|exact F]].
  change cs with (rev [] ++ cs) at 2. apply normalize_safe. eapply Forall_impl; [|exact F]. intros c (A & B & C & _). auto.
Qed.

(* ---------- the NTFS spellings of .git ---------- *)
Lemma ntfs_tail_pad pad rest : forallb dot_or_space pad = true -> (rest = [] \/ exists x, rest = 58 :: x) -> ntfs_tail (pad ++ rest) = true.
Proof.
  intros P R. induction pad as [|c t IH]; cbn [app].
  - destruct R as [->|[x ->]]; reflexivity.
  - cbn [forallb] in P. apply andb_prop in P. destruct P as [P1 P2]. cbn [ntfs_tail].
    destruct (c =? 58); [reflexivity|]. rewrite P1. apply IH. exact P2.
Qed.

Lemma split_no_sep sep : forall l cur, forallb (fun c => negb (c =? sep)) l = true -> split_on sep l cur = [rev cur ++ l].
Proof.
  induction l as [|c r IH]; intros cur H; cbn [split_on]; [rewrite app_nil_r; reflexivity|].
  cbn [forallb] in H. apply andb_prop in H. destruct H as [H1 H2]. apply negb_true_iff in H1. rewrite H1.
  rewrite IH by exact H2. cbn [rev]. rewrite <- app_assoc. reflexivity.
Qed.

Lemma ntfs_refuses_dotgit g i t pad rest :
  lower [g; i; t] = [103; 105; 116] -> forallb dot_or_space pad = true ->
  (rest = [] \/ exists x, rest = 58 :: x) ->
  forallb (fun c => negb (c =? 92)) (46 :: g :: i :: t :: pad ++ rest) = true ->
  valid_ntfs (46 :: g :: i :: t :: pad ++ rest) = false.
Proof.
  intros L P R NB. unfold valid_ntfs. rewrite (split_no_sep 92 _ [] NB). cbn [rev app existsb is_ntfs_dotgit].
  rewrite L. rewrite bytes_beq_refl. rewrite (ntfs_tail_pad pad rest P R). reflexivity.
Qed.

Lemma ntfs_refuses_short_name g i t pad rest :
  lower [g; i; t] = [103; 105; 116] -> forallb dot_or_space pad = true ->
  (rest = [] \/ exists x, rest = 58 :: x) ->
  forallb (fun c => negb (c =? 92)) (g :: i :: t :: 126 :: 49 :: pad ++ rest) = true ->
  valid_ntfs (g :: i :: t :: 126 :: 49 :: pad ++ rest) = false.
Proof.
  intros L P R NB. unfold valid_ntfs. rewrite (split_no_sep 92 _ [] NB). cbn [rev app existsb].
  assert (G : g <> 46) by (intros ->; cbn in L; discriminate L).
  unfold is_ntfs_dotgit. destruct (Z.eq_dec g 46) as [E|_]; [contradiction|].
  destruct g as [|gp|gp]; try (rewrite L, bytes_beq_refl, (ntfs_tail_pad pad rest P R); reflexivity).
  (* positive: the first pattern needs the literal 46 *)
  destruct gp as [[[[[[?|?|]|[?|?|]|]|[[?|?|]|[?|?|]|]|]|[[[?|?|]|[?|?|]|]|[[?|?|]|[?|?|]|]|]|]|[[[[?|?|]|[?|?|]|]|[[?|?|]|[?|?|]|]|]|[[[?|?|]|[?|?|]|]|[[?|?|]|[?|?|]|]|]|]|]|[[[[[?|?|]|[?|?|]|]|[[?|?|]|[?|?|]|]|]|[[[?|?|]|[?|?|]|]|[[?|?|]|[?|?|]|]|]|]|[[[[?|?|]|[?|?|]|]|[[?|?|]|[?|?|]|]|]|[[[?|?|]|[?|?|]|]|[[?|?|]|[?|?|]|]|]|]|]|];
    try (rewrite L, bytes_beq_refl, (ntfs_tail_pad pad rest P R); reflexivity); try contradiction.
Qed.
